"""C15 - silent peers time out; healthy peers never do, for every timeout setting.

Design level: Interval.tla - the announcement interval rule (saturating arithmetic) satisfies IntervalOK for every
advertised timeout x the grid of own settings (TLC, one initial state per combination).
Impl -> spec on real mock nodes, judged by TLC (Trace_NodeRuns): every scheduling of the next announcement observed
through next_peers for own settings from the grid {0,1,59,60,119,120,121,300,65535} x keepalive options x advertised
timeouts (quick: 0..300 and boundary values; thorough: all 65536) incl. sets of 2-3 peers; heterogeneous meshes and
late joiners with small timeouts on a delivering network (nobody may ever be timed out or re-dialled); silence
injection at every second of a window (removal, with routes, exactly at the first tick after last refresh + timeout,
then re-dial); 48 h against an unreachable configured peer (gaps between fresh dials never above one hour)."""
import os
import vplib as V
from checks import cloudcommon
from checks import noderuns

PID = "C15"


def classify(e):
    op = e.get("op")
    if op == "interval":
        if e["res"] != "ok":
            small = "own<120" if e["own_to"] < 120 and e["own_ka"] < 0 and e["res"] == "panic-config" else "adv<120"
            return "c15|interval|%s|%s" % (e["res"], small)
        return "c15|interval|too-long"
    if op in ("hetero", "latejoin"):
        if e["res"] != "ok" or e["panics"]:
            return "c15|%s|panic" % op
        return "c15|%s|healthy-peer-timed-out" % op
    if op == "silence":
        return "c15|silence|%s" % ("not-removed-on-time" if e["removed_at"] != e["last_refresh"] + e["T"] + 1 else "routes-or-redial")
    if op == "backoff":
        return "c15|backoff"
    return "c15|%s" % op


def run(tier, out):
    wd = V.workdir(PID)
    quick = tier == "quick"
    V.build_harness()
    d = V.tlc_design("MC_Interval.tla", "MC_Interval.cfg" if quick else "MC_Interval_thorough.cfg", PID, workers=8, timeout=1200)
    if d.invariant_violated:
        out.violation("design|interval", "Interval.tla: the interval rule violates IntervalOK", {"tlc": d.out[-2000:]})
    tp = os.path.join(wd, "trace.ndjson")
    s = V.harness_json(["node", "c15", tier, tp], timeout=7200)
    accepted = noderuns.validate_records(PID, out, tp, classify, "C15 plans", max_rounds=10)
    st = "skipped (violations found)"
    if not out.violations:
        dst = os.path.join(wd, "selftest.ndjson")
        hit = V.corrupt_trace(tp, dst, lambda e: e["op"] == "interval" and e["res"] == "ok" and e["adv_seen"] and min(e["adv_seen"]) > 5,
                              lambda e: e.__setitem__("d", min(e["adv_seen"])))
        v = V.tlc_trace("Trace_NodeRuns.tla", "Trace_NodeRuns.cfg", PID, dst, s["events"], sub="selftest")
        if hit is None or v.accepted or v.matched != hit - 1:
            V.selftest_fail(PID, "an interval equal to the smallest advertised timeout (line %s) was not rejected there" % hit)
        st = "interval raised to the smallest advertised timeout at line %d rejected by TLC" % hit
    evs = V.read_ndjson(tp)
    kinds = {}
    for e in evs:
        kinds[e["op"]] = kinds.get(e["op"], 0) + 1
    cov = {
        "states": d.distinct, "transitions": d.generated,
        "traces_validated_against_impl": accepted,
        "samples": [evs[0], next(e for e in evs if e["op"] == "silence"), next(e for e in evs if e["op"] == "backoff")],
        "evaluations": s["events"], "distinct_nontrivial": s["events"],
        "rule": "records by kind: %s; interval records: one per (own timeout, own keepalive, advertised timeouts) scheduling observed on a real node" % kinds,
        "self_test": st,
    }
    cloudcommon.design(PID, tier, out, cov)
    cloudcommon.part(PID, tier, out, cov, extra={"timeout plans": tp + ".cloud"})
    return out.finish("model_checking", cov, assumptions=[
        "'last refresh' of a peer is read from the node's own expiry field (expiry - own timeout); the removal time is judged independently of it",
        "a delay of 0 (keepalive 0: announce on every tick) counts as 'at most one second'",
        "advertised timeouts of 0 cannot be kept alive by any interval; heterogeneous meshes use timeouts >= 1 s"])
