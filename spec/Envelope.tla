------------------------------ MODULE Envelope ------------------------------
(***************************************************************************)
(* The authenticated-encryption envelope of payload and routing messages   *)
(* (C02), over the connections of a small mesh.                            *)
(*                                                                         *)
(* Code: src/crypto/core.rs CryptoCore::{encrypt, decrypt,                 *)
(*       decrypt_with_key, rotate_key}, src/crypto/common.rs               *)
(*       PeerCrypto::{send_message, handle_message, encrypt_message,       *)
(*       decrypt_message}.                                                 *)
(*                                                                         *)
(* A connection is an unordered pair of ends with session keys in key      *)
(* slots (the protocol that fills the slots at both ends is Rotation.tla,  *)
(* here a slot changes at both ends at once).  Two layers:                 *)
(*                                                                         *)
(*  - the RULE, as the property states it: a presented datagram opens iff  *)
(*    it is unaltered, was sealed for this connection by the OTHER end and *)
(*    names a slot that still holds its key (RuleOpens / Open);            *)
(*  - the MECHANISM, symbolically: AEAD under the key found in the slot    *)
(*    the key-id names, with the nonce rebuilt from the wire counter and   *)
(*    the half OPPOSITE to the receiver's own (MechOpen).                  *)
(*                                                                         *)
(* TLC checks that the mechanism implements the rule for every datagram    *)
(* ever sealed, presented - intact, altered in one of the tamper classes,  *)
(* reflected, or on a foreign connection - to every end on every one of    *)
(* its connections, and the history properties on top of it.               *)
(* Replays of intact datagrams to their rightful receiver are the replay   *)
(* window's business (NonceWindow.tla, C03): here the network delivers an  *)
(* intact datagram to its rightful receiver at most once.                  *)
(***************************************************************************)
EXTENDS Naturals, FiniteSets

CONSTANTS Ends,          \* node identities (numbers)
          Slots,         \* key slots of a connection (the code: 0..3)
          KeyIds,        \* values the key-id field of a datagram can take (a superset of Slots)
          Payloads,      \* what the interface hands over
          MaxGen,        \* bound on key generations per connection (model bound)
          HalfForced,    \* TRUE: the receiver rebuilds the nonce with the half opposite to its own (the design)
          KeyIdAliased   \* FALSE: a key id names a slot or nothing (the design); TRUE: the receiver reduces the key-id
                         \* field modulo the number of slots (Slots = 0..n-1), so several values name the same slot

ASSUME Slots \subseteq KeyIds

Conns == {c \in SUBSET Ends : Cardinality(c) = 2}
Peer(c, e) == CHOOSE x \in c : x # e
Lower(c) == CHOOSE x \in c : \A y \in c : x <= y
\* the two ends of a connection own opposite halves of the nonce space (the code: order of the salted node id hashes)
Half(c, e) == IF e = Lower(c) THEN 0 ELSE 1

\* what can happen to a datagram in transit: one bit of the key-id byte, of the counter, of the ciphertext or of the
\* tag changed; cut to any shorter length
TamperClasses == {"keyid", "ctr", "ct", "tag", "trunc"}
Intact == "none"

VARIABLES plain,       \* plain[c]: both ends of c enabled unencrypted operation and the handshake chose it
          gen,         \* gen[c][k]: generation of the session key in slot k of connection c at both ends (0: none yet)
          fresh,       \* fresh[c]: next unused key generation of c
          cur,         \* cur[c]: slot the ends of c seal with
          nseal,       \* nseal[c][e]: datagrams sealed so far by end e on connection c
          wire,        \* every datagram ever put on the wire (what an attacker may hold)
          pending,     \* datagrams not yet delivered to their rightful receiver
          delivered    \* history: what the ends handed to their interfaces and which presentation caused it

vars == <<plain, gen, fresh, cur, nseal, wire, pending, delivered>>

NoKey == <<"nokey">>
\* the key an end finds when it looks up key id `kid` of connection c: the shared session key of that slot, or a
\* private dummy nobody else holds (empty slot, no such slot, not an end of c, unencrypted session)
KeyAt(e, c, kid) ==
  IF kid \in Slots /\ e \in c /\ ~plain[c] /\ gen[c][kid] > 0 THEN <<"key", c, gen[c][kid]>> ELSE <<"dummy", e, c, kid>>

-----------------------------------------------------------------------------
(* Presentations: datagram d arrives at end `at` as if it came from the other end of connection `on`. *)

Arrivals == {x \in Ends \X Conns : x[1] \in x[2]}          \* <<receiving end, one of its connections>>
Alterations == TamperClasses \cup {Intact}
PresOf(d, x, a, k) == [d |-> d, at |-> x[1], on |-> x[2], alt |-> a, kid |-> k]
\* a key-id alteration changes the field to another value; every other presentation leaves it alone
Meaningful(pr) == IF pr.alt = "keyid" THEN pr.kid # pr.d.slot ELSE pr.kid = pr.d.slot

\* THE RULE (property statement), as a function of the facts about a presentation
RuleOpens(sealedFor, sealer, on, at, alt, slotHoldsKey) ==
  /\ alt = Intact               \* not altered in any bit, not truncated
  /\ sealedFor = on             \* sealed for this connection
  /\ at \in on /\ sealer \in on
  /\ sealer # at                \* by the other end: a reflected datagram does not open
  /\ slotHoldsKey               \* the slot it names holds its key

Open(pr) == RuleOpens(pr.d.conn, pr.d.from, pr.on, pr.at, pr.alt, KeyAt(pr.at, pr.on, pr.d.slot) = pr.d.key)

\* THE MECHANISM
MechOpen(pr) ==
  LET d == pr.d
      kid == IF pr.alt = "keyid" THEN pr.kid ELSE d.slot        \* the receiver believes the key-id field
      slot == IF KeyIdAliased THEN kid % Cardinality(Slots) ELSE kid
  IN /\ d.sealed                                                 \* an envelope at all
     /\ pr.alt \notin {"ct", "tag", "trunc"}                     \* the tag covers the whole ciphertext and its length
     /\ pr.alt # "ctr"                                           \* another counter = another nonce: the tag fails
     /\ KeyAt(pr.at, pr.on, slot) = d.key                        \* the key found under that id is the sealing key
     /\ HalfForced => 1 - Half(pr.on, pr.at) = d.half            \* nonce half forced to the opposite of the own one

\* every meaningful presentation of a datagram of D to any end on any of its connections
ForAllPresentations(D, P(_)) ==
  \A d \in D, x \in Arrivals :
     /\ \A a \in Alterations \ {"keyid"} : P(PresOf(d, x, a, d.slot))
     /\ \A k \in KeyIds \ {d.slot} : P(PresOf(d, x, "keyid", k))

Bad(pr) == pr.alt # Intact \/ pr.d.conn # pr.on \/ pr.d.from = pr.at

-----------------------------------------------------------------------------
Init ==
  /\ plain \in [Conns -> BOOLEAN]
  /\ gen = [c \in Conns |-> [k \in Slots |-> IF k = 0 THEN 1 ELSE 0]]      \* the handshake's master key sits in slot 0
  /\ fresh = [c \in Conns |-> 2]
  /\ cur = [c \in Conns |-> 0]
  /\ nseal = [c \in Conns |-> [e \in c |-> 0]]
  /\ wire = {} /\ pending = {} /\ delivered = {}

\* PeerCrypto::send_message -> CryptoCore::encrypt (or nothing at all on an unencrypted session)
Seal(c, e, p) ==
  LET d == [conn |-> c, from |-> e, seq |-> nseal[c][e] + 1, slot |-> cur[c],
            key |-> IF plain[c] THEN NoKey ELSE KeyAt(e, c, cur[c]),
            half |-> Half(c, e), payload |-> p, sealed |-> ~plain[c]]
  IN /\ nseal' = [nseal EXCEPT ![c][e] = @ + 1]
     /\ wire' = wire \cup {d}
     /\ pending' = pending \cup {d}
     /\ UNCHANGED <<plain, gen, fresh, cur, delivered>>

\* a datagram arrives (PeerCrypto::handle_message -> CryptoCore::decrypt); what opens is handed to the interface.
\* A presentation that does not open changes nothing (a stuttering step, not listed in Next): MechanismMeetsRule
\* speaks about every presentation possible in every reachable state.
Present(pr) ==
  /\ Meaningful(pr)
  /\ ~plain[pr.on]                          \* unencrypted sessions are outside the property ("unless both ends ...")
  /\ Bad(pr) \/ pr.d \in pending            \* intact to the rightful receiver: at most once
  /\ MechOpen(pr)
  /\ delivered' = delivered \cup {[conn |-> pr.on, to |-> pr.at, payload |-> pr.d.payload, pres |-> pr]}
  /\ pending' = pending \ {pr.d}
  /\ UNCHANGED <<plain, gen, fresh, cur, nseal, wire>>

\* unencrypted session: the payload travels as it is
PresentPlain(d) ==
  /\ d \in pending /\ plain[d.conn]
  /\ delivered' = delivered \cup {[conn |-> d.conn, to |-> Peer(d.conn, d.from), payload |-> d.payload,
                                   pres |-> [d |-> d, at |-> Peer(d.conn, d.from), on |-> d.conn, alt |-> Intact, kid |-> d.slot]]}
  /\ pending' = pending \ {d}
  /\ UNCHANGED <<plain, gen, fresh, cur, nseal, wire>>

\* key rotation installs a fresh key in slot k at both ends; the rotation protocol (C07) does not reuse a slot while
\* datagrams sealed under its old key are still in flight
Rotate(c, k, use) ==
  /\ ~plain[c] /\ fresh[c] <= MaxGen
  /\ \A d \in pending : ~(d.conn = c /\ d.slot = k)
  /\ gen' = [gen EXCEPT ![c][k] = fresh[c]]
  /\ fresh' = [fresh EXCEPT ![c] = @ + 1]
  /\ cur' = IF use THEN [cur EXCEPT ![c] = k] ELSE cur
  /\ UNCHANGED <<plain, nseal, wire, pending, delivered>>

SealStep == \E c \in Conns, e \in Ends, p \in Payloads : e \in c /\ Seal(c, e, p)
PresentStep == \E d \in wire, x \in Arrivals :
                 \/ \E a \in Alterations \ {"keyid"} : Present(PresOf(d, x, a, d.slot))
                 \/ \E k \in KeyIds \ {d.slot} : Present(PresOf(d, x, "keyid", k))
PlainStep == \E d \in pending : PresentPlain(d)
RotateStep == \E c \in Conns, k \in Slots, u \in BOOLEAN : Rotate(c, k, u)

Next == SealStep \/ PresentStep \/ PlainStep \/ RotateStep

Spec == Init /\ [][Next]_vars

-----------------------------------------------------------------------------
(* C02 *)

\* the mechanism implements the rule, for everything an attacker can present
MechanismMeetsRule ==
  ForAllPresentations(wire, LAMBDA pr : ~plain[pr.on] => (MechOpen(pr) <=> Open(pr)))

\* altered / reflected / foreign datagrams deliver nothing
NothingDeliveredFromBad == \A x \in delivered : ~Bad(x.pres)

\* what is delivered is what the other end of that connection sealed, byte-identical, once
DeliveredIdentical ==
  \A x \in delivered :
    /\ x.pres.d \in wire
    /\ x.pres.d.conn = x.conn /\ x.pres.d.from = Peer(x.conn, x.to)
    /\ x.payload = x.pres.d.payload
    /\ Cardinality({y \in delivered : y.conn = x.conn /\ y.to = x.to /\ y.pres.d.seq = x.pres.d.seq}) = 1

\* an intact datagram presented to its rightful receiver opens (nothing is lost by the envelope itself)
PendingOpens ==
  \A d \in pending : ~plain[d.conn] =>
     MechOpen([d |-> d, at |-> Peer(d.conn, d.from), on |-> d.conn, alt |-> Intact, kid |-> d.slot])

\* what an observer of the wire can read of a datagram: key id and counter always; the payload only without envelope
Visible(d) == IF d.sealed THEN {} ELSE {d.payload}
CleartextOK(found, isPlain) == found => isPlain
WireHidesCleartext == \A d \in wire : CleartextOK(d.payload \in Visible(d), plain[d.conn])

TypeOK == /\ pending \subseteq wire
          /\ \A c \in Conns : cur[c] \in Slots /\ (~plain[c] => gen[c][cur[c]] > 0)
=============================================================================
