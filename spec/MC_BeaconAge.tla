---------------------------- MODULE MC_BeaconAge ----------------------------
(* Design run, part 1 of C17: the age window over ALL 65 536 stamps x the age limits of the quantifier's boundary set.
   One state per (block of BlockSize consecutive stamps, ttl) - the invariants quantify over the stamps of the block,
   so that every (then, ttl) pair is evaluated; the reader's clock ranges over a boundary set (shift invariance, also
   checked here, extends the result to every clock value). *)
EXTENDS Beacon, TLC
CONSTANTS Limits, Nows, Shifts, BlockSize
VARIABLES blk, ttl

\* 16 x |Limits| chains, so that TLC's workers share the enumeration (initial states are processed by one thread)
Init == blk \in 0..15 /\ ttl \in Limits
Next == blk + 16 < M \div BlockSize /\ blk' = blk + 16 /\ ttl' = ttl
Stamps == (blk * BlockSize)..(blk * BlockSize + BlockSize - 1)

AgeProps ==
  \A then \in Stamps : \A now \in Nows :
    LET ok == AgeOK(now, then, ttl) IN
    /\ ok <=> AgeOK(then, now, ttl)                                          \* AgeSymmetric
    /\ ok <=> AgeOKTwoSided(now, then, ttl)                                  \* AgeFormsAgree
    /\ \A s \in Shifts : ok <=> AgeOK((now + s) % M, (then + s) % M, ttl)    \* AgeShiftInvariant
    /\ ok => \A t2 \in Limits : t2 >= ttl => AgeOK(now, then, t2)            \* AgeMonotone
    /\ AgeAccepted(now, then, NoLimit)
\* boundary behaviour with `then` in the role of the clock (all 65 536 values)
BoundaryProps == \A then \in Stamps : AgeBoundary(then, ttl)
\* exactly 2*ttl + 1 stamps are accepted (ttl < 32768), all of them otherwise - for the clocks in Nows that fall into the block
CountProps ==
  \A now \in Nows \cap {blk * BlockSize} :
     Cardinality({t \in 0..(M - 1) : AgeOK(now, t, ttl)}) = (IF ttl < M \div 2 THEN 2 * ttl + 1 ELSE M)
=============================================================================
