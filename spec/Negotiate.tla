------------------------------ MODULE Negotiate ------------------------------
(***************************************************************************)
(* Cipher negotiation (C06).                                               *)
(* Code: src/crypto/init.rs InitState::select_algorithm, the algorithm     *)
(* part of InitMsg, src/crypto/common.rs Crypto::parse_algorithms.         *)
(*                                                                         *)
(* An advertised list is a sequence of <<cipher, speed>> in configuration  *)
(* order without repeated ciphers, plus the allow-unencrypted flag.        *)
(* The PROPERTY is stated on the two advertised SETS:                      *)
(*   plain iff both flags; otherwise a common cipher whose slower side is  *)
(*   fastest; Fail iff no common cipher; both ends choose the same one.  *)
(***************************************************************************)
EXTENDS Naturals, Sequences, FiniteSets

Ciphers == {1, 2, 3}                 \* aes128, aes256, chacha20 (wire ids)
Min(a, b) == IF a < b THEN a ELSE b
Plain == 0                            \* outcome "unencrypted" (wire id 0 is the allow-unencrypted flag)
Fail == 99                           \* outcome "no common cipher"

HasCipher(l, c) == \E i \in 1..Len(l) : l[i][1] = c
SpeedOf(l, c) == l[CHOOSE i \in 1..Len(l) : l[i][1] = c][2]

CommonSet(a, b) == {c \in Ciphers : HasCipher(a, c) /\ HasCipher(b, c)}
Score(a, b, c) == Min(SpeedOf(a, c), SpeedOf(b, c))

\* every outcome the property admits for the pair of advertised sets
Admissible(a, ap, b, bp) ==
  IF ap /\ bp THEN {Plain}
  ELSE IF CommonSet(a, b) = {} THEN {Fail}
  ELSE {c \in CommonSet(a, b) : \A d \in CommonSet(a, b) : Score(a, b, d) <= Score(a, b, c)}

\* a symmetric choice: the same value whichever end evaluates it (ties broken by cipher identity, lowest wire id)
Choice(a, ap, b, bp) ==
  LET S == Admissible(a, ap, b, bp) IN
  IF S = {Plain} \/ S = {Fail} THEN CHOOSE x \in S : TRUE
  ELSE CHOOSE c \in S : \A d \in S : c <= d

\* C06 for one pair of results observed at the two ends (x at the end advertising a, y at the end advertising b)
OutcomeOK(a, ap, b, bp, x, y) == x = y /\ x \in Admissible(a, ap, b, bp)

\* "unencrypted operation only if both enabled it", as an end behaves: a message without envelope is taken as payload
\* by an end only after it completed a handshake whose outcome was Plain (PeerCrypto.unencrypted) - never before the
\* handshake completed, never on a session that selected a cipher
TakesUnsealed(completed, outcome) == completed /\ outcome = Plain
\* observation of unsealed probes offered to an end (early: number accepted before completion; after: "acc" | "rej" | "na")
UnsealedProbesOK(outcome, early, after) ==
  /\ early = 0
  /\ after = (IF outcome = Fail THEN "na" ELSE IF TakesUnsealed(TRUE, outcome) THEN "acc" ELSE "rej")

-----------------------------------------------------------------------------
(* The rule as a list-order-dependent procedure: filter_map over the own list in own order, minimum of both speeds,
   max_by with a comparator; Tie(mode, c1, c2) = "c2 replaces c1 as the current maximum on equal scores". *)
Tie(mode, c1, c2) == IF mode = "first" THEN FALSE ELSE c2 < c1

RECURSIVE Fold(_, _, _, _, _)
Fold(own, peer, i, best, mode) ==
  IF i > Len(own) THEN best
  ELSE LET c == own[i][1] IN
       IF ~HasCipher(peer, c) THEN Fold(own, peer, i + 1, best, mode)
       ELSE LET s == Min(own[i][2], SpeedOf(peer, c)) IN
            IF best = <<>> \/ best[2] < s \/ (best[2] = s /\ Tie(mode, best[1], c))
            THEN Fold(own, peer, i + 1, <<c, s>>, mode)
            ELSE Fold(own, peer, i + 1, best, mode)

SelectWith(own, ownPlain, peer, peerPlain, mode) ==
  IF ownPlain /\ peerPlain THEN Plain
  ELSE LET b == Fold(own, peer, 1, <<>>, mode) IN IF b = <<>> THEN Fail ELSE b[1]

\* "first": a comparator that never reports equality - the first maximum in OWN order wins (order dependent);
\* "id": ties broken by cipher identity
SelectById(own, op, peer, pp) == SelectWith(own, op, peer, pp, "id")
SelectFirstWins(own, op, peer, pp) == SelectWith(own, op, peer, pp, "first")
=============================================================================
