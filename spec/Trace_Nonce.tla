------------------------------- MODULE Trace_Nonce -------------------------------
(* C04 on recorded executions.  Events:
   inc{in,out}            Nonce::increment on a chosen value          -> out = Inc(in)
   sealat{nonce,wire,opened,half}  seal with the counter placed near a boundary -> wire = Wire(nonce), opened <=> Fits
   seal{end,key,nonce}    seal log of whole connection lifetimes       -> per (end,key) strictly increasing, halves
                          of the two ends under one key differ, a new key starts a fresh sequence at a fresh value *)
EXTENDS Nonce, FiniteSets, TLC, Json, IOUtils

Rec == ndJsonDeserialize(IOEnv.TRACE)
N == Len(Rec)
VARIABLES l, lastN, starts
tvars == <<l, lastN, starts>>

\* lastN: set of records [end, key, nonce]: last nonce used by an end under a key (one record per (end,key))
TraceInit == l = 1 /\ lastN = {} /\ starts = {}

Known(e) == {r \in lastN : r.end = e.end /\ r.key = e.key}
PeerRec(e) == {r \in lastN : r.end # e.end /\ r.key = e.key}
Suffix(n) == SubSeq(n, L - 5, L)

SealEv(e) ==
  /\ e.nonce \in Nonces
  /\ e.fresh            \* the first counter of a key does not continue a counter used under another key (harness: distance >= 2^24)
  /\ IF Known(e) # {}
     THEN LET r == CHOOSE x \in Known(e) : TRUE IN
          /\ Less(r.nonce, e.nonce)                 \* strictly increasing: no nonce twice under this key at this end
          /\ r.nonce[1] = e.nonce[1]                \* stays in its half
          /\ lastN' = (lastN \ {r}) \cup {[end |-> e.end, key |-> e.key, nonce |-> e.nonce]}
          /\ UNCHANGED starts
     ELSE /\ e.nonce[1] \in {0, 128}
          /\ \A r \in PeerRec(e) : r.nonce[1] # e.nonce[1]   \* the two ends draw from disjoint halves
          /\ Suffix(e.nonce) \notin starts                    \* a new key starts at a value not seen before
          /\ starts' = starts \cup {Suffix(e.nonce)}
          /\ lastN' = lastN \cup {[end |-> e.end, key |-> e.key, nonce |-> e.nonce]}

Step(e) ==
  CASE e.op = "reset"  -> lastN' = {} /\ starts' = {}
    [] e.op = "inc"    -> e.out = Inc(e.in) /\ UNCHANGED <<lastN, starts>>
    [] e.op = "sealat" -> /\ e.wire = Wire(e.nonce)
                          /\ e.opened = (Fits(e.nonce) /\ e.nonce[1] = e.half)
                          /\ UNCHANGED <<lastN, starts>>
    [] e.op = "seal"   -> SealEv(e)
    [] OTHER -> FALSE

TraceNext == l <= N /\ l' = l + 1 /\ Step(Rec[l])
TraceSpec == TraceInit /\ [][TraceNext]_tvars
Accepted == IF TLCGet("stats").diameter - 1 = N THEN TRUE
            ELSE Print(<<"REJECTED", TLCGet("stats").diameter, Rec[TLCGet("stats").diameter]>>, FALSE)
=============================================================================
