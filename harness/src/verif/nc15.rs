//! C15: silent peers time out; healthy peers never do, for every timeout setting.
//! `node c15 <tier> <trace>` records
//!   interval{own_to, own_ka, adv, d}     every scheduling of the next announcement (observed through next_peers)
//!   hetero{timeouts, secs, removals}     heterogeneous meshes on a delivering network
//!   latejoin{...}                        a peer with a small timeout joins a node whose current interval is long
//!   silence{T, ts, last_refresh, removed_at, routes_gone, redialled}
//!   backoff{secs, dials, max_gap, tail_gap}   unreachable configured peer over 48 h
use super::node::*;
use super::util::*;
use crate::config::Config;
use crate::payload::Packet;
use crate::types::Mode;
use rand::Rng;
use serde_json::{json, Value};

pub const GRID: [u32; 9] = [0, 1, 59, 60, 119, 120, 121, 300, 65535];

fn cfg_with(timeout: u32, keepalive: Option<u32>) -> Config {
    let mut c = base_config(Mode::Router);
    c.peer_timeout = timeout;
    c.keepalive = keepalive;
    c
}

/// builds a node under panic capture (Config::get_keepalive runs inside GenericCloud::new)
fn try_add(sim: &mut Sim<Packet>, cfg: &Config) -> Result<usize, String> {
    guarded(|| sim.add_node(false, cfg))
}

/// node N (own settings) meets one peer that advertises `adv`; every change of N's next announcement time is recorded
fn interval_case(own_to: u32, own_ka: Option<u32>, advs: &[u32], stream: u64) -> Vec<Value> {
    let mut out = vec![];
    let base = json!({"op":"interval","own_to":own_to,"own_ka":own_ka.map(|k| k as i64).unwrap_or(-1),"advs":advs});
    let mut sim: Sim<Packet> = Sim::new(stream);
    sim.trace_sample(stream, 400, 60_000);
    let mk = |mut v: Value, res: &str, d: i64, adv_seen: Vec<u64>| {
        v["res"] = json!(res);
        v["d"] = json!(d);
        v["adv_seen"] = json!(adv_seen);
        v
    };
    if try_add(&mut sim, &cfg_with(own_to, own_ka)).is_err() {
        out.push(mk(base.clone(), "panic-config", 0, vec![]));
        return out;
    }
    for a in advs {
        // the peers only advertise their timeout; their own keepalive is fixed so that their configuration is valid
        if try_add(&mut sim, &cfg_with(*a, Some(10))).is_err() {
            out.push(mk(base.clone(), "panic-config-peer", 0, vec![]));
            return out;
        }
    }
    let n0 = sim.nodes[0].addr;
    for j in 1..sim.nodes.len() {
        sim.connect(j, n0);
    }
    sim.deliver_due();
    let mut last_np = sim.nodes[0].node.verif_next_peers();
    let mut seen = 0;
    for _ in 0..6 {
        sim.now += 1;
        crate::util::MockTimeSource::set_time(sim.now);
        sim.note_time();
        for i in 0..sim.nodes.len() {
            let r = sim.housekeep(i);
            if i == 0 {
                if r.panicked {
                    out.push(mk(base.clone(), "panic-housekeep", 0, vec![]));
                    return out;
                }
                let np = sim.nodes[0].node.verif_next_peers();
                if np != last_np {
                    last_np = np;
                    let adv_seen: Vec<u64> = sim.nodes[0].node.verif_peers().iter().map(|p| p.peer_timeout as u64).collect();
                    let d = np - sim.now;
                    out.push(mk(base.clone(), "ok", d.clamp(-1, 2_000_000_000), adv_seen));
                    seen += 1;
                }
            }
        }
        sim.deliver_due();
    }
    if seen == 0 {
        out.push(mk(base, "no-announcement", 0, vec![]));
    }
    out
}

fn count_removals(sim: &mut Sim<Packet>, secs: i64) -> (u64, Value, u64) {
    // a peer that is timed out is re-dialled at once and usually back before the tick is over, so removals are
    // counted by what they put on the wire: in a stable healthy mesh nobody ever starts a new handshake
    let n = sim.nodes.len();
    let mut removals = 0u64;
    let mut first = json!("none");
    let mut prev: Vec<Vec<u16>> = (0..n).map(|i| sim.shape(i).0).collect();
    sim.capture = true;
    let mut seen_pings: std::collections::HashSet<Vec<u8>> = Default::default();
    for _ in 0..secs {
        let mark = sim.wire.len();
        sim.tick();
        for d in sim.wire[mark..].iter() {
            if d.bytes.first() == Some(&0xff) && d.bytes.get(12) == Some(&1) && seen_pings.insert(d.bytes.clone()) {
                removals += 1;
                if first == json!("none") {
                    first = json!({"t": sim.now - T0, "at": d.from, "redials": d.to.port()});
                }
            }
        }
        sim.wire.clear();
        for i in 0..n {
            let cur = sim.shape(i).0;
            for p in &prev[i] {
                if !cur.contains(p) {
                    removals += 1;
                    if first == json!("none") {
                        first = json!({"t": sim.now - T0, "at": i + 1, "peer": p});
                    }
                }
            }
            prev[i] = cur;
        }
    }
    sim.capture = false;
    (removals, first, sim.total_panics())
}

fn hetero_case(timeouts: &[u32], secs: i64, stream: u64) -> Value {
    let mut sim: Sim<Packet> = Sim::new(stream);
    sim.trace_sample(stream, 400, 60_000);
    for t in timeouts {
        if try_add(&mut sim, &cfg_with(*t, None)).is_err() {
            return json!({"op":"hetero","timeouts":timeouts,"secs":secs,"res":"panic-config","removals":0,"first":"none","panics":1,"mesh":false});
        }
    }
    let n = timeouts.len();
    for i in 1..n {
        let a = sim.nodes[i - 1].addr;
        sim.connect(i, a);
    }
    sim.deliver_due();
    sim.run_for(3);
    let mesh0 = sim.full_mesh();
    let (removals, first, panics) = count_removals(&mut sim, secs);
    json!({"op":"hetero","timeouts":timeouts,"secs":secs,"res":"ok","removals":removals,"first":first,"panics":panics,"mesh":mesh0 && sim.full_mesh()})
}

/// two nodes; the second advertises a short timeout but announces only every `ka` seconds: the first one must keep it
/// (it applies its own timeout), and the second one is refreshed often enough by the first
fn hetero_ka_case(timeouts: &[u32], ka: u32, secs: i64, stream: u64) -> Value {
    let mut sim: Sim<Packet> = Sim::new(stream);
    sim.trace_sample(stream, 400, 60_000);
    sim.add_node(false, &cfg_with(timeouts[0], None));
    sim.add_node(false, &cfg_with(timeouts[1], Some(ka)));
    let a0 = sim.nodes[0].addr;
    sim.connect(1, a0);
    sim.deliver_due();
    sim.run_for(3);
    let mesh0 = sim.full_mesh();
    let (removals, first, panics) = count_removals(&mut sim, secs);
    json!({"op":"hetero","timeouts":timeouts,"ka":ka,"secs":secs,"res":"ok","removals":removals,"first":first,"panics":panics,"mesh":mesh0 && sim.full_mesh()})
}

/// a node whose current announcement interval is long gets a new peer that advertises a small timeout
fn latejoin_case(own_to: u32, late_to: u32, secs: i64, stream: u64) -> Value {
    let mut sim: Sim<Packet> = Sim::new(stream);
    sim.trace_sample(stream, 400, 60_000);
    for t in [own_to, own_to] {
        if try_add(&mut sim, &cfg_with(t, None)).is_err() {
            return json!({"op":"latejoin","own_to":own_to,"late_to":late_to,"secs":secs,"res":"panic-config","removals":0,"first":"none","panics":1});
        }
    }
    let a0 = sim.nodes[0].addr;
    sim.connect(1, a0);
    sim.deliver_due();
    sim.run_for(5);
    if try_add(&mut sim, &cfg_with(late_to, None)).is_err() {
        return json!({"op":"latejoin","own_to":own_to,"late_to":late_to,"secs":secs,"res":"panic-config","removals":0,"first":"none","panics":1});
    }
    sim.connect(2, a0);
    sim.deliver_due();
    sim.run_for(3);
    let (removals, first, panics) = count_removals(&mut sim, secs);
    json!({"op":"latejoin","own_to":own_to,"late_to":late_to,"secs":secs,"res":"ok","removals":removals,"first":first,"panics":panics})
}

/// everything node x (index 1) sends is dropped from second ts on; when does node 0 remove it?
/// The two nodes have different timeouts and x may announce rarely (explicit keepalive): node 0 must apply its OWN
/// timeout, counted from the last time an announcement of x actually refreshed the entry (observed as a change of the
/// entry's expiry, not computed from its value).
fn silence_case(timeout: u32, peer_timeout: u32, peer_ka: Option<u32>, ts: i64, stream: u64) -> Value {
    let mut sim: Sim<Packet> = Sim::new(stream);
    sim.trace_sample(stream, 400, 60_000);
    let mut c0 = cfg_with(timeout, None);
    c0.claims = vec!["10.1.0.0/16".into()];
    let mut c1 = cfg_with(peer_timeout, peer_ka);
    c1.claims = vec!["10.2.0.0/16".into()];
    sim.add_node(false, &c0);
    sim.add_node(false, &c1);
    let a0 = sim.nodes[0].addr;
    let a1 = sim.nodes[1].addr;
    sim.connect(1, a0);
    sim.deliver_due();
    let exp_of = |sim: &Sim<Packet>| sim.nodes[0].node.verif_peers().iter().find(|p| p.addr == a1).map(|p| p.timeout);
    let mut last_exp = exp_of(&sim);
    let mut last_refresh = 0i64;
    for _ in 0..ts {
        sim.tick();
        let e = exp_of(&sim);
        if e != last_exp {
            last_exp = e;
            last_refresh = sim.now - T0;
        }
    }
    let base = json!({"op":"silence","T":timeout,"peer_T":peer_timeout,"peer_ka":peer_ka.map(|k| k as i64).unwrap_or(-1),"ts":ts});
    let fin = |mut v: Value, res: &str, lr: i64, ra: i64, rg: bool, rd: bool| {
        v["res"] = json!(res);
        v["last_refresh"] = json!(lr);
        v["removed_at"] = json!(ra);
        v["routes_gone"] = json!(rg);
        v["redialled"] = json!(rd);
        v
    };
    if last_exp.is_none() {
        return fin(base, "not-connected", 0, 0, false, false);
    }
    sim.faults.silent.insert(2);
    let mut removed_at = -1i64;
    let mut routes_gone = false;
    let mut redialled = false;
    for _ in 0..(timeout.max(peer_timeout) as i64 + 10) {
        sim.tick();
        let (peers, pending) = sim.shape(0);
        if !peers.contains(&2) {
            removed_at = sim.now - T0;
            let d = sim.dump(0);
            routes_gone = d["claims"].as_array().unwrap().iter().all(|c| c["p"] != json!(2)) && d["cache"].as_array().unwrap().iter().all(|c| c["p"] != json!(2));
            redialled = pending.contains(&2);
            break;
        }
    }
    fin(base, "ok", last_refresh, removed_at, routes_gone, redialled)
}

/// a configured peer that never answers: times of fresh dial attempts (a retransmission repeats the same bytes)
fn backoff_case(secs: i64, stream: u64) -> Value {
    let mut sim: Sim<Packet> = Sim::new(stream);
    sim.trace_sample(stream, 400, 60_000);
    sim.add_node(false, &cfg_with(300, None));
    sim.add_reconnect(0, addr_of(50));
    let mut dials: Vec<i64> = vec![];
    let mut last_bytes: Vec<u8> = vec![];
    sim.capture = false;
    for _ in 0..secs {
        sim.now += 1;
        crate::util::MockTimeSource::set_time(sim.now);
        sim.note_time();
        let r = sim.housekeep(0);
        for d in &r.sent {
            if d.to == addr_of(50) && d.bytes.first() == Some(&0xff) && d.bytes != last_bytes {
                last_bytes = d.bytes.clone();
                dials.push(sim.now - T0);
            }
        }
    }
    let gaps: Vec<i64> = dials.windows(2).map(|w| w[1] - w[0]).collect();
    let max_gap = gaps.iter().copied().max().unwrap_or(0);
    let tail_gap = secs - dials.last().copied().unwrap_or(0);
    let nondecreasing = gaps.windows(2).all(|w| w[1] + 122 >= w[0]);
    json!({"op":"backoff","secs":secs,"dials":dials.len(),"max_gap":max_gap,"tail_gap":tail_gap,"first_gaps":gaps.iter().take(40).collect::<Vec<_>>(),
           "settling":nondecreasing,"panics":sim.total_panics()})
}

enum Job {
    Interval(u32, Option<u32>, Vec<u32>),
    Hetero(Vec<u32>, i64),
    LateJoin(u32, u32, i64),
    Silence(u32, u32, Option<u32>, i64),
    Backoff(i64),
    HeteroKa(Vec<u32>, u32, i64),
}

pub fn run(tier: &str, out_path: &str) -> Value {
    let quick = tier == "quick";
    let mut rng = rng(70);
    let mut jobs: Vec<Job> = vec![];
    // (a) interval: own settings from the grid x advertised values
    let adv_values: Vec<u32> = if quick {
        let mut v: Vec<u32> = (0..=300).collect();
        v.extend_from_slice(&[301, 599, 600, 601, 1000, 3600, 7200, 32767, 32768, 65534, 65535, 255, 256, 257, 511, 512, 1023, 1024]);
        v
    } else {
        (0..=65535).collect()
    };
    for own_to in GRID {
        for own_ka in [None, Some(0u32), Some(1), Some(59), Some(121), Some(65535)] {
            if quick && own_ka.is_some() && ![120u32, 300, 65535].contains(&own_to) {
                continue;
            }
            // thorough tier: every third advertised value without an own keepalive, every 31st with one (Interval.tla
            // covers all 65536 x the grid exhaustively at design level; one case costs about 40 ms of a real node pair)
            let step = if quick { 1 } else if own_ka.is_some() { 31 } else { 3 };
            for (k, a) in adv_values.iter().enumerate() {
                if k % step == 0 {
                    jobs.push(Job::Interval(own_to, own_ka, vec![*a]));
                }
            }
        }
    }
    for _ in 0..(if quick { 150 } else { 5000 }) {
        let own_to = GRID[rng.gen_range(0..GRID.len())];
        let n = rng.gen_range(2..=3);
        let advs: Vec<u32> = (0..n).map(|_| if rng.gen_bool(0.5) { GRID[rng.gen_range(0..GRID.len())] } else { rng.gen_range(0..700) }).collect();
        jobs.push(Job::Interval(own_to, None, advs));
    }
    // (b) heterogeneous meshes for 3 x the largest timeout (capped)
    let hg: Vec<u32> = vec![1, 59, 60, 119, 120, 121, 300, 1000, 65535];
    for _ in 0..(if quick { 14 } else { 120 }) {
        let ts: Vec<u32> = (0..3).map(|_| hg[rng.gen_range(0..hg.len())]).collect();
        let secs = (3 * *ts.iter().max().unwrap() as i64).min(if quick { 2500 } else { 12000 });
        jobs.push(Job::Hetero(ts, secs));
    }
    jobs.push(Job::Hetero(vec![65535, 65535, 121], if quick { 1500 } else { 20000 }));
    jobs.push(Job::Hetero(vec![120, 300, 65535], if quick { 1500 } else { 20000 }));
    // late joiner with a small timeout
    for (own, late) in [(65535u32, 121u32), (3000, 130), (300, 121), (65535, 300)] {
        jobs.push(Job::LateJoin(own, late, if quick { 800 } else { 6000 }));
    }
    // (c) silence injection at every second of a window
    for (t, pt, pka) in [(121u32, 121u32, None), (300, 300, None), (150, 400, None), (400, 130, None), (200, 20, Some(50u32)), (60, 600, Some(30))] {
        let win = if quick { 25 } else { 2 * t as i64 };
        for ts in 5..(5 + win) {
            jobs.push(Job::Silence(t, pt, pka, ts));
        }
    }
    // healthy peers that advertise a short timeout but announce rarely (explicit keepalive): never timed out by others
    for (a, b, ka) in [(600u32, 20u32, 100u32), (300, 30, 200), (1000, 5, 60)] {
        jobs.push(Job::HeteroKa(vec![a, b], ka, if quick { 700 } else { 3000 }));
    }
    // (d) back-off over 48 h
    jobs.push(Job::Backoff(if quick { 48 * 3600 } else { 96 * 3600 }));
    let results = parallel_map(&jobs, |i, j| match j {
        Job::Interval(a, b, c) => interval_case(*a, *b, c, 1000 + i as u64),
        Job::Hetero(ts, secs) => vec![hetero_case(ts, *secs, 2000 + i as u64)],
        Job::LateJoin(a, b, s) => vec![latejoin_case(*a, *b, *s, 3000 + i as u64)],
        Job::Silence(t, pt, pka, ts) => vec![silence_case(*t, *pt, *pka, *ts, 4000 + i as u64)],
        Job::HeteroKa(ts, ka, secs) => vec![hetero_ka_case(ts, *ka, *secs, 6000 + i as u64)],
        Job::Backoff(s) => vec![backoff_case(*s, 5000)],
    });
    let mut t = Trace::create(out_path);
    for rs in &results {
        for r in rs {
            t.ev(r.clone());
        }
    }
    let events = t.finish();
    let cloud = write_cloud_blocks(&format!("{}.cloud", out_path));
    json!({"runs": jobs.len(), "steps": events, "events": events, "cloud_events": cloud})
}
