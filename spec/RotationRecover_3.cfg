SPECIFICATION RSpec
CONSTANTS LossyMaxId = 2
          MaxNet = 2
          MaxRounds = 5
          RecoverRounds = 4
INVARIANT Recovers
INVARIANT Safe
CONSTRAINT Bound
VIEW View
CHECK_DEADLOCK FALSE
