---------------------------- MODULE Trace_NonceWindow ----------------------------
(* Trace validation for NonceWindow: every event recorded from the real CryptoCore pair must be a step of the
   specification's own action with the logged parameters, and the logged accept/reject decision must equal both
   the specification's decision (ImplAccept) and the history rule of C03 (PropAccept). *)
EXTENDS NonceWindow, Sequences, TLC, Json, IOUtils

Rec == ndJsonDeserialize(IOEnv.TRACE)
N == Len(Rec)
VARIABLE l
tvars == <<vars, l>>

ResetAll ==
  /\ gen' = [k \in Slots |-> 0] /\ cur' = 0
  /\ sent' = [k \in Slots |-> 0] /\ seen' = [k \in Slots |-> 0]
  /\ nextMin' = [k \in Slots |-> 0] /\ min' = [k \in Slots |-> 0]
  /\ epoch' = 0 /\ accLog' = {} /\ dgrams' = {} /\ last' = [op |-> "reset"]

TraceInit == Init /\ l = 1

Step(e) ==
  CASE e.op = "reset"    -> ResetAll
    [] e.op = "seal"     -> /\ Seal
                            /\ e.keyid = cur            \* key-id byte observed on the wire
                            /\ e.delta = 1              \* wire counter advanced by exactly one under this key
                            /\ e.ctr = sent[cur] + 1
    [] e.op = "deliver"  -> /\ Deliver(e.slot, e.gen, e.ctr)
                            /\ e.acc = ImplAccept(e.slot, e.gen, e.ctr)
                            /\ e.acc = PropAccept(e.slot, e.gen, e.ctr)
    [] e.op = "tampered" -> /\ DeliverTampered(e.slot, e.gen, e.ctr)
                            /\ e.acc = FALSE
    [] e.op = "tick"     -> Tick
    [] e.op = "rotate"   -> Rotate(e.slot, e.sending)
    [] e.op = "use"      -> Use(e.slot)
    [] e.op = "skip"     -> UNCHANGED vars

TraceNext == /\ l <= N /\ l' = l + 1 /\ Step(Rec[l])
TraceSpec == TraceInit /\ [][TraceNext]_tvars

Accepted == IF TLCGet("stats").diameter - 1 = N THEN TRUE
            ELSE Print(<<"REJECTED", TLCGet("stats").diameter, Rec[TLCGet("stats").diameter]>>, FALSE)
=============================================================================
