SPECIFICATION Spec
CONSTANTS KeyWidth = 32
          MaxZeros = 4
          Roles = {"priv", "privpub", "trusted", "sharedown"}
          Padded = FALSE
          Nodes = {1, 2}
          Passwords = {"p1", "p2", "p3"}
          KeyOf <- MCKeyOf
CHECK_DEADLOCK FALSE
INVARIANT UnpaddedRefusesLeadingZero
