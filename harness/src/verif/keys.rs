//! C18: generated and password-derived keys are always usable and deterministic.
//! `keys run <quick|thorough> <trace.ndjson>` records, on the real code,
//!   codec      to_base62 / from_base62 on every byte string of length <= 2 and random strings up to 64 bytes
//!   gen/print/configure/use/again/done   the life of one key pair (Keys.tla actions), with all data:
//!              seeds with every pattern of 0..4 leading zero bytes (and 0..2 leading zero bytes of the public key,
//!              found by search), password-derived pairs whose private or public key starts with a zero byte
//!              (found by a password search)
//!   lifecycle  the same as one compact event per (key, role): random seeds, genuine generate_keypair(None) output,
//!              dictionary passwords
//!   password   same password -> same pair / peers, other password -> no peers
//! "Use" is a real handshake (4 init messages + one data message) between the node configured from the printed
//! text and a partner that holds the counterpart.
use super::util::*;
use crate::crypto::{Algorithms, Config as CryptoConfig, Crypto, Ed25519PublicKey, MessageResult, PeerCrypto, VERIF_SPEEDS};
use crate::messages::NodeInfo;
use crate::types::NodeId;
use crate::util::{from_base62, to_base62, MsgBuffer};
use rand::{Rng, RngCore};
use ring::signature::{Ed25519KeyPair, KeyPair};
use serde_json::{json, Value};
use smallvec::smallvec;
use std::sync::Arc;

type Peer = PeerCrypto<NodeInfo>;

const ROLES: [&str; 4] = ["priv", "privpub", "trusted", "sharedown"];

fn chars(s: &str) -> Vec<String> {
    s.chars().map(|c| c.to_string()).collect()
}

fn node_id(n: u8) -> NodeId {
    let mut id = [0u8; 16];
    id[0] = n;
    id[15] = 0xA5;
    id
}

fn payload(n: u8) -> NodeInfo {
    NodeInfo { node_id: node_id(n), peers: smallvec![], claims: smallvec![], peer_timeout: None, addrs: smallvec![] }
}

fn algorithms() -> Algorithms {
    Algorithms {
        algorithm_speeds: smallvec![
            (&ring::aead::AES_128_GCM, 600.0),
            (&ring::aead::AES_256_GCM, 500.0),
            (&ring::aead::CHACHA20_POLY1305, 400.0)
        ],
        allow_unencrypted: false,
    }
}

fn leading_zeros(b: &[u8]) -> usize {
    b.iter().take_while(|x| **x == 0).count()
}

/// Partner built from raw key material (no text parsing involved).
fn raw_peer(n: u8, seed: &[u8; 32], trusted: &[u8; 32]) -> Peer {
    let kp = Ed25519KeyPair::from_seed_unchecked(seed).expect("seed");
    let t: Vec<Ed25519PublicKey> = vec![*trusted];
    PeerCrypto::new(node_id(n), payload(n), Arc::new(kp), t.into_boxed_slice().into(), algorithms())
}

fn public_of(seed: &[u8; 32]) -> [u8; 32] {
    let kp = Ed25519KeyPair::from_seed_unchecked(seed).expect("seed");
    let mut p = [0u8; 32];
    p.copy_from_slice(kp.public_key().as_ref());
    p
}

/// Crypto::new under panic capture: Ok(instance) / Err((kind, message)).
fn configure(n: u8, cfg: &CryptoConfig) -> Result<Crypto, (&'static str, String)> {
    match guarded(|| Crypto::new(node_id(n), cfg)) {
        Ok(Ok(c)) => Ok(c),
        Ok(Err(e)) => Err(("err", format!("{}", e))),
        Err(p) => Err(("panic", p)),
    }
}

/// The 4-message handshake of crypto/common.rs test `normal`, then one data message each way.
fn handshake(a: &mut Peer, b: &mut Peer) -> bool {
    let r = guarded(|| -> Result<bool, crate::error::Error> {
        let mut msg = MsgBuffer::new(16);
        a.initialize(&mut msg)?;
        if msg.is_empty() {
            return Ok(false);
        }
        if b.handle_message(&mut msg)? != MessageResult::Reply {
            return Ok(false);
        }
        match a.handle_message(&mut msg)? {
            MessageResult::InitializedWithReply(_) => (),
            _ => return Ok(false),
        }
        match b.handle_message(&mut msg)? {
            MessageResult::InitializedWithReply(_) => (),
            _ => return Ok(false),
        }
        if a.handle_message(&mut msg)? != MessageResult::None {
            return Ok(false);
        }
        for dir in 0..2 {
            let mut buf = MsgBuffer::new(64);
            buf.clone_from(&[1, 2, 3, 4, 5, 6, 7, 8, 9, 10]);
            let (s, r): (&mut Peer, &mut Peer) = if dir == 0 { (&mut *a, &mut *b) } else { (&mut *b, &mut *a) };
            s.send_message(1, &mut buf)?;
            if r.handle_message(&mut buf)? != MessageResult::Message(1) {
                return Ok(false);
            }
            if buf.message() != [1, 2, 3, 4, 5, 6, 7, 8, 9, 10] {
                return Ok(false);
            }
        }
        Ok(true)
    });
    matches!(r, Ok(Ok(true)))
}

/// A reference identity whose seed and public key have no leading zero byte (so that its own text form is not the
/// subject of the experiment).
struct RefKey {
    seed: [u8; 32],
    public: [u8; 32],
}

fn ref_key(rng: &mut impl Rng) -> RefKey {
    loop {
        let mut seed = [0u8; 32];
        rng.fill_bytes(&mut seed);
        let public = public_of(&seed);
        if seed[0] != 0 && public[0] != 0 {
            return RefKey { seed, public };
        }
    }
}

/// Who the partner of the node under test is.
enum Partner<'a> {
    /// raw key material: the generated seed / public key are known as bytes
    Raw { seed: &'a [u8; 32], public: &'a [u8; 32] },
    /// a node configured with the password the pair was derived from
    Password(&'a str),
    /// only the printed text exists (genuine generate_keypair(None) output): a second node configured from the text
    TextOnly,
}

struct RoleOutcome {
    res: &'static str,
    err: String,
    hs: bool,
    pfp: &'static str,
}

/// Configure the printed pair in `role`, then use it.
fn run_role(role: &str, priv_text: &str, pub_text: &str, partner: &Partner, r: &RefKey) -> RoleOutcome {
    let ref_pub_text = to_base62(&r.public);
    let ref_priv_text = to_base62(&r.seed);
    let mut pfp = "na";
    // node under test
    let cfg = match role {
        "priv" => {
            pfp = match guarded(|| Crypto::public_key_from_private_key(priv_text)) {
                Ok(Ok(t)) => {
                    if t == pub_text {
                        "ok"
                    } else {
                        "mismatch"
                    }
                }
                Ok(Err(_)) => "err",
                Err(_) => "panic",
            };
            CryptoConfig {
                private_key: Some(priv_text.to_string()),
                trusted_keys: match partner {
                    Partner::Raw { .. } => vec![ref_pub_text.clone()],
                    _ => vec![],
                },
                ..Default::default()
            }
        }
        "privpub" => CryptoConfig {
            private_key: Some(priv_text.to_string()),
            public_key: Some(pub_text.to_string()),
            trusted_keys: match partner {
                Partner::Raw { .. } => vec![ref_pub_text.clone()],
                _ => vec![],
            },
            ..Default::default()
        },
        // two nodes share the generated pair and each lists the printed public key - its own - next to another trusted key
        "sharedown" => CryptoConfig {
            private_key: Some(priv_text.to_string()),
            trusted_keys: if priv_text.len() % 2 == 0 { vec![ref_pub_text.clone(), pub_text.to_string()] } else { vec![pub_text.to_string(), ref_pub_text.clone()] },
            ..Default::default()
        },
        _ => CryptoConfig {
            private_key: Some(ref_priv_text.clone()),
            trusted_keys: vec![pub_text.to_string()],
            ..Default::default()
        },
    };
    let under_test = match configure(1, &cfg) {
        Ok(c) => c,
        Err((kind, msg)) => return RoleOutcome { res: kind, err: msg, hs: false, pfp },
    };
    let mut a = under_test.peer_instance(payload(1));
    // partner holding the counterpart
    let mut b: Peer = match (partner, role) {
        (_, "sharedown") => {
            match configure(2, &CryptoConfig { private_key: Some(priv_text.to_string()), trusted_keys: vec![pub_text.to_string(), ref_pub_text.clone()], ..Default::default() }) {
                Ok(c) => c.peer_instance(payload(2)),
                Err((_, msg)) => return RoleOutcome { res: "ok", err: format!("partner: {}", msg), hs: false, pfp },
            }
        }
        (Partner::Raw { public, .. }, "priv") | (Partner::Raw { public, .. }, "privpub") => raw_peer(2, &r.seed, public),
        (Partner::Raw { seed, .. }, _) => raw_peer(2, seed, &r.public),
        (Partner::Password(pw), "priv") | (Partner::Password(pw), "privpub") => {
            // default trust of both: own public key = the derived one
            match configure(2, &CryptoConfig { password: Some(pw.to_string()), ..Default::default() }) {
                Ok(c) => c.peer_instance(payload(2)),
                Err((_, msg)) => return RoleOutcome { res: "ok", err: format!("partner: {}", msg), hs: false, pfp },
            }
        }
        (Partner::Password(pw), _) => {
            match configure(2, &CryptoConfig { password: Some(pw.to_string()), trusted_keys: vec![ref_pub_text.clone()], ..Default::default() }) {
                Ok(c) => c.peer_instance(payload(2)),
                Err((_, msg)) => return RoleOutcome { res: "ok", err: format!("partner: {}", msg), hs: false, pfp },
            }
        }
        (Partner::TextOnly, "priv") | (Partner::TextOnly, "privpub") => {
            // a second node that is given the same private key text trusts (by default) the same public key
            match configure(2, &CryptoConfig { private_key: Some(priv_text.to_string()), ..Default::default() }) {
                Ok(c) => c.peer_instance(payload(2)),
                Err((_, msg)) => return RoleOutcome { res: "ok", err: format!("partner: {}", msg), hs: false, pfp },
            }
        }
        (Partner::TextOnly, _) => {
            match configure(2, &CryptoConfig { private_key: Some(priv_text.to_string()), trusted_keys: vec![ref_pub_text.clone()], ..Default::default() }) {
                Ok(c) => c.peer_instance(payload(2)),
                // the counterpart of the trusted key exists as text only; if that text is refused (reported in role
                // "priv" of the same pair) this role cannot be exercised
                Err((_, msg)) => return RoleOutcome { res: "skip", err: format!("partner: {}", msg), hs: false, pfp },
            }
        }
    };
    // alternate the initiating side
    let hs = if priv_text.len() % 2 == 0 { handshake(&mut a, &mut b) } else { handshake(&mut b, &mut a) };
    RoleOutcome { res: "ok", err: String::new(), hs, pfp }
}

/// Seed with exactly `kz` leading zero bytes whose public key has exactly `pz` leading zero bytes.
fn find_seed(rng: &mut impl Rng, kz: usize, pz: usize) -> ([u8; 32], [u8; 32], u64) {
    let mut tries = 0u64;
    loop {
        tries += 1;
        let mut seed = [0u8; 32];
        rng.fill_bytes(&mut seed[kz..]);
        if seed[kz] == 0 {
            seed[kz] = 1 + (tries % 255) as u8;
        }
        let public = public_of(&seed);
        if leading_zeros(&public) == pz {
            return (seed, public, tries);
        }
    }
}

fn compact_event(src: &str, kz: usize, pz: usize, role: &str, o: &RoleOutcome, priv_text: &str) -> Value {
    json!({"op":"lifecycle","src":src,"seed_zeros":kz,"pub_zeros":pz,"role":role,"res":o.res,"hs":o.hs,"pfp":o.pfp,
        "priv": if o.res == "ok" && o.hs && o.pfp != "err" && o.pfp != "mismatch" { String::new() } else { priv_text.to_string() }})
}

struct Ctx {
    t: Trace,
    keys: u64,
    lifecycles: u64,
    handshakes: u64,
    rejected: u64,
    skipped: u64,
}

impl Ctx {
    /// One key pair through all roles as separate events with all data.
    fn full_key(&mut self, src: &str, seed: Option<&[u8; 32]>, public: Option<&[u8; 32]>, kz: usize, pz: usize, priv_text: &str, pub_text: &str, partner: &Partner, r: &RefKey) {
        self.keys += 1;
        let full = seed.is_some();
        self.t.ev(json!({"op":"gen","src":src,"seed_zeros":kz,"pub_zeros":pz,"full":full,
            "seed": seed.map(|s| s.to_vec()).unwrap_or_default(), "pub": public.map(|s| s.to_vec()).unwrap_or_default()}));
        self.t.ev(json!({"op":"print","full":full,"priv_text":chars(priv_text),"pub_text":chars(pub_text)}));
        for (i, role) in ROLES.iter().enumerate() {
            let o = run_role(role, priv_text, pub_text, partner, r);
            self.lifecycles += 1;
            self.handshakes += o.hs as u64;
            self.rejected += (o.res != "ok") as u64;
            self.t.ev(json!({"op":"configure","role":role,"res":o.res,"err":o.err}));
            self.t.ev(json!({"op":"use","hs":o.hs,"pfp":o.pfp}));
            self.t.ev(json!({"op": if i + 1 < ROLES.len() { "again" } else { "done" }}));
        }
    }

    /// The same as one compact event per role.
    fn compact_key(&mut self, src: &str, kz: usize, pz: usize, priv_text: &str, pub_text: &str, partner: &Partner, r: &RefKey) {
        self.keys += 1;
        for role in ROLES.iter() {
            let o = run_role(role, priv_text, pub_text, partner, r);
            if o.res == "skip" {
                self.skipped += 1;
                continue;
            }
            self.lifecycles += 1;
            self.handshakes += o.hs as u64;
            self.rejected += (o.res != "ok") as u64;
            self.t.ev(compact_event(src, kz, pz, role, &o, priv_text));
        }
    }
}

fn dictionary() -> Vec<String> {
    let mut d: Vec<String> = vec![
        "", "a", "test", "password", "Password", "password ", " password", "pass word", "correct horse battery staple", "0", "00", "\u{0}",
        "\n", "\t", "pässwörd", "пароль", "密码", "パスワード", "🔑", "🔑🔑", "e\u{301}", "\u{e9}", "ＡＢＣ", "null", "None", "~!@#$%^&*()_+",
        "\"quoted\"", "'single'", "\\backslash", "a\u{0}b",
    ]
    .into_iter()
    .map(|s| s.to_string())
    .collect();
    d.push("x".repeat(1024));
    d.push("é".repeat(512));
    d.push((0..1024).map(|i| char::from(b'a' + (i % 26) as u8)).collect());
    d.push("x".repeat(1023));
    d.push("x".repeat(64));
    d.push("x".repeat(65));
    d
}

pub fn run(args: &[String]) -> Value {
    let a = |i: usize| args.get(i).map(|s| s.as_str()).unwrap_or("");
    let quick = a(1) != "thorough";
    match a(0) {
        "codec" => run_codec(quick, a(2)),
        "life" => run_life(quick, a(2)),
        _ => json!({"error": "usage: keys <codec|life> <quick|thorough> <trace.ndjson>"}),
    }
}

fn run_codec(quick: bool, out: &str) -> Value {
    let mut t = Trace::create(out);
    let mut rng = rng(180);
    let mut codec = 0u64;
    let mut lossy = 0u64;
    let mut codec_ev = |t: &mut Trace, bytes: &[u8]| {
        let text = guarded(|| to_base62(bytes));
        match text {
            Ok(text) => match guarded(|| from_base62(&text)) {
                Ok(Ok(back)) => {
                    lossy += (back != bytes) as u64;
                    t.ev(json!({"op":"codec","bytes":bytes,"text":chars(&text),"back":back,"res":"ok"}))
                }
                Ok(Err(ch)) => t.ev(json!({"op":"codec","bytes":bytes,"text":chars(&text),"back":[],"res":"err","why":ch.to_string()})),
                Err(p) => t.ev(json!({"op":"codec","bytes":bytes,"text":chars(&text),"back":[],"res":"panic","why":p})),
            },
            Err(p) => t.ev(json!({"op":"codec","bytes":bytes,"text":[],"back":[],"res":"panic","why":p})),
        }
    };
    codec_ev(&mut t, &[]);
    codec += 1;
    for x in 0..=255u8 {
        codec_ev(&mut t, &[x]);
        codec += 1;
    }
    for x in 0..=255u8 {
        for y in 0..=255u8 {
            codec_ev(&mut t, &[x, y]);
            codec += 1;
        }
    }
    let nlong = if quick { 150 } else { 2000 };
    for i in 0..nlong {
        let len = if i < 62 { 3 + i } else { rng.gen_range(3..=64) };
        let mut b = vec![0u8; len];
        rng.fill_bytes(&mut b);
        // leading zero bytes, all-ones, single bits
        match i % 6 {
            1 => b[0] = 0,
            2 => {
                let z = rng.gen_range(1..=len.min(5));
                for x in b.iter_mut().take(z) {
                    *x = 0
                }
            }
            3 if i % 12 == 3 => b.iter_mut().for_each(|x| *x = 0xff),
            4 if i % 24 == 4 => {
                b.iter_mut().for_each(|x| *x = 0);
                let l = b.len();
                b[l - 1] = 1;
            }
            _ => (),
        }
        codec_ev(&mut t, &b);
        codec += 1;
    }
    let events = t.finish();
    json!({"runs": codec, "steps": codec, "events": events, "codec": codec, "decoded_shorter_than_input": lossy})
}

fn run_life(quick: bool, out: &str) -> Value {
    VERIF_SPEEDS.with(|s| *s.borrow_mut() = Some([600.0, 500.0, 400.0]));
    let mut c = Ctx { t: Trace::create(out), keys: 0, lifecycles: 0, handshakes: 0, rejected: 0, skipped: 0 };
    let mut rng = rng(18);
    let r = ref_key(&mut rng);
    let t0 = std::time::Instant::now();

    // ---- (B) every pattern of leading zero bytes, all data in the trace
    let max_pz_all = 1usize;
    let samples = if quick { 2 } else { 4 };
    let mut search_tries = 0u64;
    for kz in 0..=4usize {
        for pz in 0..=2usize {
            if pz > max_pz_all && quick && kz != 0 {
                continue;
            }
            let n = if pz == 2 { 1 } else { samples };
            for _ in 0..n {
                let (seed, public, tries) = find_seed(&mut rng, kz, pz);
                search_tries += tries;
                let (pt, qt) = (to_base62(&seed), to_base62(&public));
                c.full_key("seed", Some(&seed), Some(&public), kz, pz, &pt, &qt, &Partner::Raw { seed: &seed, public: &public }, &r);
            }
        }
    }
    // all-zero seed and 0x00..01 (extreme values of the number)
    for last in [0u8, 1u8] {
        let mut seed = [0u8; 32];
        seed[31] = last;
        let public = public_of(&seed);
        let (pt, qt) = (to_base62(&seed), to_base62(&public));
        c.full_key("seed", Some(&seed), Some(&public), leading_zeros(&seed), leading_zeros(&public), &pt, &qt, &Partner::Raw { seed: &seed, public: &public }, &r);
    }

    eprintln!("[keys] B done {:?}", t0.elapsed());
    // ---- (B2) genuine password-derived pairs with a leading zero byte (password search); classes read off the text
    let budget = if quick { 1500 } else { 12000 };
    let want = if quick { 2 } else { 8 };
    let (mut found_priv, mut found_pub, mut derivations) = (0, 0, 0u64);
    let tag: u32 = rng.gen();
    for i in 0..budget {
        if found_priv >= want && found_pub >= want {
            break;
        }
        let pw = format!("search-{:08x}-{}", tag, i);
        let (pt, qt) = Crypto::generate_keypair(Some(&pw));
        derivations += 1;
        let kz = 32usize.saturating_sub(from_base62(&pt).map(|v| v.len()).unwrap_or(32));
        let pz = 32usize.saturating_sub(from_base62(&qt).map(|v| v.len()).unwrap_or(32));
        if (kz > 0 && found_priv < want) || (pz > 0 && found_pub < want) {
            found_priv += (kz > 0) as usize;
            found_pub += (pz > 0) as usize;
            c.full_key("password", None, None, kz, pz, &pt, &qt, &Partner::Password(&pw), &r);
        }
    }

    eprintln!("[keys] B2 done {:?}", t0.elapsed());
    // ---- (C) compact: random seeds, genuine generate_keypair(None), dictionary passwords
    let nrand: usize = if quick { 2500 } else { 100000 };
    let nthreads = 8usize;
    let (rseed, rpub) = (r.seed, r.public);
    let handles: Vec<_> = (0..nthreads)
        .map(|ti| {
            std::thread::spawn(move || {
                VERIF_SPEEDS.with(|s| *s.borrow_mut() = Some([600.0, 500.0, 400.0]));
                let mut rng = super::util::rng(1800 + ti as u64);
                let r = RefKey { seed: rseed, public: rpub };
                let mut evs: Vec<Value> = vec![];
                let (mut hs, mut rej) = (0u64, 0u64);
                let n = nrand / nthreads + if ti < nrand % nthreads { 1 } else { 0 };
                for _ in 0..n {
                    let mut seed = [0u8; 32];
                    rng.fill_bytes(&mut seed);
                    let public = public_of(&seed);
                    let (pt, qt) = (to_base62(&seed), to_base62(&public));
                    for role in ROLES.iter() {
                        let o = run_role(role, &pt, &qt, &Partner::Raw { seed: &seed, public: &public }, &r);
                        hs += o.hs as u64;
                        rej += (o.res != "ok") as u64;
                        evs.push(compact_event("random", leading_zeros(&seed), leading_zeros(&public), role, &o, &pt));
                    }
                }
                (evs, n as u64, hs, rej)
            })
        })
        .collect();
    for h in handles {
        let (evs, n, hs, rej) = h.join().expect("worker thread");
        c.keys += n;
        c.lifecycles += evs.len() as u64;
        c.handshakes += hs;
        c.rejected += rej;
        for e in evs {
            c.t.ev(e);
        }
    }
    eprintln!("[keys] C random done {:?}", t0.elapsed());
    let ngen = if quick { 400 } else { 4000 };
    for _ in 0..ngen {
        let (pt, qt) = Crypto::generate_keypair(None);
        let kz = 32usize.saturating_sub(from_base62(&pt).map(|v| v.len()).unwrap_or(32));
        let pz = 32usize.saturating_sub(from_base62(&qt).map(|v| v.len()).unwrap_or(32));
        c.compact_key("genkey", kz, pz, &pt, &qt, &Partner::TextOnly, &r);
    }
    let dict = dictionary();
    for pw in &dict {
        let (pt, qt) = Crypto::generate_keypair(Some(pw));
        let kz = 32usize.saturating_sub(from_base62(&pt).map(|v| v.len()).unwrap_or(32));
        let pz = 32usize.saturating_sub(from_base62(&qt).map(|v| v.len()).unwrap_or(32));
        c.compact_key("password", kz, pz, &pt, &qt, &Partner::Password(pw), &r);
    }

    eprintln!("[keys] C done {:?}", t0.elapsed());
    // ---- (D) passwords: derived twice, two node instances, another password
    let mut pw_events = 0u64;
    for (i, pw) in dict.iter().enumerate() {
        let j = (i + 1 + (i % 3)) % dict.len();
        let other = &dict[j];
        let k1 = guarded(|| Crypto::generate_keypair(Some(pw)));
        let k2 = guarded(|| Crypto::generate_keypair(Some(pw)));
        let same_twice = matches!((&k1, &k2), (Ok(a), Ok(b)) if a == b);
        let mk = |n: u8, p: &str| configure(n, &CryptoConfig { password: Some(p.to_string()), ..Default::default() });
        let (n1, n2, n3) = (mk(1, pw), mk(2, pw), mk(3, other));
        let res = if n1.is_ok() && n2.is_ok() && n3.is_ok() { "ok" } else { "err" };
        let (mut peers, mut other_peers, mut other_peers_rev) = (false, false, false);
        if let (Ok(n1), Ok(n2), Ok(n3)) = (&n1, &n2, &n3) {
            peers = handshake(&mut n1.peer_instance(payload(1)), &mut n2.peer_instance(payload(2)))
                && handshake(&mut n2.peer_instance(payload(2)), &mut n1.peer_instance(payload(1)));
            other_peers = handshake(&mut n1.peer_instance(payload(1)), &mut n3.peer_instance(payload(3)));
            other_peers_rev = handshake(&mut n3.peer_instance(payload(3)), &mut n1.peer_instance(payload(1)));
        }
        c.t.ev(json!({"op":"password","pw_id":i,"other_id":j,"pw_len":pw.len(),"res":res,"same_twice":same_twice,"peers":peers,
            "other_pw_peers": other_peers || other_peers_rev}));
        pw_events += 1;
    }
    let (keys, lifecycles, handshakes, rejected, skipped) = (c.keys, c.lifecycles, c.handshakes, c.rejected, c.skipped);
    let events = c.t.finish();
    json!({"runs": keys, "steps": lifecycles + pw_events, "events": events, "keys": keys, "lifecycles": lifecycles,
           "handshakes_ok": handshakes, "configure_rejected": rejected, "roles_skipped_partner_unconfigurable": skipped, "passwords": pw_events, "password_search_derivations": derivations,
           "seed_search_tries": search_tries})
}
