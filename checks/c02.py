"""C02 - payload travels sealed: confidential, tamper-evident, delivered byte-identical.

Object level (this file, `object_level`):
Design (TLC): Envelope.tla - a 3-node mesh with three connections, key slots, rotation, unencrypted sessions; the
symbolic AEAD mechanism (key found under the key id, nonce rebuilt from the wire counter and the half opposite to the
receiver's own) is checked against the rule of the property (a presented datagram opens iff unaltered, sealed for this
connection by the other end, naming a slot that holds its key) for every datagram presented intact / altered in each
tamper class / reflected / on a foreign connection to every end (MechanismMeetsRule), plus NothingDeliveredFromBad,
DeliveredIdentical, PendingOpens, WireHidesCleartext.  Two variants must be REFUTED (no forced nonce half; key id
reduced modulo the number of slots).
Impl -> spec: the driver runs real CryptoCore pairs (three ciphers, payload lengths 0..=300 all + sampled / all up to
9000, buffer offsets, EVERY bit and EVERY truncation length of sealed datagrams, reflection) and real PeerCrypto
connections after real handshakes (every negotiated combination incl. unencrypted, message types 0/1/2/255, encoded
NodeInfo, a 3-node mesh with every ordered pair of connections for cross-connection injection, cleartext search);
TLC judges every recorded event with Envelope!Open (Trace_Envelope).

A node-level part (wire capture of whole node runs, interface queue) can be appended in `run`."""
import json
import os
import vplib as V
from checks import cloudcommon
from checks.c17 import bad_lines, parallel, selftest, Findings, JVM, limited, pick_lines

PID = "C02"
TSPEC, TCFG = "Trace_Envelope.tla", "Trace_Envelope.cfg"


# ------------------------------------------------------------------ labels for unexplained events (no judgement)

def classify(e):
    """list of (signature, description) for an event TLC could not explain"""
    op = e.get("op")
    res = []
    if op == "family":
        cls = e["class"]
        opened = [b for b in e["bad"] if b["res"] == "opened"]
        panics = [b for b in e["bad"] if b["res"] == "panic"]
        if cls == "bitflip":
            f = e["field"]
            for kind, lst in (("opened", opened), ("panic", panics)):
                if not lst:
                    continue
                if f == "keyid":
                    hi = [b for b in lst if b["bit"] >= 2]
                    lo = [b for b in lst if b["bit"] < 2]
                    if hi:
                        res.append(("envelope|bitflip|keyid-high-bits|" + kind,
                                    "a sealed datagram with one of bits 2..7 of the key-id byte flipped is %s" % (
                                        "opened and delivered (the key id is reduced modulo 4 and is not authenticated)" if kind == "opened" else "answered with a panic")))
                    if lo:
                        res.append(("envelope|bitflip|keyid-low-bits|" + kind, "a sealed datagram whose key id names another slot is " + kind))
                else:
                    res.append(("envelope|bitflip|%s|%s" % (f, kind), "a sealed datagram with one bit of the %s flipped is %s" % (
                        {"ctr": "counter", "ct": "ciphertext", "tag": "tag"}[f], "opened" if kind == "opened" else "answered with a panic")))
        elif cls == "truncate":
            if panics:
                short = [b for b in panics if b["cut"] < 24]
                if short:
                    res.append(("envelope|truncate|len<24|panic", "a datagram cut to fewer than 24 bytes (header + tag) panics the receiver instead of being dropped: %s" % short[0].get("msg", "")))
                if len(short) < len(panics):
                    res.append(("envelope|truncate|len>=24|panic", "a truncated datagram panics the receiver"))
            if opened:
                res.append(("envelope|truncate|opened", "a truncated datagram is opened"))
        else:
            if opened:
                res.append(("envelope|%s|opened" % cls, {"reflect": "a datagram reflected to its own sender is opened",
                                                           "cross": "a datagram sealed for another connection is opened",
                                                           "forged": "a datagram sealed by an outsider under a key anybody can know (constant pattern) is opened: %s" % json.dumps(opened[0])}.get(cls, cls)))
            if panics:
                res.append(("envelope|%s|panic" % cls, "a %s datagram panics the receiver" % cls))
        if not res and e["members"] == 0:
            res.append(("envelope|%s|nothing-sealed" % cls, "sealing a payload of %d bytes produced an empty datagram" % e["len"]))
        if not res:
            res.append(("envelope|%s|counts" % cls, "family counters not explained (members %s, opened %s, panics %s)" % (e["members"], e["opened"], e["panics"])))
    elif op == "slots":
        res.append(("envelope|slots|shared-or-missing-key", "the key slots of the ends do not hold what Envelope!KeyAt says: a key is shared with an end of "
                    "another connection / an unused slot holds material somebody else holds too, or the session key is not in slot 0 of both ends"))
    elif op == "roundtrip" and e.get("level") == "core-after-tamper":
        res.append(("envelope|after-tamper|ticks=%s|%s" % ("0" if e.get("ticks", 0) == 0 else ">0", {"ok": "bytes-differ", "err": "rejected", "panic": "panic"}.get(e["res"], e["res"])),
                    "after altered copies of a datagram were (rightly) dropped, a genuine datagram of the same sender is no longer delivered "
                    "(%d housekeeping ticks later): a rejected datagram left something behind" % e.get("ticks", 0)))
    elif op == "roundtrip":
        where = ("plain-session|" if e["plain"] else "") + ("len=0" if e["len"] == 0 else "len>0")
        what = {"ok": "bytes-differ", "err": "rejected", "panic": "panic"}.get(e["res"], e["res"])
        res.append(("envelope|roundtrip|%s|%s" % (where, what),
                    "an intact datagram presented to its rightful receiver is not delivered byte-identical (%s, level %s, type %s)" % (what, e["level"], e["type"])))
    elif op == "cleartext":
        res.append(("envelope|cleartext|%s|found" % e["what"], "an 8-byte window of the cleartext (%s) occurs in the sealed datagram" % e["what"]))
    elif op == "session":
        res.append(("envelope|session|%s" % ("plain-without-consent" if e["plain"] else "ends-differ"),
                    "session %s: unencrypted without both ends enabling it / ends disagree" % e["name"]))
    else:
        res.append(("envelope|%s|unexplained" % op, "event not explained by the specification"))
    return res


def shape_of(e):
    return (tuple(sorted(e["conn"])), e["from"], tuple(sorted(e["on"])), e["at"])


def object_level(tier, out):
    """design runs + driver + trace validation of the object level; registers violations in `out`, returns coverage"""
    wd = V.workdir(PID)
    quick = tier == "quick"
    V.build_harness()
    tp = os.path.join(wd, "trace.ndjson")

    def impl():
        s = V.harness_json(["envelope", "run", tier, tp], timeout=3000)
        v = limited(V.tlc_trace)(TSPEC, TCFG, PID, tp, s["events"], sub="trace-object", xmx="6g", extra_env=JVM)
        return s, bad_lines(v)

    cfg = "MC_Envelope.cfg" if quick else "MC_Envelope_thorough.cfg"
    r = parallel({
        "design": lambda: limited(V.tlc_design)("MC_Envelope.tla", cfg, PID, workers=8, timeout=1500),
        "nohalf": lambda: limited(V.tlc_design)("MC_Envelope.tla", "MC_Envelope_nohalf.cfg", PID, workers=1, timeout=600, env=JVM),
        "keyidmod": lambda: limited(V.tlc_design)("MC_Envelope.tla", "MC_Envelope_keyidmod.cfg", PID, workers=1, timeout=600, env=JVM),
        "impl": impl,
    })
    d = r["design"]
    if d.invariant_violated or d.property_violated:
        out.violation("design|" + ",".join(d.invariant_violated or ["property"]), "Envelope.tla violates its own property", {"tlc": d.out[-3000:]})
    for k, what in (("nohalf", "without the forced nonce half"), ("keyidmod", "with the key id reduced modulo the number of slots")):
        if "MechanismMeetsRule" not in r[k].invariant_violated:
            V.selftest_fail(PID, "the mechanism variant %s was not refuted by TLC - the envelope model lost its teeth" % what)
    s, bl = r["impl"]
    # spec -> impl: every way an unaltered datagram can arrive in the 3-node mesh was exercised on the real code
    shapes = {(tuple(sorted(x[0])), x[1], tuple(sorted(x[2])), x[3]) for x in V.tlc_lines(d.out, "SHAPE")}
    if len(shapes) != 36:
        raise V.ToolError("expected 36 arrival shapes from MC_Envelope, got %d" % len(shapes))
    seen_shapes, classes, distinct = set(), {}, {}
    evs = V.read_ndjson(tp)
    for e in evs:
        if e["op"] == "session":
            continue
        if e["op"] == "slots":
            classes["slots/" + e["level"]] = classes.get("slots/" + e["level"], 0) + len(e["entries"])
            continue
        if e.get("level") == "mesh" and e.get("class") != "forged":
            seen_shapes.add(shape_of(e))
        k = (e["op"], e.get("level"), e.get("class", ""), e.get("field", ""))
        n = e["members"] if e["op"] == "family" else e["windows"] if e["op"] == "cleartext" else 1
        classes["/".join(x for x in k if x)] = classes.get("/".join(x for x in k if x), 0) + n
        distinct[(k, e["cipher"], e.get("len"), e.get("type"), e.get("offset"), e.get("roffset"), shape_of(e) if "conn" in e else None,
                  e.get("what"))] = e["members"] if e["op"] == "family" else 1
    if not shapes <= seen_shapes and not s["setup_failures"]:
        raise V.ToolError("the driver did not exercise these arrival shapes of MC_Envelope: %s" % sorted(shapes - seen_shapes)[:5])
    distinct_n = sum(distinct.values())
    fnd = Findings()
    for ln, e in sorted(pick_lines(tp, bl).items()):
        e["_trace"] = "%s:%d" % (os.path.basename(tp), ln)
        for sig, what in classify(e):
            fnd.add(sig, what, e)
    fnd.report(out)
    if s["setup_failures"] and not out.violations:
        # connections that do not come up are the handshake checks' subject; without them and without any finding of
        # its own this run has no verdict
        raise V.ToolError("driver could not set up its sessions: %s" % s["setup_failures"][:3])
    # binding self-test on events the main run accepted
    skip = set(bl)
    acc = [e for i, e in enumerate(evs, 1) if i not in skip]
    sample = [e for e in acc if e["op"] != "roundtrip"][::4] + [e for e in acc if e["op"] == "roundtrip"][::60]
    stp = os.path.join(wd, "trace_selftest_src.ndjson")
    V.write_ndjson(stp, sample)
    st = selftest(PID, TSPEC, TCFG, [("sample", stp)], {}, [
        ("roundtrip: delivered bytes differ", lambda e: e["op"] == "roundtrip" and e["same"], lambda e: e.__setitem__("same", False)),
        ("roundtrip: rejected", lambda e: e["op"] == "roundtrip" and e["level"] == "mesh", lambda e: e.update({"same": False, "res": "err"})),
        ("bitflip family: one member opened", lambda e: e["op"] == "family" and e["class"] == "bitflip" and e["field"] == "tag", lambda e: e.__setitem__("opened", 1)),
        ("truncate family: one member panicked", lambda e: e["op"] == "family" and e["class"] == "truncate", lambda e: e.__setitem__("panics", 1)),
        ("reflect family: opened", lambda e: e["op"] == "family" and e["class"] == "reflect", lambda e: e.__setitem__("opened", e["members"])),
        ("cross family: one member opened", lambda e: e["op"] == "family" and e["class"] == "cross", lambda e: e.__setitem__("opened", 1)),
        ("cleartext found on an encrypted session", lambda e: e["op"] == "cleartext" and not e["plain"], lambda e: e.__setitem__("found", True)),
        ("session unencrypted without consent", lambda e: e["op"] == "session" and not e["want_plain"], lambda e: e.__setitem__("plain", True)),
    ], wd, per_source=100000, allow_vacuous=bool(out.violations))
    samples = [e for e in evs if e["op"] == "family" and e["class"] == "cross"][:1] + \
              [e for e in evs if e["op"] == "family" and e["class"] == "bitflip" and e["field"] == "keyid"][:1] + \
              [e for e in evs if e["op"] == "roundtrip" and e["level"] == "peer-nodeinfo"][:1] + \
              [e for e in evs if e["op"] == "cleartext" and e["plain"]][:1]
    return {
        "states": d.distinct, "transitions": d.generated, "depth": d.depth,
        "design_runs": {cfg: {"distinct": d.distinct, "generated": d.generated, "wall_s": round(d.wall, 1)},
                        "MC_Envelope_nohalf.cfg": "MechanismMeetsRule refuted (expected)",
                        "MC_Envelope_keyidmod.cfg": "MechanismMeetsRule refuted (expected)"},
        "traces_validated_against_impl": s["events"] - len(bl),
        "samples": samples,
        "evaluations": s["steps"],
        "distinct_nontrivial": distinct_n,
        "rule": "CryptoCore pairs, 3 ciphers: payload lengths %s x buffer start offsets at both ends; every bit and every truncation length of "
                "sealed datagrams of %s; reflection; PeerCrypto after real handshakes: %d negotiated sessions (each cipher forced by either list, by "
                "speed, with a one-sided plain flag, plain on both sides) x message types 0/1/2/255 x lengths, encoded NodeInfo messages, tamper families through "
                "handle_message; 3-node mesh (all ciphers equal / all different%s): all 36 arrival shapes of MC_Envelope (6 rightful, 6 reflected, 24 cross); "
                "cleartext: every 8-byte window of random payloads and encoded NodeInfo; evaluations = single presentations (family members, windows, round "
                "trips); distinct = family members + distinct round-trip / search cases" % (
                    "0..=300 all + 40 sampled up to 9000" if quick else "0..=9000 all",
                    "9 payload lengths up to 1400" if quick else "14 payload lengths up to 9000",
                    sum(1 for e in evs if e["op"] == "session" and not e["name"].startswith("mesh")), "" if quick else " / mixed"),
        "presentations_by_kind": classes,
        "arrival_shapes_exercised": len(seen_shapes & shapes),
        "driver": s,
        "self_test": st,
        "checker_cmd": "tlc MC_Envelope / Trace_Envelope",
    }


ASSUMPTIONS = [
    "AEAD (ring) is treated as perfect at the design level; on the real code nothing is assumed - every bit and length is tried",
    "random 8-byte windows do not occur in ciphertext by chance (2^-64 per position)",
    "replays of intact datagrams to their rightful receiver are C03's subject; rotation keeping keys in step is C07's",
    "object level: 'delivered to the interface' = PeerCrypto::handle_message returns Message(type) with these bytes",
]


def node_level(tier, out, cov):
    """Node level: an address with an open handshake and no established peer (peer timed out, re-dial pending) receives
    datagrams sealed for the previous connection and forged unsealed payload: nothing may reach the interface
    (Trace_NodeRuns.NodeFamOK)."""
    from checks import noderuns
    tp = os.path.join(V.workdir(PID), "nodefam.ndjson")
    s = V.harness_json(["node", "fam", "c02", tier, tp])

    def classify(e):
        what = "panic" if e.get("panics") else ("delivered-or-state" if e.get("bad_other") else "other")
        return "envelope|node|%s|%s|%s" % (e.get("state"), e.get("family"), what)
    ok = noderuns.validate_records(PID, out, tp, classify, "C02 node-level families")
    cov["traces_validated_against_impl"] = cov.get("traces_validated_against_impl", 0) + ok
    cov["evaluations"] = cov.get("evaluations", 0) + s["steps"]
    cov["node_level"] = {"records": s["events"], "members": s["steps"]}


def run(tier, out):
    cov = object_level(tier, out)
    node_level(tier, out, cov)
    cloudcommon.part(PID, tier, out, cov)
    return out.finish("model_checking", cov, assumptions=ASSUMPTIONS)


def replay(rep):
    """bin/check C02 --replay <file>: runs the object-level driver again on the current code and reports whether the
    recorded signature is still produced."""
    out = V.Outcome(PID, "quick")
    object_level("quick", out)
    sigs = {v[0] for v in out.violations}
    if rep.get("signature") in sigs:
        print("VIOLATION property=%s replay=%s" % (PID, os.path.join(V.workdir(PID), "trace.ndjson")))
        return 1
    print("OK property=%s replay no longer violates (%s)" % (PID, rep.get("signature")))
    return 0
