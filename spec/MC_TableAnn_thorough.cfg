SPECIFICATION MCSpec
CONSTANTS Peers = {0, 1}
          W = 4
          Ranges <- MCRanges
          Addrs <- MCAddrs
          CT = 3
          ST = 2
          MaxDepth = 4
          Ops = {"disconnect", "lookup"}
          Deltas = {1, 3}
          ListMode = "C12"
INVARIANT CacheBounded
INVARIANT ClaimsAreLastAnnouncement
INVARIANT NextHopsArePeers
INVARIANT NoDuplicateClaims
INVARIANT LearnedHolds
INVARIANT LearnedExpires
INVARIANT TypeOK
PROPERTY LookupIsLPM
PROPERTY LookupReuses
PROPERTY AnnounceIsExact
PROPERTY LearnedIsLastWriter
VIEW View
CHECK_DEADLOCK FALSE
ACTION_CONSTRAINT Emit
