"""C06 - cipher negotiation is symmetric and cannot be downgraded.

Design level (TLC): MC_Negotiate enumerates every pair of advertised lists (every ordered sub-list of the three ciphers
x speeds from a grid with zero, ties and a very large value, x the allow-unencrypted flag on each side) and checks the
rule with ties broken by cipher identity, evaluated at both ends, against the set-level property of Negotiate.tla
(SelectOK, FromSetsOnly, NoDowngrade); the list-order dependent rule (MC_Negotiate_firstwins.cfg) must be REFUTED.
Impl -> spec: real four-datagram handshakes between PeerCrypto<NodeInfo> objects built from contexts with prescribed
speeds, for every configurable pair of advertised sets x list orders x speed assignments x both initiators, and every
single-field edit of the cipher list inside genuine pings / pongs; TLC judges every recorded event (Trace_Negotiate:
OutcomeOK, clean failure, probes, same outcome within a group of equal sets, edits never accepted)."""
import json
import os
import vplib as V
from checks.c17 import bad_lines, parallel, selftest, Findings, JVM, limited, validate_chunked

PID = "C06"
TSPEC, TCFG = "Trace_Negotiate.tla", "Trace_Negotiate.cfg"
FAIL, PLAIN = 99, 0


# ------------------------------------------------------------------ labels for unexplained events (no judgement)

def input_class(e):
    if e["ap"] and e["bp"]:
        return "plain-both"
    a, b = dict(map(tuple, e["a"])), dict(map(tuple, e["b"]))
    common = set(a) & set(b)
    if not common:
        return "no-common"
    score = {c: min(a[c], b[c]) for c in common}
    best = max(score.values())
    return "tie" if sum(1 for c in common if score[c] == best) > 1 else "unique"


def best_set(e):
    a, b = dict(map(tuple, e["a"])), dict(map(tuple, e["b"]))
    common = set(a) & set(b)
    score = {c: min(a[c], b[c]) for c in common}
    return {c for c in common if score[c] == max(score.values())} if common else set()


def classify(e, group):
    """signature and description of an event TLC could not explain; `group` = all nego events with the same sets"""
    if e["op"] == "edit":
        return "nego|edit|%s|%s|%s" % (e["msg"], e["kind"], "panic" if e["res"] == "panic" else "accepted"), \
            "a %s whose cipher list was edited in transit (%s) was not refused" % (e["msg"], e["kind"])
    if e["op"] == "future":
        what = "panic" if e["res"] == "panic" else ("handshake-payload-unsealed" if e.get("clear") and not (e["ap"] and e["bp"]) else "outcome")
        return "nego|future-peer|%s|%s" % (e["variant"], what), \
            "a genuine ping that also advertises unknown ciphers (a later version) changes the negotiation: %s" % what
    if e["op"] != "nego":
        return "nego|%s|unexplained" % e["op"], "event not explained by the specification"
    cls = input_class(e)
    if e["res"] == "panic":
        return "nego|%s|panic" % cls, "the handshake panicked: %s" % e.get("why", "")
    outcomes = {(g["x"], g["y"], g["res"]) for g in group if g["res"] != "panic"}
    if len(outcomes) > 1:
        same_lists = [g for g in group if g["a"] == e["a"] and g["b"] == e["b"]]
        if len({(g["x"], g["y"], g["res"]) for g in same_lists}) > 1:
            return "nego|%s|initiator-dependent" % cls, "the outcome for the same two lists depends on which side initiated"
        return "nego|%s|order-dependent" % cls, "the outcome for the same two advertised sets and speeds depends on the order of the lists"
    both = e["ap"] and e["bp"]
    if e.get("plain_early", 0) > 0:
        return "nego|%s|unsealed-accepted-before-completion" % cls, "an end that had not completed the handshake took an unsealed message as payload (unencrypted operation without agreement)"
    for k, o in ((0, e["x"]), (1, e["y"])):
        pa = e.get("plain_after", ["na", "na"])[k]
        if o not in (PLAIN, 99) and pa == "acc":
            return "nego|%s|unsealed-accepted-on-cipher-session" % cls, "an end that selected a cipher took an unsealed message as payload"
        if o == PLAIN and pa == "rej":
            return "nego|plain-both|unsealed-rejected", "an unencrypted session refuses unsealed messages"
    if (e["x"] == PLAIN or e["y"] == PLAIN) and not both:
        return "nego|%s|plain-without-consent" % ("plain-one-side" if e["ap"] or e["bp"] else cls), \
            "unencrypted operation selected although not both ends enabled it"
    if both and (e["x"] != PLAIN or e["y"] != PLAIN):
        return "nego|plain-both|not-plain", "both ends enabled unencrypted operation but it was not selected"
    if e["res"] == "half":
        return "nego|%s|one-end-only" % cls, "the handshake completed at one end only"
    if cls == "no-common" and e["res"] == "ok":
        return "nego|no-common|completed", "the handshake completed although the ends share no cipher"
    if cls in ("tie", "unique") and e["res"] == "fail":
        return "nego|%s|failed" % cls, "the handshake failed although the ends share a cipher: %s" % e.get("why", "")
    if e["x"] != e["y"]:
        return "nego|%s|ends-differ" % cls, "the two ends selected different ciphers"
    if cls in ("tie", "unique") and e["x"] not in best_set(e):
        return "nego|%s|not-fastest" % cls, "the selected cipher is not one whose slower side is fastest"
    if e["probe"] != ("na" if e["x"] == FAIL else "ok"):
        return "nego|%s|probe-failed" % cls, "after completion a datagram sealed by one end does not open at the other"
    return "nego|%s|unexplained" % cls, "event not explained by the specification"


def scan(path, bad):
    """one pass over the trace: coverage counters, the events at the bad lines together with their groups, samples, and a
    sample of accepted groups for the self-test"""
    bad = set(bad)
    classes, distinct, edit_kinds = {}, set(), {}
    hits = []                 # (line, event, group events)
    cur, cur_bad, cur_edits = [], [], []
    samples, st_groups = [], []
    n_groups = 0
    want_st = {"plain-both": 2, "no-common": 3, "tie": 12, "unique": 8, "with-edits": 3}
    with open(path) as f:
        for i, line in enumerate(f, 1):
            e = json.loads(line)
            op = e["op"]
            if op == "nego":
                cur.append(e)
                distinct.add(hash((json.dumps(e["a"]), e["ap"], json.dumps(e["b"]), e["bp"], e["init"], e["grid"])))
                if i in bad:
                    cur_bad.append((i, e))
            elif op == "edit":
                cur_edits.append(e)
                k = e["msg"] + "/" + e["kind"]
                edit_kinds[k] = edit_kinds.get(k, 0) + 1
                if i in bad:
                    cur_bad.append((i, e))
            elif op == "end":
                n_groups += 1
                if cur:
                    c = input_class(cur[0])
                    classes[c] = classes.get(c, 0) + len(cur)
                    if not cur_bad and cur_edits and want_st["with-edits"] > 0:
                        want_st["with-edits"] -= 1
                        st_groups.append(cur + cur_edits[:40] + [e])
                    elif not cur_bad and want_st.get(c, 0) > 0 and (c != "tie" or len(cur) >= 4) and n_groups % 7 == 1:
                        want_st[c] -= 1
                        st_groups.append(cur + cur_edits[:40] + [e])
                    if len(samples) < 3 and c == "tie" and len(cur[0]["a"]) >= 2:
                        samples.append(cur[1])
                for ln, ev in cur_bad:
                    hits.append((ln, ev, cur))
                cur, cur_bad, cur_edits = [], [], []
    return classes, len(distinct), edit_kinds, hits, samples, st_groups, n_groups


def nb(e):
    """a handshake event that is not the first of its group (the first one defines the group's outcome)"""
    return e["op"] == "nego" and e["init"] == "B"


def other_tied(e):
    o = sorted(best_set(e) - {e["x"]})[0]
    e["x"] = e["y"] = o


def run(tier, out):
    wd = V.workdir(PID)
    quick = tier == "quick"
    V.build_harness()
    tp = os.path.join(wd, "trace.ndjson")

    def impl():
        s = V.harness_json(["negotiate", "run", tier, tp], timeout=3000)
        bl, n = validate_chunked(TSPEC, TCFG, PID, tp, "nego", chunk=60000, boundary=lambda line: '"op":"end"' in line)
        if n != s["events"]:
            raise V.ToolError("trace has %d lines, driver reported %d events" % (n, s["events"]))
        return s, bl

    cfg = "MC_Negotiate.cfg" if quick else "MC_Negotiate_thorough.cfg"
    r = parallel({
        "design": lambda: limited(V.tlc_design)("MC_Negotiate.tla", cfg, PID, workers=8, timeout=1500),
        "firstwins": lambda: limited(V.tlc_design)("MC_Negotiate.tla", "MC_Negotiate_firstwins.cfg", PID, workers=1, timeout=600, env=JVM),
        "impl": impl,
    })
    d, fw = r["design"], r["firstwins"]
    if d.invariant_violated or d.property_violated:
        out.violation("design|" + ",".join(d.invariant_violated or ["property"]),
                      "the selection rule with ties broken by cipher identity violates Negotiate.tla's property", {"tlc": d.out[-3000:]})
    if "SelectOK" not in fw.invariant_violated:
        V.selftest_fail(PID, "the list-order dependent rule (first maximum in own order) was not refuted by TLC - the property lost its teeth")
    s, bl = r["impl"]
    if s["controls_failed"]:
        raise V.ToolError("%d unedited handshake datagrams were not accepted in the edit families (driver problem)" % s["controls_failed"])
    classes, distinct, edit_kinds, hits, samples, st_groups, n_groups = scan(tp, bl)
    if n_groups != s["runs"]:
        raise V.ToolError("trace holds %d groups, driver reported %d" % (n_groups, s["runs"]))
    fnd = Findings()
    for ln, e, group in hits:
        sig, what = classify(e, group)
        known = sig in fnd.by_sig and len(fnd.by_sig[sig]["events"]) >= 3
        fnd.add(sig, what, e if known else dict(e, _trace="%s:%d" % (os.path.basename(tp), ln), _group=group))
    fnd.report(out)
    # binding self-test on whole groups the main run accepted
    stp = os.path.join(wd, "trace_selftest_src.ndjson")
    V.write_ndjson(stp, [e for g in st_groups for e in g])
    st = selftest(PID, TSPEC, TCFG, [("sample", stp)], {}, [
        ("nego: cipher at one end changed", lambda e: nb(e) and e["y"] in (1, 2, 3), lambda e: e.__setitem__("y", e["y"] % 3 + 1)),
        ("nego: failure reported as completion", lambda e: nb(e) and e["res"] == "fail",
         lambda e: e.update({"x": 1, "y": 1, "res": "ok", "probe": "ok"})),
        ("nego: unencrypted instead of the common cipher", lambda e: nb(e) and e["x"] in (1, 2, 3) and (e["ap"] or e["bp"]),
         lambda e: e.update({"x": 0, "y": 0})),
        ("nego: the other tied cipher at both ends (admissible, but not the group's outcome)",
         lambda e: nb(e) and input_class(e) == "tie" and e["x"] in (1, 2, 3), other_tied),
        ("nego: probe failed", lambda e: nb(e) and e["probe"] == "ok" and e["x"] == 0, lambda e: e.__setitem__("probe", "bad")),
        ("edit: accepted", lambda e: e["op"] == "edit" and not e["accepted"], lambda e: e.update({"accepted": True, "res": "reply", "sent": True})),
    ], wd, per_source=100000, allow_vacuous=bool(out.violations))
    cov = {
        "states": d.distinct, "transitions": d.generated,
        "design_runs": {cfg: {"distinct": d.distinct, "generated": d.generated, "wall_s": round(d.wall, 1)},
                        "MC_Negotiate_firstwins.cfg": "SelectOK refuted (expected): " + " ".join(
                            l.strip() for l in fw.out.splitlines() if l.startswith("/\\ "))},
        "traces_validated_against_impl": s["events"] - len(bl),
        "samples": samples + [h[1] for h in hits[:2]],
        "evaluations": s["handshakes"] + s["edits"],
        "distinct_nontrivial": distinct + s["edits"],
        "rule": "every configurable pair of advertised sets over {plain, aes128, aes256, chacha20} (225 of the 256: an empty list without "
                "plain cannot be configured) x speed assignments (%s) x list orders (%s) x initiator A/B, each a real handshake with probes; "
                "edit families: every swap / speed / cipher id / drop / add-plain / add-cipher edit of the list in a genuine ping and pong for one "
                "speed assignment per pair of sets%s; distinct = distinct (list a, flag, list b, flag, initiator, speed grid) tuples + edits" % (
                    "all over {1,2}, all-zero, all-large, 8 seeded draws from {0,1,2,9}; f32 grids 0 and 1" if quick
                    else "all over {0,1,2,9}; f32 grids 0,1,2 in turn",
                    "ascending/descending in all four combinations + two mixed" if quick else "all",
                    "" if quick else " and every 16th group"),
        "handshakes_by_input_class": classes, "groups": n_groups, "completed": s["completed"], "failed_cleanly": s["failed"],
        "edits_by_kind": edit_kinds,
        "self_test": st,
        "checker_cmd": "tlc MC_Negotiate / Trace_Negotiate",
    }
    return out.finish("model_checking", cov, assumptions=[
        "speeds are prescribed through the VERIF_SPEEDS hook (finite, non-negative f32; NaN excluded as in the property)",
        "Ed25519 signatures are unforgeable: an edited list cannot be re-signed by the attacker (edits keep the original signature)",
        "an end that advertises nothing at all cannot be configured; the empty cipher list is exercised only with the plain flag"])


def replay(rep):
    """bin/check C06 --replay <file>: runs the recorded handshake(s) again on the current code and lets TLC judge them."""
    wd = V.workdir(PID, "replay")
    V.build_harness()
    evs = [e for e in rep["replay"].get("events", []) if e.get("op") in ("nego", "edit")]
    src = (evs[0].get("_group") or evs[:1]) if evs and evs[0]["op"] == "nego" else evs[:1]
    if not src:
        print("nothing to replay in this file")
        return 2
    ip, tp = os.path.join(wd, "in.ndjson"), os.path.join(wd, "trace.ndjson")
    V.write_ndjson(ip, [dict(e, g=1) for e in src])
    s = V.harness_json(["negotiate", "replay", ip, tp])
    v = V.tlc_trace(TSPEC, TCFG, PID, tp, s["events"], sub="trace-replay")
    if v.accepted:
        print("OK property=%s replay no longer violates (%s)" % (PID, rep.get("signature")))
        return 0
    print("VIOLATION property=%s replay=%s" % (PID, tp))
    return 1
