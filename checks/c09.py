"""C09 - established connections survive forged and replayed traffic.

Design level: Node.tla (dispatch layer in front of the handshake objects, attacker replays anything ever sent and
injects unverifiable datagrams): NoLoss, StaysConnected, SameSession, exhaustively with scaled timers; the same
specification with the pinned tree's dispatch ("pending") is required to be refuted (it is the counterexample TLC
finds in 11 steps).  Impl -> spec: the systematic plan of the property on real mock nodes with the real constants -
every datagram seen on the wire during establishment and operation of a 2- and 3-node mesh x re-injection offsets x
claimed source x verbatim / edited, each followed by 400 s of probes - judged by TLC (Trace_NodeRuns.C09RunOK)."""
import os
import vplib as V
from checks import cloudcommon
from checks import noderuns

PID = "C09"


def classify(e):
    if e.get("op") != "c09run":
        return "c09|%s" % e.get("op")
    what = []
    if e["panics"]:
        what.append("panic")
    if e["missing"] or e["delivered"] != e["sent"]:
        what.append("payload-lost")
    if e["lost_conn_ticks"] or not e["final_mesh"]:
        what.append("disconnected")
    if e["route_loss"]:
        what.append("route-lost")
    if e["wrong"] or e["extra"]:
        what.append("misdelivery")
    src = ["orig", "otherpeer", "unknown"][e["src"]]
    return "c09|%s|%s|src=%s|%s" % (e["kind"], "verbatim" if e["edit"] == 0 else "edited", src, "+".join(what) or "other")


def run(tier, out):
    wd = V.workdir(PID)
    quick = tier == "quick"
    V.build_harness()
    designs = []
    d = V.tlc_design("Node.tla", "MC_Node_peerfirst_quick.cfg" if quick else "MC_Node_peerfirst.cfg", PID, workers=10, timeout=1500, xmx="12g")
    designs.append(("Node(peerfirst)", d))
    if d.invariant_violated or d.property_violated:
        out.violation("design|node|%s" % ",".join(d.invariant_violated or ["property"]), "Node.tla violates C09 at design level", {"tlc": d.out[-3000:]})
    r = V.tlc_design("Node.tla", "MC_Node_pending.cfg", PID, workers=10, timeout=900, expect_ok=False)
    designs.append(("Node(pending dispatch, must be refuted)", r))
    if not r.invariant_violated:
        raise V.ToolError("the specification with the pending-first dispatch was not refuted: the property formula is vacuous")
    tp = os.path.join(wd, "trace.ndjson")
    s = V.harness_json(["node", "c09", tier, tp])
    accepted = noderuns.validate_records(PID, out, tp, classify, "C09 injection plan")
    st = "skipped (violations found)"
    if not out.violations:
        dst = os.path.join(wd, "selftest.ndjson")
        hit = V.corrupt_trace(tp, dst, lambda e: e["op"] == "c09run", lambda e: e.__setitem__("missing", 1))
        v = V.tlc_trace("Trace_NodeRuns.tla", "Trace_NodeRuns.cfg", PID, dst, s["events"], sub="selftest")
        if v.accepted or v.matched != hit - 1:
            V.selftest_fail(PID, "record with a lost probe (line %d) not rejected there" % hit)
        st = "record with one lost probe at line %d rejected by TLC" % hit
    evs = V.read_ndjson(tp)
    kinds = sorted(set((e.get("kind"), e.get("nodes")) for e in evs if e["op"] == "c09run"))
    cov = {
        "states": sum(x.distinct for _, x in designs), "transitions": sum(x.generated for _, x in designs),
        "design_runs": {n: {"distinct": x.distinct, "generated": x.generated, "refuted": bool(x.invariant_violated)} for n, x in designs},
        "traces_validated_against_impl": accepted,
        "samples": evs[:2],
        "evaluations": s["runs"], "distinct_nontrivial": len(set((e.get("nodes"), e.get("k"), e.get("offset"), e.get("src"), e.get("edit")) for e in evs)),
        "rule": "one run of real mock nodes per (mesh size, captured datagram, re-injection offset, claimed source, edit); datagram kinds/meshes covered: %s; "
                "each run: 150 s capture phase (handshake, node info, keepalive, first rotation, payload), injection, 400 s of probes in every direction" % kinds,
        "self_test": st,
    }
    cloudcommon.part(PID, tier, out, cov, extra={"injection runs": tp + ".cloud"})
    return out.finish("model_checking", cov, assumptions=[
        "the attacker holds no trusted key; it sees and can resend every datagram, with any claimed source address",
        "Node.tla uses scaled timers (2 retries, 1 s linger); recorded runs use the code's constants (120 / 60 / 300)"])
