------------------------------- MODULE Table -------------------------------
(***************************************************************************)
(* Routing table of one node: claims, decision cache, learned addresses.   *)
(*                                                                         *)
(* Code: src/table.rs  ClaimTable::{set_claims, remove_claims, cache,      *)
(*       lookup, housekeep};  src/types.rs  Range::matches (Prefix.tla).   *)
(*                                                                         *)
(* One action per public method, written from the statements of C11, C12   *)
(* and C13 - not from the control flow of table.rs:                        *)
(*   Announce(p, L)   set_claims: the claims of p become exactly L         *)
(*   Disconnect(p)    remove_claims: nothing keeps pointing at p           *)
(*   Learn(a, p)      cache: p is the next hop for a (last writer wins)    *)
(*   Lookup(a)        lookup: cached decision, else most specific claim    *)
(*   Advance(d)       the clock moves by d and housekeep sweeps            *)
(*                                                                         *)
(* Where the statements leave a choice the action takes a parameter and    *)
(* every value of it is admissible:                                        *)
(*  * boundary tick (DESIGN.md section 5 rule 3): an entry whose expiry is *)
(*    exactly `now` may or may not survive a sweep - it survives iff it is *)
(*    named in KC (claims, as <<peer, range>>) resp. KA (cache addresses); *)
(*    an entry with expiry > now always survives, < now never does;        *)
(*  * cached decisions derived from a claim are bounded from above only    *)
(*    ("reused no longer than ..."): a method may forget any of them - it  *)
(*    keeps those whose address is in FA;                                  *)
(*  * an announcement of p that drops a claim must drop the decisions      *)
(*    cached from it (C12); what happens to p's *learned* addresses then   *)
(*    is not said by C12/C13 (the table cannot tell the two kinds apart):  *)
(*    they are treated like forgettable entries during Announce(p, ..);    *)
(*  * equal prefix lengths: Lookup may pick any of the tied claims.        *)
(*                                                                         *)
(* Implementation-shaped variables: now, claims, cache.                    *)
(* History variables (properties only): up, lastAnn, learnt, last; and the *)
(* field `src` of a cache entry (where the decision came from).            *)
(***************************************************************************)
EXTENDS Integers, Sequences, FiniteSets, Prefix

CONSTANTS Peers,      \* peer identities (integers)
          W,          \* address width in bits; addresses are 0 .. 2^W - 1
          Ranges,     \* claimable ranges <<base, plen>>
          Addrs,      \* addresses that are looked up / learned
          CT,         \* claim timeout (= peer timeout)
          ST          \* switch timeout (life of a cached decision)

None == << >>
NoPeer == -1

VARIABLES now,      \* clock
          claims,   \* sequence of [peer, r, exp] in order of arrival
          cache,    \* [Addrs -> None | [peer, exp, src]], src = [kind, r, cexp, t0]
          up,       \* history: peers that announced and were not disconnected since
          lastAnn,  \* history: [Peers -> None | [set, t]] most recent announcement
          learnt,   \* history: [Addrs -> None | [peer, t]] most recent learning still in force
          last      \* label and result of the last action

implVars == <<now, claims, cache>>
histVars == <<up, lastAnn, learnt>>
vars == <<now, claims, cache, up, lastAnn, learnt, last>>

-----------------------------------------------------------------------------
Min(a, b) == IF a < b THEN a ELSE b
ListSet(L) == {L[i] : i \in 1..Len(L)}
Contains(r, a) == Matches(r[1], r[2], a, W)
RangesOf(cl, p) == {cl[i].r : i \in {j \in 1..Len(cl) : cl[j].peer = p}}
ClaimKeys(cl) == {<<cl[i].peer, cl[i].r>> : i \in 1..Len(cl)}
CachePairs(ca) == {<<a, ca[a].peer>> : a \in {x \in Addrs : ca[x] # None}}

\* first occurrences of the elements of L that are not in `seen`, in list order
RECURSIVE Fresh(_, _)
Fresh(L, seen) == IF L = << >> THEN << >>
                  ELSE IF Head(L) \in seen THEN Fresh(Tail(L), seen)
                  ELSE <<Head(L)>> \o Fresh(Tail(L), seen \cup {Head(L)})

FromClaim(r, cexp, t) == [kind |-> "claim", r |-> r, cexp |-> cexp, t0 |-> t]
Learned(t) == [kind |-> "learned", r |-> << >>, cexp |-> 0, t0 |-> t]

\* housekeeping at time t with the boundary choices KC, KA
Sweep(cl, ca, t, KC, KA) ==
  [claims |-> SelectSeq(cl, LAMBDA e : e.exp > t \/ (e.exp = t /\ <<e.peer, e.r>> \in KC)),
   cache  |-> [a \in Addrs |-> IF ca[a] # None /\ (ca[a].exp > t \/ (ca[a].exp = t /\ a \in KA))
                               THEN ca[a] ELSE None]]

\* entries a method may forget: decisions derived from claims, and (during an announcement of q) everything of q
Forgettable(ca, q) == {a \in Addrs : ca[a] # None /\ (ca[a].src.kind = "claim" \/ ca[a].peer \in q)}
Forget(ca, q, FA) == LET go == Forgettable(ca, q) \ FA IN [a \in Addrs |-> IF a \in go THEN None ELSE ca[a]]

\* sweep, then forget: the common tail of every method
Settle(cl, ca, t, q, KC, KA, FA) ==
  LET s == Sweep(cl, ca, t, KC, KA) IN [claims |-> s.claims, cache |-> Forget(s.cache, q, FA)]

-----------------------------------------------------------------------------
(* set_claims as C12 demands it: refreshed if announced again, gone at once (with the decisions cached from them)   *)
(* if not, appended if new.  Stale is the set of ranges of p that stay although they are not announced: always {}  *)
(* in this specification; Trace_Table uses it with focus C11 only, to keep following a table whose claims are not   *)
(* what C12 demands (see docs/C11.md).                                                                              *)
AnnounceEffect(cl, ca, t, p, L, Stale) ==
  LET SL == ListSet(L)
      mine == RangesOf(cl, p)
      refreshed == [i \in 1..Len(cl) |-> IF cl[i].peer = p /\ cl[i].r \in SL THEN [cl[i] EXCEPT !.exp = t + CT] ELSE cl[i]]
      kept == SelectSeq(refreshed, LAMBDA e : e.peer # p \/ e.r \in SL \/ e.r \in Stale)
      new == Fresh(L, mine)
      added == [i \in 1..Len(new) |-> [peer |-> p, r |-> new[i], exp |-> t + CT]]
  IN [claims |-> kept \o added,
      cache  |-> [a \in Addrs |-> IF /\ ca[a] # None /\ ca[a].peer = p /\ ca[a].src.kind = "claim"
                                     /\ ca[a].src.r \notin (SL \cup Stale)
                                  THEN None ELSE ca[a]]]

AnnounceS(p, L, KC, KA, FA, Stale) ==
  LET e == AnnounceEffect(claims, cache, now, p, L, Stale)
      s == Settle(e.claims, e.cache, now, {p}, KC, KA, FA) IN
  /\ claims' = s.claims
  /\ cache' = s.cache
  /\ up' = up \cup {p}
  /\ lastAnn' = [lastAnn EXCEPT ![p] = [set |-> ListSet(L), t |-> now]]
  /\ learnt' = [a \in Addrs |-> IF learnt[a] # None /\ learnt[a].peer = p /\ s.cache[a] = None THEN None ELSE learnt[a]]
  /\ last' = [op |-> "announce", peer |-> p, list |-> L]
  /\ UNCHANGED now

Announce(p, L, KC, KA, FA) == AnnounceS(p, L, KC, KA, FA, {})

\* remove_claims: no claim, cached decision or learned address of p remains
Disconnect(p, KC, KA, FA) ==
  LET cl == SelectSeq(claims, LAMBDA e : e.peer # p)
      ca == [a \in Addrs |-> IF cache[a] # None /\ cache[a].peer = p THEN None ELSE cache[a]]
      s == Settle(cl, ca, now, {}, KC, KA, FA) IN
  /\ claims' = s.claims
  /\ cache' = s.cache
  /\ up' = up \ {p}
  /\ lastAnn' = [lastAnn EXCEPT ![p] = None]
  /\ learnt' = [a \in Addrs |-> IF learnt[a] # None /\ learnt[a].peer = p THEN None ELSE learnt[a]]
  /\ last' = [op |-> "disconnect", peer |-> p]
  /\ UNCHANGED now

\* cache(addr, peer): a frame with source a arrived from the connected peer p
Learn(a, p, KC, KA, FA) ==
  LET ca == [cache EXCEPT ![a] = [peer |-> p, exp |-> now + ST, src |-> Learned(now)]]
      s == Settle(claims, ca, now, {}, KC, KA, FA) IN
  /\ p \in up
  /\ claims' = s.claims
  /\ cache' = s.cache
  /\ learnt' = [learnt EXCEPT ![a] = [peer |-> p, t |-> now]]
  /\ last' = [op |-> "learn", addr |-> a, peer |-> p]
  /\ UNCHANGED <<now, up, lastAnn>>

\* claims containing a, and the most specific among them (indices)
Cands(cl, a) == {i \in 1..Len(cl) : Contains(cl[i].r, a)}
Best(cl, a) == {i \in Cands(cl, a) : \A j \in Cands(cl, a) : cl[j].r[2] <= cl[i].r[2]}

\* choice c: Reuse the cached decision, or derive the decision from claim number c (0: no claim contains a).
\* Deriving is possible without a cached decision and instead of a forgettable one.
Reuse == -1
LookupChoices(a) ==
  (IF cache[a] # None THEN {Reuse} ELSE {}) \cup
  (IF cache[a] = None \/ cache[a].src.kind = "claim"
   THEN (IF Best(claims, a) = {} THEN {0} ELSE Best(claims, a)) ELSE {})

Lookup(a, c, KC, KA, FA) ==
  /\ c \in LookupChoices(a)
  /\ LET res == IF c = Reuse THEN cache[a].peer ELSE IF c = 0 THEN NoPeer ELSE claims[c].peer
         ca == IF c = Reuse THEN cache
               ELSE IF c = 0 THEN [cache EXCEPT ![a] = None]
               ELSE [cache EXCEPT ![a] = [peer |-> claims[c].peer,
                                          exp |-> Min(now + ST, claims[c].exp),
                                          src |-> FromClaim(claims[c].r, claims[c].exp, now)]]
         s == Settle(claims, ca, now, {}, KC, KA, FA) IN
     /\ claims' = s.claims
     /\ cache' = s.cache
     /\ last' = [op |-> "lookup", addr |-> a, res |-> res,
                 how |-> IF c = Reuse THEN "cached" ELSE IF c = 0 THEN "miss" ELSE "claim"]
  /\ UNCHANGED <<now, up, lastAnn, learnt>>

\* the clock moves by d, then housekeep
Advance(d, KC, KA, FA) ==
  LET s == Settle(claims, cache, now + d, {}, KC, KA, FA) IN
  /\ now' = now + d
  /\ claims' = s.claims
  /\ cache' = s.cache
  /\ learnt' = [a \in Addrs |-> IF learnt[a] # None /\ now + d > learnt[a].t + ST THEN None ELSE learnt[a]]
  /\ last' = [op |-> "advance", dt |-> d]
  /\ UNCHANGED <<up, lastAnn>>

Init ==
  /\ now = 0
  /\ claims = << >>
  /\ cache = [a \in Addrs |-> None]
  /\ up = {}
  /\ lastAnn = [p \in Peers |-> None]
  /\ learnt = [a \in Addrs |-> None]
  /\ last = [op |-> "init"]

\* lists of claimable ranges up to length 2 (the model-checking modules supply their own alphabets), steps 0, 1, ST, CT
Lists2 == {<< >>} \cup {<<r>> : r \in Ranges} \cup {<<r, q>> : r \in Ranges, q \in Ranges}
AllKC == Peers \X Ranges

Next ==
  \E KC \in SUBSET AllKC, KA \in SUBSET Addrs, FA \in SUBSET Addrs :
     \/ \E p \in Peers, L \in Lists2 : Announce(p, L, KC, KA, FA)
     \/ \E p \in Peers : Disconnect(p, KC, KA, FA)
     \/ \E a \in Addrs, p \in Peers : Learn(a, p, KC, KA, FA)
     \/ \E a \in Addrs : \E c \in LookupChoices(a) : Lookup(a, c, KC, KA, FA)
     \/ \E d \in {0, 1, ST, CT} : Advance(d, KC, KA, FA)

Spec == Init /\ [][Next]_vars

-----------------------------------------------------------------------------
(* C11 *)
\* the claims that contain a - stated with the bit-by-bit reference, not with the arithmetic the actions use
Live(a) == {i \in 1..Len(claims) : MatchesBits(claims[i].r[1], claims[i].r[2], a, W)}

\* a lookup that does not use a cached decision returns the announcer of a most specific live claim containing the
\* address (any of them on ties), and nothing if no live claim contains it
LookupIsLPMStep ==
  (last'.op = "lookup" /\ last'.how # "cached") =>
       IF Live(last'.addr) = {} THEN last'.res = NoPeer
       ELSE \E i \in Live(last'.addr) : /\ claims[i].peer = last'.res
                                       /\ \A j \in Live(last'.addr) : claims[j].r[2] <= claims[i].r[2]
LookupIsLPM == [][LookupIsLPMStep]_vars

\* a lookup that reuses a decision returns what was cached
LookupReusesStep ==
  (last'.op = "lookup" /\ last'.how = "cached") => cache[last'.addr] # None /\ last'.res = cache[last'.addr].peer
LookupReuses == [][LookupReusesStep]_vars

\* a cached decision lives no longer than the switch timeout; one derived from a claim not beyond the life of that
\* claim (its expiry when the decision was made, an announcement without it, the disconnect of its peer).
\* At the boundary tick (exp = now) claim and decision may be swept independently.
CacheBounded ==
  \A a \in Addrs : cache[a] # None =>
     LET c == cache[a] IN
     /\ now <= c.exp
     /\ c.exp <= c.src.t0 + ST
     /\ c.peer \in up
     /\ c.src.kind = "claim" =>
          /\ c.exp <= c.src.cexp
          /\ \/ \E i \in 1..Len(claims) : claims[i].peer = c.peer /\ claims[i].r = c.src.r
             \/ c.exp = now

(* C12 *)
\* while a peer is connected its claims are those of its most recent announcement: all of them until the peer
\* timeout has passed without another announcement (the tick lastAnn.t + CT is a don't-care), none afterwards
ClaimsAreLastAnnouncement ==
  \A p \in Peers :
     LET mine == RangesOf(claims, p) IN
     IF p \notin up THEN mine = {}
     ELSE /\ lastAnn[p] # None
          /\ mine \subseteq lastAnn[p].set
          /\ now < lastAnn[p].t + CT => mine = lastAnn[p].set
          /\ now > lastAnn[p].t + CT => mine = {}

\* an announcement takes effect at once: right after it the peer's claims are exactly the announced set
AnnounceIsExactStep == last'.op = "announce" => RangesOf(claims', last'.peer) = ListSet(last'.list)
AnnounceIsExact == [][AnnounceIsExactStep]_vars

\* nothing points at a peer that is not connected
NextHopsArePeers ==
  /\ \A i \in 1..Len(claims) : claims[i].peer \in up
  /\ \A a \in Addrs : cache[a] # None => cache[a].peer \in up

NoDuplicateClaims == \A i, j \in 1..Len(claims) : (claims[i].peer = claims[j].peer /\ claims[i].r = claims[j].r) => i = j

(* C13 *)
\* learnt[a] is the most recent Learn(a, P) not yet ended by the disconnect of P, by switch-timeout silence (or by an
\* announcement of P, see the header).  While it is younger than the switch timeout, P is the next hop for a ...
LearnedHolds ==
  \A a \in Addrs : (learnt[a] # None /\ now < learnt[a].t + ST) =>
     /\ cache[a] # None /\ cache[a].peer = learnt[a].peer /\ cache[a].src.kind = "learned"
\* ... and a learned entry exists only as long as that: none without a learning in force, none beyond t + ST
LearnedExpires ==
  \A a \in Addrs : (cache[a] # None /\ cache[a].src.kind = "learned") =>
     /\ learnt[a] # None /\ learnt[a].peer = cache[a].peer /\ learnt[a].t = cache[a].src.t0
     /\ now <= learnt[a].t + ST
\* every lookup of a while the learning is in force answers P - the last writer, whatever the claims say
LearnedIsLastWriterStep ==
  (last'.op = "lookup" /\ learnt[last'.addr] # None /\ now < learnt[last'.addr].t + ST)
        => last'.res = learnt[last'.addr].peer
LearnedIsLastWriter == [][LearnedIsLastWriterStep]_vars

TypeOK ==
  /\ up \subseteq Peers
  /\ \A i \in 1..Len(claims) : claims[i].peer \in Peers /\ claims[i].exp >= now /\ claims[i].exp <= now + CT
  /\ \A a \in Addrs : cache[a] # None => cache[a].peer \in Peers
=============================================================================
