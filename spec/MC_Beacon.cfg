INIT Init
NEXT Next
CONSTANTS MaxLen = 5
INVARIANT TypeOK
INVARIANT FindsAll
INVARIANT AdmitsReference
INVARIANT ExtraOnlyWithGarbage
INVARIANT LossNeverAdmitted
CHECK_DEADLOCK FALSE
