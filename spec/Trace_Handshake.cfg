SPECIFICATION TraceSpec
CONSTANTS MAX_RETRIES = 120
          CLOSE_TIME = 60
          Objs <- TObjs
          Attr <- TAttr
INVARIANT Agreement
INVARIANT AtMostOnce
INVARIANT HalvesDisjoint
INVARIANT CipherOK
INVARIANT AuthOnly
POSTCONDITION Accepted
CHECK_DEADLOCK FALSE
