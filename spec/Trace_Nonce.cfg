SPECIFICATION TraceSpec
CONSTANTS R = 256
          L = 12
          T = 7
POSTCONDITION Accepted
CHECK_DEADLOCK FALSE
