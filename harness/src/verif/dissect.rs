//! C19: address dissection of Ethernet frames and IP packets.
//! `dissect <nrand> <et20_stride> <et15_stride> <extra 0|1> <chunk> <outdir>` runs the real `Frame::parse` / `Packet::parse` on the
//! input families of the property's quantifier and records one event per call:
//! `{"op":"frame"|"packet","data":[bytes],"res":"ok"|"reject"|"panic","src":[bytes],"dst":[bytes]}`.
//! `dissect replay <in.ndjson> <outdir>` re-executes recorded inputs.
//! The first trace file holds the small structured families (position-tagged contents, version nibbles, nested and
//! truncated tags); the sweeps (all ethertypes, all tag-control values) and the random contents follow in files of at
//! most `chunk` events.  Judging the results is TLC's job (spec/Trace_Dissect.tla), not this driver's.
use super::util::*;
use crate::payload::{Frame, Packet, Protocol};
use crate::types::Address;
use rand::Rng;
use serde_json::{json, Map, Value};
use std::collections::HashSet;

struct Out {
    dir: String,
    chunk: usize,
    cur: Option<Trace>,
    files: Vec<Value>,
    cur_path: String,
    total: usize,
    calls: u64,
    ok: u64,
    reject: u64,
    panics: u64,
    distinct: HashSet<(u8, Vec<u8>)>,
    families: Map<String, Value>,
    fam_start: usize,
}

fn addr_bytes(a: &Address) -> Vec<u32> {
    let n = a.len as usize;
    let mut v: Vec<u32> = a.data[..n.min(16)].iter().map(|b| *b as u32).collect();
    // a length above 16 cannot be an address; keep it visible as non-byte elements
    for _ in 16..n {
        v.push(256);
    }
    v
}

impl Out {
    fn new(dir: &str, chunk: usize) -> Self {
        Out {
            dir: dir.to_string(),
            chunk,
            cur: None,
            files: vec![],
            cur_path: String::new(),
            total: 0,
            calls: 0,
            ok: 0,
            reject: 0,
            panics: 0,
            distinct: HashSet::new(),
            families: Map::new(),
            fam_start: 0,
        }
    }

    fn roll(&mut self) {
        if let Some(t) = self.cur.take() {
            let n = t.finish();
            self.files.push(json!({"path": self.cur_path, "events": n}));
        }
    }

    fn family(&mut self, name: &str) {
        self.families.insert(name.to_string(), json!(self.total - self.fam_start));
        self.fam_start = self.total;
    }

    fn ev(&mut self, v: Value) {
        if self.cur.as_ref().map(|t| t.events >= self.chunk).unwrap_or(false) {
            self.roll();
        }
        if self.cur.is_none() {
            self.cur_path = format!("{}/trace-{:03}.ndjson", self.dir, self.files.len());
            self.cur = Some(Trace::create(&self.cur_path));
        }
        self.cur.as_mut().unwrap().ev(v);
        self.total += 1;
    }

    fn call(&mut self, frame: bool, data: &[u8]) {
        self.calls += 1;
        if !data.is_empty() {
            self.distinct.insert((frame as u8, data.to_vec()));
        }
        let r = guarded(|| if frame { Frame::parse(data) } else { Packet::parse(data) });
        let (res, src, dst) = match r {
            Ok(Ok((s, d))) => {
                self.ok += 1;
                ("ok", addr_bytes(&s), addr_bytes(&d))
            }
            Ok(Err(_)) => {
                self.reject += 1;
                ("reject", vec![], vec![])
            }
            Err(_) => {
                self.panics += 1;
                ("panic", vec![], vec![])
            }
        };
        let d: Vec<u32> = data.iter().map(|b| *b as u32).collect();
        self.ev(json!({"op": if frame { "frame" } else { "packet" }, "data": d, "res": res, "src": src, "dst": dst}));
    }

    fn frame(&mut self, data: &[u8]) {
        self.call(true, data)
    }
    fn packet(&mut self, data: &[u8]) {
        self.call(false, data)
    }
}

fn put16(d: &mut [u8], off: usize, v: u16) {
    if d.len() > off {
        d[off] = (v >> 8) as u8;
    }
    if d.len() > off + 1 {
        d[off + 1] = v as u8;
    }
}

fn set_version(d: &mut [u8], v: u8) {
    if !d.is_empty() {
        d[0] = (v << 4) | (d[0] & 0x0f);
    }
}

fn random_bytes(rng: &mut impl Rng, n: usize) -> Vec<u8> {
    (0..n).map(|_| rng.gen::<u8>()).collect()
}

const TCIS: [u16; 12] = [0, 1, 0x0fff, 0x1000, 0x2000, 0xf000, 0xffff, 1234, 0xa001, 0x8100, 0x0100, 0xe00f];

/// `dissect replay <in.ndjson> <outdir>`: re-executes the (op, data) of recorded events (replay of a violation).
fn replay(inp: &str, dir: &str) -> Value {
    std::fs::create_dir_all(dir).expect("outdir");
    let mut o = Out::new(dir, usize::MAX);
    for e in read_ndjson(inp) {
        let data: Vec<u8> = e["data"].as_array().expect("data").iter().map(|v| v.as_u64().unwrap() as u8).collect();
        o.call(e["op"].as_str() == Some("frame"), &data);
    }
    o.roll();
    json!({"runs": o.files.len(), "steps": o.calls, "events": o.total, "files": o.files, "panics": o.panics})
}

pub fn run(args: &[String]) -> Value {
    if args.get(0).map(|s| s.as_str()) == Some("replay") {
        return replay(args.get(1).expect("input trace"), args.get(2).expect("outdir"));
    }
    let num = |i: usize| args.get(i).and_then(|s| s.parse::<usize>().ok()).expect("dissect <nrand> <et20_stride> <et15_stride> <extra> <chunk> <outdir>");
    let (nrand, et20_stride, et15_stride, extra, chunk) = (num(0), num(1).max(1), num(2).max(1), num(3) != 0, num(4).max(1000));
    let dir = args.get(5).expect("outdir").clone();
    std::fs::create_dir_all(&dir).expect("outdir");
    let mut o = Out::new(&dir, chunk);
    let mut r = rng(19);

    // ---- file 0: small structured families -------------------------------------------------------------------------
    // position-tagged contents: byte at offset i carries (i + k) mod 256
    for len in 0..=64usize {
        for k in [0u8, 0x50, 0xa0, 0xf0] {
            let base: Vec<u8> = (0..len).map(|i| (i as u8).wrapping_add(k)).collect();
            o.frame(&base);
            o.packet(&base);
            let mut d = base.clone();
            put16(&mut d, 12, 0x8100);
            o.frame(&d);
            for v in [4u8, 6] {
                let mut d = base.clone();
                set_version(&mut d, v);
                o.packet(&d);
            }
        }
    }
    o.family("position_tagged");
    // all 16 version nibbles x lengths around the limits, position-tagged and random contents
    for v in 0..16u8 {
        for len in [0usize, 1, 19, 20, 21, 39, 40, 41, 64] {
            for c in 0..8 {
                let mut d: Vec<u8> = if c == 0 { (0..len).map(|i| 0x80 | i as u8).collect() } else { random_bytes(&mut r, len) };
                set_version(&mut d, v);
                o.packet(&d);
                if c == 0 {
                    o.frame(&d);
                }
            }
        }
    }
    o.family("version_nibbles");
    // nested tags: a second tag (0x8100 / 0x88a8 / 0x9100) behind the first, and service tags in front
    for outer in [0x8100u16, 0x88a8, 0x9100] {
        for inner in [0x8100u16, 0x88a8, 0x9100, 0x0800] {
            for t1 in TCIS {
                for t2 in [0u16, 0x0fff, 0xb123] {
                    for len in [20usize, 22, 64] {
                        let mut d = random_bytes(&mut r, len);
                        put16(&mut d, 12, outer);
                        put16(&mut d, 14, t1);
                        put16(&mut d, 16, inner);
                        put16(&mut d, 18, t2);
                        o.frame(&d);
                    }
                }
            }
        }
    }
    o.family("nested_tags");
    // truncated frames around the ethertype and the tag control field
    for len in 10..=18usize {
        for t in TCIS {
            let mut d = random_bytes(&mut r, len);
            put16(&mut d, 12, 0x8100);
            put16(&mut d, 14, t);
            o.frame(&d);
            o.packet(&d);
            // ethertype cut in the middle / almost 0x8100
            let mut d = random_bytes(&mut r, len);
            put16(&mut d, 12, 0x8101);
            o.frame(&d);
            let mut d = random_bytes(&mut r, len);
            put16(&mut d, 12, 0x0081);
            o.frame(&d);
        }
    }
    o.family("truncated_tags");
    // IPv6 / IPv4 addresses with a special structure (mapped, compatible, loopback, unspecified, link-local, multicast,
    // translation prefixes, all-ones): the dissector returns the bytes at the standard positions, whatever they mean
    let special6: Vec<[u8; 16]> = {
        let mut v: Vec<[u8; 16]> = vec![[0u8; 16], [0xff; 16]];
        let mut a = [0u8; 16];
        a[15] = 1;
        v.push(a); // ::1
        for tail in [[192u8, 0, 2, 1], [10, 0, 0, 1], [0, 0, 0, 0], [255, 255, 255, 255]] {
            let mut m = [0u8; 16];
            m[10] = 0xff;
            m[11] = 0xff;
            m[12..].copy_from_slice(&tail);
            v.push(m); // ::ffff:a.b.c.d
            let mut c = [0u8; 16];
            c[12..].copy_from_slice(&tail);
            v.push(c); // ::a.b.c.d
            let mut n = [0u8; 16];
            n[0] = 0x00;
            n[1] = 0x64;
            n[2] = 0xff;
            n[3] = 0x9b;
            n[12..].copy_from_slice(&tail);
            v.push(n); // 64:ff9b::a.b.c.d
            let mut t = [0u8; 16];
            t[0] = 0x20;
            t[1] = 0x02;
            t[2..6].copy_from_slice(&tail);
            v.push(t); // 2002:a.b.c.d::
        }
        let mut l = [0u8; 16];
        l[0] = 0xfe;
        l[1] = 0x80;
        l[15] = 7;
        v.push(l);
        let mut m = [0u8; 16];
        m[0] = 0xff;
        m[1] = 0x02;
        m[15] = 1;
        v.push(m);
        v
    };
    for sa in &special6 {
        for da in &special6 {
            for len in [40usize, 41, 48, 64] {
                let mut d = random_bytes(&mut r, len);
                set_version(&mut d, 6);
                d[8..24].copy_from_slice(sa);
                d[24..40].copy_from_slice(da);
                o.packet(&d);
            }
        }
    }
    for sa in [[0u8, 0, 0, 0], [255, 255, 255, 255], [127, 0, 0, 1], [224, 0, 0, 1], [169, 254, 1, 1]] {
        for da in [[0u8, 0, 0, 0], [255, 255, 255, 255], [10, 0, 0, 1]] {
            for len in [20usize, 21, 40, 64] {
                let mut d = random_bytes(&mut r, len);
                set_version(&mut d, 4);
                d[12..16].copy_from_slice(&sa);
                d[16..20].copy_from_slice(&da);
                o.packet(&d);
            }
        }
    }
    o.family("special_addresses");
    // the dissectors are functions of their input alone: a complete frame / packet, then every prefix of it (longest
    // first and shortest first), then the complete one again - each call is judged on its own
    for c in 0..(if extra { 60 } else { 24 }) {
        let len = [18usize, 20, 22, 40, 44, 60][c % 6];
        let mut d = random_bytes(&mut r, len);
        match c % 4 {
            0 => {
                put16(&mut d, 12, 0x8100);
                put16(&mut d, 14, TCIS[c % TCIS.len()]);
            }
            1 => put16(&mut d, 12, 0x0800),
            2 => set_version(&mut d, 4),
            _ => set_version(&mut d, 6),
        }
        for pass in 0..2 {
            o.frame(&d);
            o.packet(&d);
            let cuts: Vec<usize> = if pass == 0 { (0..len).rev().collect() } else { (0..len).collect() };
            for k in cuts {
                o.frame(&d[..k]);
                o.frame(&d);
                o.packet(&d[..k]);
                o.packet(&d);
            }
        }
    }
    o.family("history_independence");
    o.roll();

    // ---- sweeps ----------------------------------------------------------------------------------------------------
    // a stride > 1 (quick tier) keeps every value next to the tag ethertype: high byte 0x81, low byte 0x00, service tags
    let sweep = |stride: usize| -> Vec<u16> {
        (0..=0xffffu32)
            .filter(|et| {
                stride <= 1
                    || *et as usize % stride == 0
                    || et >> 8 == 0x81
                    || et & 0xff == 0
                    || [0x88a8, 0x9100, 0x0800, 0x86dd, 0x0081, 0xffff].contains(et)
            })
            .map(|et| et as u16)
            .collect()
    };
    let base20 = random_bytes(&mut r, 20);
    for et in sweep(et20_stride) {
        let mut d = base20.clone();
        put16(&mut d, 12, et);
        o.frame(&d);
    }
    o.family("ethertypes_len20");
    // short frame: the header ends behind the ethertype (0x8100 must be refused there, everything else accepted)
    let base15 = random_bytes(&mut r, 15);
    for et in sweep(et15_stride) {
        let mut d = base15.clone();
        put16(&mut d, 12, et);
        o.frame(&d);
    }
    o.family("ethertypes_len15");
    for tci in 0..=0xffffu32 {
        let mut d = base20.clone();
        put16(&mut d, 12, 0x8100);
        put16(&mut d, 14, tci as u16);
        o.frame(&d);
    }
    o.family("tag_controls_len20");
    if extra {
        for len in [14usize, 64] {
            let b = random_bytes(&mut r, len);
            for et in 0..=0xffffu32 {
                let mut d = b.clone();
                put16(&mut d, 12, et as u16);
                o.frame(&d);
            }
        }
        o.family("ethertypes_len14_len64");
        for len in [16usize, 18] {
            let b = random_bytes(&mut r, len);
            for tci in 0..=0xffffu32 {
                let mut d = b.clone();
                put16(&mut d, 12, 0x8100);
                put16(&mut d, 14, tci as u16);
                o.frame(&d);
            }
        }
        o.family("tag_controls_len16_len18");
    }

    // ---- random contents of every length ------------------------------------------------------------------------------
    for len in 0..=64usize {
        for i in 0..nrand {
            let d = random_bytes(&mut r, len);
            o.frame(&d);
            o.packet(&d);
            // the interesting branches are rare in uniform contents: force them on every fourth content
            if i % 4 == 0 {
                let mut f = d.clone();
                put16(&mut f, 12, 0x8100);
                o.frame(&f);
                let mut p = d.clone();
                set_version(&mut p, if i % 8 == 0 { 4 } else { 6 });
                o.packet(&p);
            }
        }
    }
    o.family("random_contents");
    o.roll();

    json!({
        "runs": o.files.len(), "steps": o.calls, "events": o.total, "files": o.files,
        "distinct": o.distinct.len(), "ok": o.ok, "reject": o.reject, "panics": o.panics,
        "families": Value::Object(o.families),
    })
}
