"""Shared pipeline of the data-plane checks (C10, C13, node level of C11): Forward.tla design runs, TLC schedules and
random sequences on real meshes, trace validation with Trace_Forward."""
import os
import random
import vplib as V


def validate(pid, out, path, summ, mode, name, sub):
    v = V.tlc_trace("Trace_Forward.tla", "Trace_Forward.cfg", pid, path, summ["events"], extra_env={"MODE": mode}, xmx="6g", sub=sub)
    if v.accepted:
        return summ["runs"]
    evs = V.read_ndjson(path)
    m = min(v.matched, len(evs) - 1)
    bad = evs[m]
    start = max([i for i in range(m + 1) if evs[i]["op"] == "fwdreset"] or [0])
    if v.reason and v.reason.startswith("invariant"):
        sig = "forward|%s|%s" % (mode, v.reason.split()[1])
    else:
        sig = "forward|%s|%s" % (mode, bad.get("op"))
        if bad.get("op") == "recv":
            sig += "|wrote=%s|sent=%s|same=%s" % (bad.get("wrote"), bad.get("sent"), bad.get("same"))
        if bad.get("op") == "iface":
            sig += "|other=%s" % bad.get("other") if bad.get("other") else ""
    out.violation(sig, "real mesh deviates from Forward.tla (%s, %s): %s; event %s" % (name, mode, v.reason, bad),
                  {"driver": name, "mode": mode, "trace_run_tail": evs[max(start, m - 80):m + 1]})
    return 0


def design(pid, cfgs, workers=12):
    res = []
    for c in cfgs:
        res.append((c, V.tlc_design("MC_Forward.tla", "MC_Forward_%s.cfg" % c, pid, workers=workers, timeout=1500, xmx="12g")))
    return res


def sched_run(pid, out, cfg, mode, sample, seed):
    """export transitions of MC_Forward_<cfg>, cover them with schedules, execute a seeded sample on real meshes"""
    d = V.tlc_design("MC_Forward.tla", "MC_Forward_%s.cfg" % cfg, pid, workers=12, timeout=900, xmx="12g")
    edges = V.tlc_lines(d.out, "EDGE")
    scheds = V.cover_schedules(edges, maxlen=30)
    rnd = random.Random(seed)
    if sample and len(scheds) > sample:
        scheds = rnd.sample(scheds, sample)
    wd = V.workdir(pid)
    sp = os.path.join(wd, "sched_%s.ndjson" % cfg)
    V.write_ndjson(sp, scheds)
    tp = os.path.join(wd, "trace_sched_%s.ndjson" % cfg)
    s = V.harness_json(["node", "fwdsched", sp, tp, mode])
    ok = validate(pid, out, tp, s, mode, "TLC schedules " + cfg, "sched-" + cfg)
    return d, len(edges), scheds, s, ok, tp


def random_run(pid, out, mode, nodes, runs, length=300):
    wd = V.workdir(pid)
    tp = os.path.join(wd, "trace_random_%s_%d.ndjson" % (mode, nodes))
    s = V.harness_json(["node", "fwdrandom", runs, length, tp, mode, nodes])
    ok = validate(pid, out, tp, s, mode, "random sequences", "random-%s-%d" % (mode, nodes))
    return s, ok, tp
