//! C03 / C04: replay window and send counters on a real CryptoCore pair.
//! `window sched <schedules.ndjson> <trace.ndjson>`: executes TLC-generated schedules (NonceWindow.tla labels).
//! `window random <runs> <len> <trace.ndjson>`: seeded random histories incl. rotations into all four slots.
use super::util::*;
use crate::crypto::verif_export::*;
use crate::util::MsgBuffer;
use rand::Rng;
use serde_json::{json, Value};
use std::collections::HashMap;

struct Pair {
    s: CryptoCore,
    r: CryptoCore,
    algo: &'static ring::aead::Algorithm,
    gen: [u64; 4],
    count: [u64; 4],
    sealed: HashMap<(u64, u64, u64), Vec<u8>>,
    last_wire: HashMap<(u64, u64), u64>,
}

fn wire_ctr(d: &[u8]) -> u64 {
    let mut v = 0u64;
    for b in &d[1..8] {
        v = (v << 8) | *b as u64;
    }
    v
}

impl Pair {
    fn new(algo: &'static ring::aead::Algorithm) -> Self {
        let (s, r) = create_dummy_pair(algo);
        Pair { s, r, algo, gen: [0; 4], count: [0; 4], sealed: HashMap::new(), last_wire: HashMap::new() }
    }

    fn seal(&mut self, t: &mut Trace) -> (u64, u64, u64) {
        let mut b = MsgBuffer::new(8);
        let payload: Vec<u8> = (0..20).map(|i| (i as u8) ^ (self.sealed.len() as u8)).collect();
        b.clone_from(&payload);
        self.s.encrypt(&mut b);
        let bytes = b.message().to_vec();
        let keyid = bytes[0] as u64;
        let slot = keyid % 4;
        let w = wire_ctr(&bytes);
        let g = self.gen[slot as usize];
        let delta = match self.last_wire.get(&(slot, g)) {
            Some(p) => w.wrapping_sub(*p) as i64,
            None => 1,
        };
        self.last_wire.insert((slot, g), w);
        self.count[slot as usize] += 1;
        let c = self.count[slot as usize];
        self.sealed.insert((slot, g, c), bytes);
        t.ev(json!({"op":"seal","keyid":keyid,"slot":slot,"gen":g,"ctr":c,"delta":delta.clamp(-1000, 1000)}));
        (slot, g, c)
    }

    fn payload_of(&self, n: usize) -> Vec<u8> {
        (0..20).map(|i| (i as u8) ^ (n as u8)).collect()
    }

    fn open(&mut self, bytes: &[u8]) -> Option<Vec<u8>> {
        let mut d = MsgBuffer::new(8);
        d.clone_from(bytes);
        match guarded(|| self.r.decrypt(&mut d)) {
            Ok(Ok(())) => Some(d.message().to_vec()),
            _ => None,
        }
    }

    fn deliver(&mut self, key: (u64, u64, u64), t: &mut Trace) {
        let bytes = match self.sealed.get(&key) {
            Some(b) => b.clone(),
            None => {
                t.ev(json!({"op":"skip","why":"unknown datagram"}));
                return;
            }
        };
        let acc = self.open(&bytes).is_some();
        t.ev(json!({"op":"deliver","slot":key.0,"gen":key.1,"ctr":key.2,"acc":acc}));
    }

    fn tampered(&mut self, key: (u64, u64, u64), how: u64, t: &mut Trace) {
        let mut bytes = match self.sealed.get(&key) {
            Some(b) => b.clone(),
            None => {
                t.ev(json!({"op":"skip","why":"unknown datagram"}));
                return;
            }
        };
        // counter, ciphertext or tag bit (the key-id byte and lengths below the envelope size belong to C02/C08)
        let nbits = (bytes.len() - 1) * 8;
        let (kind, pos);
        if how % 5 == 4 {
            kind = "truncate";
            pos = 24 + (how / 5) as usize % (bytes.len() - 24);
            bytes.truncate(pos);
        } else {
            kind = "bitflip";
            pos = 8 + (how / 5) as usize % nbits;
            bytes[pos / 8] ^= 1 << (pos % 8);
        }
        let acc = self.open(&bytes).is_some();
        t.ev(json!({"op":"tampered","slot":key.0,"gen":key.1,"ctr":key.2,"kind":kind,"pos":pos,"acc":acc}));
    }

    fn tick(&mut self, t: &mut Trace) {
        self.s.every_second();
        self.r.every_second();
        t.ev(json!({"op":"tick"}));
    }

    fn rotate(&mut self, slot: u64, sending: bool, rng: &mut impl Rng, t: &mut Trace) {
        let mut material = [0u8; 32];
        rng.fill(&mut material);
        self.s.rotate_key(new_key(self.algo, &material), slot, sending);
        self.r.rotate_key(new_key(self.algo, &material), slot, false);
        self.gen[slot as usize] += 1;
        self.count[slot as usize] = 0;
        t.ev(json!({"op":"rotate","slot":slot,"sending":sending}));
    }
}

pub fn run_sched(sched_path: &str, out_path: &str) -> Value {
    let scheds = read_ndjson(sched_path);
    let mut t = Trace::create(out_path);
    let mut rng = rng(3);
    let (mut runs, mut steps) = (0u64, 0u64);
    for sched in &scheds {
        for (ai, algo) in ALGOS.iter().enumerate() {
            runs += 1;
            t.ev(json!({"op":"reset","run":runs,"algo":ALGO_NAMES[ai]}));
            let mut p = Pair::new(algo);
            for st in sched.as_array().unwrap() {
                steps += 1;
                let key = (st["slot"].as_u64().unwrap_or(0), st["gen"].as_u64().unwrap_or(0), st["ctr"].as_u64().unwrap_or(0));
                match st["op"].as_str().unwrap() {
                    "seal" => {
                        p.seal(&mut t);
                    }
                    "deliver" => p.deliver(key, &mut t),
                    "tampered" => {
                        let how = rng.gen::<u32>() as u64;
                        p.tampered(key, how, &mut t)
                    }
                    "tick" => p.tick(&mut t),
                    "rotate" => p.rotate(key.0, st["sending"].as_bool().unwrap(), &mut rng, &mut t),
                    other => panic!("unknown schedule op {}", other),
                }
            }
        }
    }
    let events = t.finish();
    json!({"runs": runs, "steps": steps, "events": events})
}

pub fn run_random(nruns: u64, len: u64, out_path: &str) -> Value {
    let mut t = Trace::create(out_path);
    let mut rng = rng(4);
    let mut steps = 0u64;
    for run in 0..nruns {
        let ai = (run % 3) as usize;
        t.ev(json!({"op":"reset","run":run + 1,"algo":ALGO_NAMES[ai]}));
        let mut p = Pair::new(ALGOS[ai]);
        let mut keys: Vec<(u64, u64, u64)> = vec![];
        // different mixes: delivery-heavy, tick-heavy, rotation-heavy
        let profile = (run / 3) % 3;
        for _ in 0..len {
            steps += 1;
            let x: u32 = rng.gen_range(0..100);
            let (w_seal, w_tick, w_rot) = match profile {
                0 => (25, 15, 1),
                1 => (20, 35, 2),
                _ => (25, 15, 6),
            };
            if x < w_seal || keys.is_empty() {
                keys.push(p.seal(&mut t));
            } else if x < w_seal + w_tick {
                p.tick(&mut t);
            } else if x < w_seal + w_tick + w_rot {
                let slot = rng.gen_range(0..4);
                let sending = rng.gen_bool(0.6);
                p.rotate(slot, sending, &mut rng, &mut t);
            } else {
                // prefer recent datagrams, sometimes anything ever sealed
                let idx = if rng.gen_bool(0.7) { keys.len() - 1 - rng.gen_range(0..keys.len().min(6)) } else { rng.gen_range(0..keys.len()) };
                let k = keys[idx];
                if x >= 92 {
                    let how = rng.gen::<u32>() as u64;
                    p.tampered(k, how, &mut t)
                } else {
                    p.deliver(k, &mut t)
                }
            }
        }
    }
    let events = t.finish();
    json!({"runs": nruns, "steps": steps, "events": events})
}


/// C03 at session level: real PeerCrypto pairs after a real handshake, driven by PeerCrypto::every_second (which also
/// drives key rotation); every data datagram is delivered at once and replayed k = 0..5 housekeeping rounds later.
/// One logical run per direction, in the vocabulary of NonceWindow (slot = key id on the wire, gen = how often the
/// receiver's key in that slot was replaced, `use` = the sender switched to a slot).
pub fn run_session(nruns: u64, seconds: u64, out_path: &str) -> Value {
    use super::conn::*;
    use crate::crypto::MessageResult;
    set_speeds([600.0, 500.0, 400.0]);
    let mut t = Trace::create(out_path);
    let mut rng = rng(5);
    let mut steps = 0u64;
    let mut logical_runs = 0u64;
    for run in 0..nruns {
        let crypto = [pw_crypto(1, "pw"), pw_crypto(2, "pw")];
        let (a, b, first) = handshake(&crypto);
        let mut ends = [a, b];
        // per direction d (0: A->B, 1: B->A): events, receiver slot fingerprints, generations, counters, sender's slot
        let mut ev: [Vec<Value>; 2] = [vec![], vec![]];
        let mut fps: [[[u8; 16]; 4]; 2] = [[[0; 16]; 4]; 2];
        let mut gen: [[u64; 4]; 2] = [[0; 4]; 2];
        let mut count: [[u64; 4]; 2] = [[0; 4]; 2];
        let mut cur: [u64; 2] = [0, 0];
        for d in 0..2 {
            let recv = 1 - d;
            for k in 0..4 {
                fps[d][k] = ends[recv].verif_core().unwrap().verif_slot_fingerprint(k);
            }
        }
        // pending replays: (due second, direction, slot, gen, ctr, bytes)
        let mut replays: Vec<(u64, usize, u64, u64, u64, Vec<u8>)> = vec![];
        let mut in_flight: Vec<(usize, Vec<u8>)> = vec![(0, first)];
        macro_rules! observe {
            () => {
                for d in 0..2usize {
                    let (snd, recv) = (d, 1 - d);
                    for k in 0..4usize {
                        let f = ends[recv].verif_core().unwrap().verif_slot_fingerprint(k);
                        if f != fps[d][k] {
                            fps[d][k] = f;
                            gen[d][k] += 1;
                            count[d][k] = 0;
                            ev[d].push(json!({"op":"rotate","slot":k,"sending":false}));
                        }
                    }
                    let c = ends[snd].verif_core().unwrap().verif_current_key() as u64;
                    if c != cur[d] {
                        cur[d] = c;
                        ev[d].push(json!({"op":"use","slot":c}));
                    }
                }
            };
        }
        for sec in 0..seconds {
            // rotation datagrams in flight are delivered first (reliable network)
            for (to, bytes) in in_flight.drain(..).collect::<Vec<_>>() {
                let _ = feed(&mut ends[to], &bytes);
                observe!();
            }
            // housekeeping tick of both ends (order varies)
            let order = if rng.gen_bool(0.5) { [0usize, 1] } else { [1, 0] };
            for i in order {
                steps += 1;
                let o = tick(&mut ends[i]);
                // end i is the receiver of direction 1 - i
                ev[1 - i].push(json!({"op":"tick"}));
                if !o.out.is_empty() {
                    in_flight.push((1 - i, o.out));
                }
                observe!();
            }
            // replays that are due (after this second's ticks)
            let due: Vec<_> = replays.iter().filter(|r| r.0 <= sec).cloned().collect();
            replays.retain(|r| r.0 > sec);
            for (_, d, slot, g, c, bytes) in due {
                steps += 1;
                let acc = open_data(&mut ends[1 - d], &bytes).is_some();
                ev[d].push(json!({"op":"deliver","slot":slot,"gen":g,"ctr":c,"acc":acc}));
            }
            // fresh payload in both directions, delivered at once, replayed k = 0..5 rounds later
            for d in 0..2usize {
                for _ in 0..rng.gen_range(0..3) {
                    steps += 1;
                    let payload: Vec<u8> = (0..20).map(|i| (i as u8) ^ (sec as u8)).collect();
                    let dg = seal_data(&mut ends[d], &payload);
                    let keyid = dg[0] as u64;
                    let slot = keyid % 4;
                    count[d][slot as usize] += 1;
                    let (g, c) = (gen[d][slot as usize], count[d][slot as usize]);
                    ev[d].push(json!({"op":"seal","keyid":keyid,"slot":slot,"gen":g,"ctr":c,"delta":1}));
                    let acc = open_data(&mut ends[1 - d], &dg).map(|p| p == payload).unwrap_or(false);
                    ev[d].push(json!({"op":"deliver","slot":slot,"gen":g,"ctr":c,"acc":acc}));
                    let k = rng.gen_range(0..=5u64);
                    replays.push((sec + k, d, slot, g, c, dg));
                }
            }
        }
        for d in 0..2 {
            logical_runs += 1;
            t.ev(json!({"op":"reset","run":run * 2 + d as u64 + 1,"algo":"session"}));
            for e in ev[d].drain(..) {
                t.ev(e);
            }
        }
    }
    let events = t.finish();
    json!({"runs": logical_runs, "steps": steps, "events": events})
}
