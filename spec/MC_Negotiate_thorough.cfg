\* thorough tier: grid {0, 1, 2, 3, 9} - 916 lists, (916 * 2)^2 = 3 356 224 pairs
SPECIFICATION Spec
CONSTANTS Speeds = {0, 1, 2, 3, 9}
          Rule = "id"
INVARIANT SelectOK
INVARIANT FromSetsOnly
INVARIANT NoDowngrade
INVARIANT UnsealedOnlyIfBoth
INVARIANT ChoiceOrderFree
CHECK_DEADLOCK FALSE
