---------------------------- MODULE MC_NonceWindow ----------------------------
(* TLC-only definitions for the exhaustive run of NonceWindow: bounds, view, transition export. *)
EXTENDS NonceWindow, TLC, Json
CONSTANTS MaxDatagrams, MaxTicks, MaxRot, MaxDepth

RECURSIVE SumOver(_, _)
SumOver(f, S) == IF S = {} THEN 0 ELSE LET x == CHOOSE y \in S : TRUE IN f[x] + SumOver(f, S \ {x})

Bound == /\ Cardinality(dgrams) <= MaxDatagrams
         /\ epoch <= MaxTicks
         /\ SumOver(gen, Slots) <= MaxRot
         /\ TLCGet("level") <= MaxDepth

\* the action label is not part of the state
View == <<gen, cur, sent, seen, nextMin, min, epoch, accLog, dgrams>>

\* one line per generated transition: the schedule generator only needs state identities and the label
Sid(g, c, s, se, nm, m, e, a, d) == ToString(<<g, c, s, se, nm, m, e, a, d>>)
Emit == PrintT(<<"EDGE", ToJson([s |-> Sid(gen, cur, sent, seen, nextMin, min, epoch, accLog, dgrams),
                                  a |-> last',
                                  t |-> Sid(gen', cur', sent', seen', nextMin', min', epoch', accLog', dgrams')])>>)
=============================================================================
