---------------------------- MODULE Trace_ConfigMerge ----------------------------
(* Trace validation for ConfigMerge (C20): every observation recorded from the real Config / ConfigFile / Args /
   parse_ip_netmask (harness/src/verif/cfgmerge.rs) is judged by the operators of ConfigMerge.tla.  The code under
   test is a family of pure functions, so the only state is the position in the trace.

   merge      what option `opt` is after defaults + file + command line, with what the two sources said
   roundtrip  what option `opt` is after the effective configuration went through the file form into fresh defaults
   keepalive  Config::get_keepalive on an effective configuration
   oldlisten  version-1 file: listen / port
   netmask    parse_ip_netmask(input): res ok / err / panic, address and mask octets
   call       a call of the code under test (front end, merge) that failed or panicked on an input the generator only
              produces when the documentation admits it - never acceptable *)
EXTENDS ConfigMerge, TLC, Json, IOUtils

Rec == ndJsonDeserialize(IOEnv.TRACE)
N == Len(Rec)
VARIABLE l

TraceInit == l = 1

Step(e) ==
  CASE e.op = "merge"     -> MergeObsOK(e.opt, e.kind, e.file, e.args, e.got)
    [] e.op = "roundtrip" -> RoundTripObsOK(e.opt, e.orig, e.got)
    [] e.op = "keepalive" -> KeepaliveOK(e.keepalive, e.peer_timeout, e.res, e.got)
    [] e.op = "oldlisten" -> e.got = OldListen(e.listen, e.port)
    [] e.op = "netmask"   -> NetmaskObsOK(e.chars, e.res, e.ip, e.mask)
    [] e.op = "call"      -> e.res = "ok"
    [] e.op = "reset"     -> TRUE
    [] OTHER              -> FALSE

TraceNext == /\ l <= N /\ l' = l + 1 /\ Step(Rec[l])
TraceSpec == TraceInit /\ [][TraceNext]_l

Accepted == IF TLCGet("stats").diameter - 1 = N THEN TRUE
            ELSE Print(<<"REJECTED", TLCGet("stats").diameter, Rec[TLCGet("stats").diameter]>>, FALSE)
=============================================================================
