----------------------------- MODULE Trace_Cloud -----------------------------
(* Event-by-event validation of real nodes against Cloud.tla.  Every driver call of the harness on a real GenericCloud
   (connect, housekeep, one datagram, one interface frame, close, restart) is one event carrying the classified result
   and the emissions reported by the guarded event log of src/cloud.rs, and the projection of the node's state after
   the call.  The trace specification keeps, per node, the state observed after the previous call, computes the
   successor that Cloud.tla prescribes for the call, and compares it with the observation aspect by aspect.  The state
   always follows the observation, so one deviation is reported once and the rest of the trace is still checked.
   A deviation prints <<"RULE", line, rule>>; which rules count for a check is selected by the environment (rules are
   grouped by the property they state). *)
EXTENDS Cloud, TLC, Json, IOUtils

Rec == ndJsonDeserialize(IOEnv.TRACE)
N == Len(Rec)
MaxNode == 8
PROPS == {"C01", "C02", "C05", "C08", "C09", "C10", "C11", "C12", "C13", "C14", "C15"}
Enforced == {p \in PROPS : IOEnv["VP_ENF_" \o p] = "1"}

VARIABLES l, now, st, inst, sess
\* st[n] = [up, s, c, plain]   inst = set of [nid, key, trusted, claims, T] of every node instance ever booted
\* sess[n] = set of <<address, node instance>>: whom the last handshake completed at node n on that address was with
tvars == <<l, now, st, inst, sess>>

Down == [up |-> FALSE, s |-> <<>>, c |-> <<>>, plain |-> {}]
TraceInit == l = 1 /\ now = 0 /\ st = [n \in 1..MaxNode |-> Down] /\ inst = {} /\ sess = [n \in 1..MaxNode |-> {}]

\* a rule: evaluated only when one of its properties is enforced; a deviation is printed, never blocks
\* (written with IF: TLC would split a disjunction inside an action into separate successors)
Chk(props, name, cond) == IF props \cap Enforced = {} THEN TRUE ELSE IF cond THEN TRUE ELSE PrintT(<<"RULE", l, name>>)
Unless(skip, rules) == IF skip THEN TRUE ELSE rules
When(c, rules) == IF c THEN rules ELSE TRUE

FromPost(p) ==
  [peers |-> {[a |-> x.a, nid |-> x.nid, exp |-> x.exp, pt |-> x.pt, init |-> x.init, ist |-> x.ist, ct |-> x.ct, addrs |-> x.addrs] : x \in SeqSet(p.peers)},
   pend |-> SeqSet(p.pend), claims |-> {[p |-> x.p, r |-> x.r, exp |-> x.exp] : x \in SeqSet(p.claims)},
   cache |-> SeqSet(p.cache), cx |-> SeqSet(p.claims), cseq |-> p.claims, own |-> SeqSet(p.own), np |-> p.np, nr |-> p.nr, rc |-> p.rc]
PlainOf(p) == {x.a : x \in {y \in SeqSet(p.peers) : y.plain}}

Count(sent, x) == Cardinality({i \in 1..Len(sent) : sent[i] = x})
CountTo(sent, a, tags) == Cardinality({i \in 1..Len(sent) : sent[i][1] = a /\ sent[i][2] \in tags})
Tags(sent) == {sent[i][2] : i \in 1..Len(sent)}
Dests(sent) == {sent[i][1] : i \in 1..Len(sent)}
InitTags == {"init", "empty"}

\* peers compared without the expiry / with only the expiry
Shape(ps) == {[a |-> p.a, nid |-> p.nid, pt |-> p.pt, init |-> p.init, ist |-> p.ist, ct |-> p.ct, addrs |-> p.addrs] : p \in ps}
Expiry(ps) == {<<p.a, p.exp>> : p \in ps}

InstOf(nid) == CHOOSE i \in inst : i.nid = nid
KnownInst(nid) == \E i \in inst : i.nid = nid

\* ------------------------------------------------------------------------------------------------ the events
Adopt(e) == st' = [st EXCEPT ![e.n].s = FromPost(e.post), ![e.n].plain = PlainOf(e.post)]

Boot(e) ==
  LET c == [self |-> e.n, nid |-> <<e.n, e.inc>>, T |-> e.T, ka |-> e.ka, adv |-> SeqSet(e.adv), key |-> e.key,
            trusted |-> SeqSet(e.trusted), claims |-> e.claims, plain |-> e.plain,
            learn |-> ModeFlags(e.mode, e.dev)[1], bc |-> ModeFlags(e.mode, e.dev)[2], st |-> e.st]
      obs == FromPost(e.post) IN
  /\ st' = [st EXCEPT ![e.n] = [up |-> TRUE, s |-> obs, c |-> c, plain |-> PlainOf(e.post)]]
  /\ inst' = inst \cup {[nid |-> c.nid, key |-> e.key, trusted |-> SeqSet(e.trusted), claims |-> e.claims, T |-> e.T, adv |-> SeqSet(e.adv)]}
  \* C13 / C10 / C11: which modes learn from traffic and which send unknown destinations to everybody
  /\ Chk({"C10", "C11", "C13"}, "boot-mode-flags", <<e.learn, e.bc>> = ModeFlags(e.mode, e.dev))
  /\ When(e.fresh, Chk({"C12", "C14", "C15"}, "boot-state",
                    obs = [peers |-> {}, pend |-> {}, claims |-> {}, cache |-> {}, cx |-> {}, cseq |-> <<>>, own |-> c.adv \cup {e.n}, np |-> now, nr |-> now + OWN_RESET, rc |-> <<>>]))
  /\ sess' = [sess EXCEPT ![e.n] = {}]
  /\ UNCHANGED now

\* no control-plane change at all
Same(pre, obs) == obs.peers = pre.peers /\ obs.pend = pre.pend /\ obs.claims = pre.claims /\ obs.own = pre.own
                  /\ obs.np = pre.np /\ obs.nr = pre.nr /\ obs.rc = pre.rc

\* the common comparisons of an observed state with a predicted one
Compare(tag, pred, obs) ==
  /\ Chk({"C05", "C09"}, tag \o "-peer-set", Addrs(obs.peers) = Addrs(pred.peers))
  /\ Chk({"C05"}, tag \o "-peer-fields", Shape(obs.peers) = Shape(pred.peers))
  /\ Chk({"C15"}, tag \o "-peer-expiry", Expiry(obs.peers) = Expiry(pred.peers))
  /\ Chk({"C05"}, tag \o "-pending", obs.pend = pred.pend)
  /\ Chk({"C12"}, tag \o "-claims", obs.claims = pred.claims)
  /\ Chk({"C11", "C12", "C13"}, tag \o "-cache", obs.cache = pred.cache)
  /\ Chk({"C14"}, tag \o "-own-addresses", obs.own = pred.own)
  /\ Chk({"C15"}, tag \o "-next-announcement", obs.np = pred.np)
  /\ Chk({"C15"}, tag \o "-reconnect-entries", obs.rc = pred.rc)
  /\ Chk({"C14"}, tag \o "-own-reset", obs.nr = pred.nr)

ConnectEv(e) ==
  LET n == st[e.n] pre == n.s obs == FromPost(e.post)
      r == Connect(pre, n.c, e.a) IN
  /\ Compare("connect", r.s, obs)
  /\ Chk({"C14"}, "connect-emission", e.tagerr \/ e.sent = r.out)
  /\ Adopt(e) /\ UNCHANGED <<now, inst, sess>>

AddRcEv(e) ==
  LET pre == st[e.n].s obs == FromPost(e.post) IN
  /\ Compare("addrc", [pre EXCEPT !.rc = Append(@, [a |-> <<e.a>>, tries |-> 0, to |-> 1, next |-> now])], obs)
  /\ Adopt(e) /\ UNCHANGED <<now, inst, sess>>

HkEv(e) ==
  LET n == st[e.n] pre == n.s obs == FromPost(e.post)
      h == Housekeep(pre, n.c, now)
      expInit(a) == (IF a \in DOMAIN h.inits THEN h.inits[a] ELSE 0) + Count(h.rcout, <<a, "init">>)
      everyone == Dests(e.sent) \cup DOMAIN h.inits \cup Dests(h.rcout) \cup h.infos IN
  /\ Chk({"C15"}, "hk-no-error", e.res = "ignored")
  /\ Compare("hk", h.s, obs)
  /\ Unless(e.tagerr,
       /\ Chk({"C15", "C05"}, "hk-dials-and-retries", \A a \in everyone : CountTo(e.sent, a, {"init"}) = expInit(a))
       /\ Chk({"C15"}, "hk-announcements", \A a \in everyone : CountTo(e.sent, a, {"nodeinfo"}) = (IF a \in h.infos THEN 1 ELSE 0))
       /\ Chk({"C10"}, "hk-other-emissions",
              /\ Tags(e.sent) \subseteq {"init", "nodeinfo", "rot"}
              /\ \A a \in everyone : CountTo(e.sent, a, {"rot"}) <= (IF a \in h.rotTo /\ a \notin n.plain THEN 1 ELSE 0)))
  \* C15: a peer is removed "with its routes": after the housekeeping no claim and no learned address points at a non-peer
  /\ Chk({"C15"}, "hk-routes-of-removed-peers-gone", NextHopsArePeers(obs) /\ SeqSet(e.post.cachep) \subseteq Addrs(obs.peers))
  /\ Chk({"C10"}, "hk-no-interface-write", e.wrote = 0)
  /\ Adopt(e) /\ UNCHANGED <<now, inst, sess>>

RecvEv(e) ==
  LET n == st[e.n] pre == n.s c == n.c obs == FromPost(e.post)
      isInit == e.first = 255
      route == Route(pre, e.src, isInit)
      r == Recv(pre, c, e.src, isInit, e.res, e.info, now)
      genuine == e.tag # "forged"
      plainSrc == e.src \in n.plain
      \* the pending entry is the handshake object's business on a reply: adopt its stage / retry counter when admissible
      predPend == IF e.res = "reply" /\ route = "pending" /\ e.src \in Addrs(obs.pend)
                     /\ PendAfterReply(ThePend(pre, e.src), ThePend(obs, e.src))
                  THEN {q \in r.s.pend : q.a # e.src} \cup {ThePend(obs, e.src)} ELSE r.s.pend
      \* a delivered frame teaches a learning node where its source address lives (the harness knows the frame inside a
      \* payload datagram from the interface read that caused it)
      \* (on an unencrypted session anything that arrives is taken as it is - also a late sealed datagram of an earlier,
      \*  encrypted connection, whose bytes then pass for a frame: what is learned there is not predicted)
      predCache == IF e.res = "data" /\ e.fk THEN LearnFrom(r.s, c, e.src, e.fsrc, now) ELSE r.s.cache
      pred == [r.s EXCEPT !.pend = predPend, !.cache = IF e.res = "data" /\ (~e.fk \/ plainSrc) THEN obs.cache ELSE predCache]
      replyOK == \/ e.res \notin {"reply", "initialized-reply"} /\ CountTo(e.sent, e.src, {"init", "empty", "rot"}) = Count(r.out, <<e.src, "init">>)
                 \/ e.res = "reply" /\ CountTo(e.sent, e.src, InitTags) = 1 + Count(r.out, <<e.src, "init">>) - 1
                 \/ e.res = "initialized-reply" /\ CountTo(e.sent, e.src, {"init", "rot"}) = 1 + Count(r.out, <<e.src, "init">>)
  IN
  /\ Chk({"C08", "C09"}, "recv-no-panic", e.res # "panic")
  /\ Chk({"C09", "C01"}, "recv-dispatch", e.res = "panic" \/ plainSrc \/ e.res \in ResultsOf(route))
  \* C01 / C08 / C09: a fabricated datagram (not byte-identical to anything a node ever sent) is dropped: no reply,
  \* no interface write, no change of any table (unauthenticated plain sessions excepted)
  /\ When(~genuine /\ ~plainSrc,
        /\ Chk({"C01", "C02", "C08", "C09"}, "forged-rejected", e.res \in {"ignored", "err", "errinit", "panic"})
        /\ Chk({"C01", "C08", "C09"}, "forged-leaves-no-state", Same(pre, obs) /\ SeqSet(e.post.pend) = pre.pend)
        /\ Chk({"C01", "C02", "C08", "C09"}, "forged-no-reply", e.sent = <<>> /\ e.wrote = 0))
  \* C09: whatever an attacker injects (verbatim replay or fabricated, any claimed source: id 0 = not delivered by the
  \* network on behalf of a node), peers and routes are exactly what the protocol prescribes for that datagram
  /\ When(e.id = 0, Chk({"C09"}, "injected-keeps-peers-and-routes", Addrs(obs.peers) = Addrs(pred.peers) /\ obs.claims = pred.claims))
  \* C08 / C09 / C01: a datagram somebody injected (a replay - also of the node's own datagrams - or a fabrication) that
  \* the node refuses leaves nothing behind but, at most, the end of the handshake attempt it was handed to
  /\ When(e.id = 0 /\ ~plainSrc /\ e.res \in {"ignored", "err", "errinit", "fatal"},
        Chk({"C01", "C08", "C09"}, "refused-injection-leaves-no-state",
            /\ obs.peers = pre.peers /\ obs.claims = pre.claims /\ obs.own = pre.own /\ obs.np = pre.np /\ obs.rc = pre.rc
            /\ obs.cache = pre.cache /\ obs.pend \subseteq pre.pend /\ e.sent = <<>> /\ e.wrote = 0))
  \* effects per result
  /\ Compare("recv-" \o e.res, pred, obs)
  /\ Unless(e.tagerr,
          Chk({"C01", "C10"}, "recv-emissions",
              /\ replyOK
              /\ \A a \in (Dests(e.sent) \cup Dests(r.out)) \ {e.src} : CountTo(e.sent, a, {"init"}) = Count(r.out, <<a, "init">>)
              /\ Tags(e.sent) \subseteq {"init", "empty", "rot"}))
  \* C10: only what an established peer sent as payload reaches the interface
  /\ Chk({"C10", "C02"}, "interface-write-only-from-peers", e.wrote = 0 \/ (route = "peer" /\ e.res \in {"data", "err", "panic"}))
  /\ Chk({"C10"}, "recv-interface-write", e.wrote = (IF e.res = "data" THEN 1 ELSE 0) \/ (e.res \in {"err", "panic"} /\ e.wrote <= 1))
  \* C01: a peer is added only for a party whose key the node trusts and that trusts the node's key
  /\ When(e.res \in {"initialized", "initialized-reply"} /\ KnownInst(e.info.nid),
        \* (named apart for sessions without a cipher: there nothing ties a pong to the ping it answers - a recorded finding)
        /\ Chk({"C01"}, IF e.src \in PlainOf(e.post) THEN "trust-mutual-unsealed-session" ELSE "trust-mutual",
               InstOf(e.info.nid).key \in c.trusted /\ c.key \in InstOf(e.info.nid).trusted)
        /\ Chk({"C05", "C12"}, "handshake-info-is-what-was-offered",
               e.info.claims = InstOf(e.info.nid).claims /\ e.info.pt = InstOf(e.info.nid).T))
  /\ When(e.res \in {"initialized", "initialized-reply"},
        Chk({"C05", "C01"}, "handshake-info-origin", genuine /\ e.info.nid = e.orig))
  /\ When(e.res = "nodeinfo" /\ genuine /\ KnownInst(e.info.nid),
        Chk({"C12"}, "announcement-is-the-configured-claims", e.info.claims = InstOf(e.info.nid).claims /\ e.info.nid = e.orig))
  \* C14: the addresses a node lists for itself arrive as they are: its socket address and whatever it advertises are among them
  /\ When(e.hasinfo /\ genuine /\ ~plainSrc /\ KnownInst(e.info.nid) /\ e.res \in {"nodeinfo", "initialized", "initialized-reply"},
        Chk({"C14"}, "own-address-list-arrives-intact", InstOf(e.info.nid).adv \cup {e.info.nid[1]} \subseteq SeqSet(e.info.addrs)))
  \* C14: every peer the message lists that is neither connected nor the node itself is dialled, nothing else is
  /\ When(e.res \in {"nodeinfo", "initialized", "initialized-reply"},
        Chk({"C14"}, "peer-list-dials", Addrs(obs.pend) = Addrs(pred.pend)))
  \* C02 / C10: what a peer sealed from its interface reaches this interface byte-identical
  /\ When(e.res = "data" /\ genuine /\ e.fk /\ ~plainSrc,
        Chk({"C02", "C10"}, "delivered-byte-identical", e.same))
  \* C15: only node information and keepalive messages (and the handshake) refresh a peer
  /\ When(e.res \in {"data", "none", "err", "errinit", "ignored", "reply"},
        Chk({"C15"}, "only-announcements-refresh", Expiry(obs.peers) = Expiry(pre.peers)))
  \* C02: what opens was sealed for THIS connection by its other end: by the node instance the last completed handshake
  \* on that address was with, and addressed to this node (not a datagram of an earlier connection, another connection of
  \* the same peer, or another peer)
  /\ When(e.res \in {"data", "nodeinfo", "keepalive", "close", "none"} /\ genuine /\ ~plainSrc /\ \E x \in sess[e.n] : x[1] = e.src,
        Chk({"C02"}, "opened-only-if-sealed-for-this-connection",
            /\ <<e.src, e.orig>> \in sess[e.n]
            /\ e.odst = e.n))      \* (odst: the node the datagram was originally addressed to, by whatever address)
  /\ sess' = IF e.res \in {"initialized", "initialized-reply"} /\ e.src \in Addrs(pre.pend)
              THEN [sess EXCEPT ![e.n] = {x \in @ : x[1] # e.src} \cup {<<e.src, e.info.nid>>}] ELSE sess
  /\ Adopt(e) /\ UNCHANGED <<now, inst>>

IfaceEv(e) ==
  LET n == st[e.n] pre == n.s obs == FromPost(e.post)
      outs == IfaceOutcomes(pre, n.c, e.fdst, now) IN
  /\ Compare("iface", [pre EXCEPT !.cache = obs.cache], obs)
  \* C10 / C11 / C13: the frame goes to the next hop of its destination - cached or learned decision, else the most
  \* specific live claim (which is then cached no longer than the switch timeout and the claim's life), else to all
  \* peers (switch, hub) or nowhere (router) - one copy each, and the cache afterwards is what that prescribes
  /\ Unless(e.tagerr, Chk({"C10", "C11", "C13"}, "iface-next-hops-and-cache",
         IF e.fk THEN \E o \in outs : Dests(e.sent) = o.hops /\ obs.cache = o.cache
         ELSE e.sent = <<>> /\ obs.cache = pre.cache))
  /\ Unless(e.tagerr, Chk({"C10", "C12"}, "iface-emissions-to-peers-only",
                     /\ Tags(e.sent) \subseteq {"data"}
                     /\ Dests(e.sent) \subseteq Addrs(pre.peers)
                     /\ \A a \in Dests(e.sent) : CountTo(e.sent, a, {"data"}) = 1))
  /\ Chk({"C10"}, "iface-no-local-write", e.wrote = 0)
  /\ Adopt(e) /\ UNCHANGED <<now, inst, sess>>

CloseEv(e) ==
  LET n == st[e.n] pre == n.s obs == FromPost(e.post) IN
  /\ Compare("close", pre, obs)
  /\ Unless(e.tagerr, Chk({"C10"}, "close-emissions", Tags(e.sent) \subseteq {"close"} /\ \A a \in Addrs(pre.peers) \cup Dests(e.sent) : CountTo(e.sent, a, {"close"}) = (IF a \in Addrs(pre.peers) THEN 1 ELSE 0)))
  /\ Adopt(e) /\ UNCHANGED <<now, inst, sess>>

\* invariants of the state after every call
StateRules(e) ==
  LET obs == FromPost(e.post) c == st'[e.n].c IN
  /\ Chk({"C12"}, "next-hops-are-peers", NextHopsArePeers(obs) /\ SeqSet(e.post.cachep) \subseteq Addrs(obs.peers))
  /\ Chk({"C14"}, "no-self-peer", NoSelfPeer(obs, c))
  /\ Chk({"C15"}, "backoff-bounded", BackoffBounded(obs))
  /\ Chk({"C05"}, "one-entry-per-address", OneEntryPerAddress(obs))

Step(e) ==
  CASE e.op = "reset" -> now' = e.now /\ st' = [n \in 1..MaxNode |-> Down] /\ inst' = {} /\ sess' = [n \in 1..MaxNode |-> {}]
    [] e.op = "time" -> now' = e.now /\ UNCHANGED <<st, inst, sess>>
    [] e.op = "boot" -> Boot(e) /\ StateRules(e)
    [] e.op = "connect" -> ConnectEv(e) /\ StateRules(e)
    [] e.op = "addrc" -> AddRcEv(e) /\ StateRules(e)
    [] e.op = "hk" -> HkEv(e) /\ StateRules(e)
    [] e.op = "recv" -> RecvEv(e) /\ StateRules(e)
    [] e.op = "iface" -> IfaceEv(e) /\ StateRules(e)
    [] e.op = "close" -> CloseEv(e) /\ StateRules(e)
    [] e.op = "end" -> UNCHANGED <<now, st, inst, sess>>
    [] OTHER -> FALSE

TraceNext == l <= N /\ l' = l + 1 /\ Step(Rec[l])
TraceSpec == TraceInit /\ [][TraceNext]_tvars
Accepted == IF TLCGet("stats").diameter - 1 = N THEN TRUE
            ELSE Print(<<"REJECTED", TLCGet("stats").diameter, Rec[TLCGet("stats").diameter]>>, FALSE)
=============================================================================
