//! C12 (node level): routes track peers - exactly the announced claims, nothing for the disconnected.
//! `node c12 <tier> <trace>`: router-mode meshes in which peers restart on the same address with different claims
//! (grow, shrink, permute, duplicates), go silent, send close, or have a replayed handshake fail; after every step every
//! node's table dump is compared with its peer list: one record per (step, node).
use super::node::*;
use super::util::*;
use crate::payload::Packet;
use crate::types::Mode;
use rand::seq::SliceRandom;
use rand::Rng;
use serde_json::{json, Value};
use std::collections::HashMap;

const UNIVERSE: [&str; 4] = ["10.0.1.0/24", "10.0.2.0/24", "10.0.0.0/16", "10.0.1.128/25"];
const PEER_TIMEOUT: u32 = 130;

fn pick_claims(rng: &mut impl Rng) -> Vec<String> {
    let mut idx: Vec<usize> = (0..4).collect();
    idx.shuffle(rng);
    let k = rng.gen_range(0..=3);
    let mut v: Vec<String> = idx[..k].iter().map(|i| UNIVERSE[*i].to_string()).collect();
    if k > 0 && rng.gen_bool(0.2) {
        v.push(v[0].clone()); // duplicate entry in one announcement
    }
    v
}

fn cfg_claims(claims: &[String]) -> crate::config::Config {
    let mut c = base_config(Mode::Router);
    c.peer_timeout = PEER_TIMEOUT;
    c.claims = claims.to_vec();
    c
}

struct Run {
    sim: Sim<Packet>,
    decl: HashMap<(u16, u32), Vec<String>>, // (node port, incarnation) -> announced claims
    recs: Vec<Value>,
    step: u64,
    run: u64,
}

impl Run {
    fn record(&mut self, what: &str) {
        self.step += 1;
        for i in 0..self.sim.nodes.len() {
            if self.sim.faults.silent.contains(&(i as u16 + 1)) && what == "dead" {
                continue;
            }
            let d = self.sim.dump(i);
            let peers: Vec<Value> = d["peers"]
                .as_array()
                .unwrap()
                .iter()
                .map(|p| {
                    let key = (p["n"].as_u64().unwrap() as u16, p["inc"].as_u64().unwrap() as u32);
                    let mut exp: Vec<String> = self.decl.get(&key).cloned().unwrap_or_default();
                    exp.sort();
                    exp.dedup();
                    json!({"a": p["a"], "n": p["n"], "inc": p["inc"], "expect": exp})
                })
                .collect();
            let claims: Vec<Value> = d["claims"].as_array().unwrap().iter().map(|c| json!({"p": c["p"], "r": c["r"]})).collect();
            let cache: Vec<Value> = d["cache"].as_array().unwrap().iter().map(|c| json!({"p": c["p"], "a": c["a"]})).collect();
            self.recs.push(json!({"op":"c12dump","run":self.run,"step":self.step,"after":what,"t":self.sim.now - T0,"node":i + 1,
                                  "peers":peers,"claims":claims,"cache":cache}));
        }
    }

    fn traffic(&mut self, rng: &mut impl Rng) {
        for i in 0..self.sim.nodes.len() {
            if self.sim.faults.silent.contains(&(i as u16 + 1)) {
                continue;
            }
            let dst = [[10u8, 0, 1, 5], [10, 0, 1, 200], [10, 0, 2, 9], [10, 0, 7, 7], [10, 9, 9, 9]][rng.gen_range(0..5)];
            let r = self.sim.iface(i, &ipv4_packet([10, 0, 9, i as u8], dst, &[1, 2, 3, 4]));
            // C12: the node never selects a non-peer as next hop
            let peers = self.sim.shape(i).0;
            for d in &r.sent {
                if d.bytes.first() != Some(&0xff) && !peers.contains(&d.to.port()) {
                    self.recs.push(json!({"op":"c12send","run":self.run,"node":i + 1,"to":d.to.port(),"peers":peers}));
                }
            }
        }
        self.sim.deliver_due();
    }
}

fn one_run(run: u64, steps: u64, stream: u64) -> Vec<Value> {
    let mut rng = rng(stream);
    let mut sim: Sim<Packet> = Sim::new(stream);
    sim.trace_sample(stream, 5, 80_000);
    let n = 4usize;
    let mut decl = HashMap::new();
    for i in 0..n {
        let c = pick_claims(&mut rng);
        decl.insert((i as u16 + 1, 0u32), c.clone());
        sim.add_node(false, &cfg_claims(&c));
    }
    for i in 1..n {
        let a = sim.nodes[0].addr;
        sim.connect(i, a);
    }
    sim.deliver_due();
    let mut r = Run { sim, decl, recs: vec![], step: 0, run };
    r.sim.run_for(3);
    r.record("setup");
    let mut silenced: Option<(usize, i64)> = None;
    for _ in 0..steps {
        let x = rng.gen_range(0..100);
        if let Some((j, until)) = silenced {
            if r.sim.now >= until {
                r.sim.faults.silent.remove(&(j as u16 + 1));
                silenced = None;
                // it comes back by itself: everybody re-dials a timed-out peer
            }
        }
        if x < 40 {
            let k = rng.gen_range(1..4);
            for _ in 0..k {
                r.sim.tick();
            }
            r.record("tick");
        } else if x < 60 {
            r.traffic(&mut rng);
            r.record("traffic");
        } else if x < 78 {
            // restart on the same address with other claims; the new instance dials somebody
            let j = rng.gen_range(0..n);
            if silenced.map(|s| s.0) == Some(j) {
                continue;
            }
            let c = pick_claims(&mut rng);
            r.sim.restart(j, Some(&cfg_claims(&c)));
            let inc = r.sim.nodes[j].inc;
            r.decl.insert((j as u16 + 1, inc), c);
            let mut to = rng.gen_range(0..n);
            if to == j {
                to = (j + 1) % n;
            }
            let a = r.sim.nodes[to].addr;
            r.sim.connect(j, a);
            r.sim.deliver_due();
            r.record("restart");
        } else if x < 86 && silenced.is_none() {
            let j = rng.gen_range(0..n);
            r.sim.faults.silent.insert(j as u16 + 1);
            silenced = Some((j, r.sim.now + PEER_TIMEOUT as i64 + rng.gen_range(5..40)));
            r.record("silence");
        } else if x < 93 {
            // close: everybody drops the node; it restarts with new claims
            let j = rng.gen_range(0..n);
            if silenced.map(|s| s.0) == Some(j) {
                continue;
            }
            r.sim.close(j);
            r.sim.deliver_due();
            r.record("close");
            let c = pick_claims(&mut rng);
            r.sim.restart(j, Some(&cfg_claims(&c)));
            let inc = r.sim.nodes[j].inc;
            r.decl.insert((j as u16 + 1, inc), c);
            let a = r.sim.nodes[(j + 1) % n].addr;
            r.sim.connect(j, a);
            r.sim.deliver_due();
            r.record("restart");
        } else {
            // a second handshake on an established address that can only fail: replay of an old ping
            let pings: Vec<Dgram> = r.sim.wire.iter().filter(|d| d.bytes.first() == Some(&0xff) && d.bytes.get(12) == Some(&1)).cloned().collect();
            if let Some(d) = pings.choose(&mut rng) {
                if let Some(to) = r.sim.idx_of(&d.to) {
                    let src = addr_of(d.from);
                    r.sim.present(to, src, &d.bytes);
                    r.sim.deliver_due();
                    r.record("replayed-ping");
                }
            }
        }
        if r.sim.wire.len() > 4000 {
            let keep = r.sim.wire.split_off(r.sim.wire.len() - 500);
            r.sim.wire = keep;
        }
    }
    // let everything settle: after one timeout period plus a handshake horizon the mesh is whole again
    r.sim.faults.silent.clear();
    for _ in 0..(PEER_TIMEOUT as i64 + 130) {
        r.sim.tick();
    }
    r.record("settled");
    let panics = r.sim.total_panics();
    r.recs.push(json!({"op":"c12end","run":run,"panics":panics,"full_mesh":r.sim.full_mesh()}));
    r.recs
}

/// learning-mode variant: peers announce no claims, routes are addresses learned from traffic; peers go silent (time out),
/// close, restart - no learned address may keep pointing at a removed peer
fn one_run_switch(run: u64, steps: u64, stream: u64) -> Vec<Value> {
    use crate::payload::Frame;
    let mut rng = rng(stream);
    let mut sim: Sim<Frame> = Sim::new(stream);
    sim.trace_sample(stream, 5, 80_000);
    let n = 4usize;
    let mut cfg = base_config(Mode::Switch);
    cfg.peer_timeout = PEER_TIMEOUT;
    cfg.switch_timeout = 3600;
    for _ in 0..n {
        sim.add_node(false, &cfg);
    }
    for i in 1..n {
        let a = sim.nodes[0].addr;
        sim.connect(i, a);
    }
    sim.deliver_due();
    sim.run_for(3);
    let mut recs = vec![];
    let mut step = 0u64;
    let mut silenced: Option<(usize, i64)> = None;
    let mut fno = 0u64;
    for _ in 0..steps {
        step += 1;
        let x = rng.gen_range(0..100);
        if let Some((j, until)) = silenced {
            if sim.now >= until {
                sim.faults.silent.remove(&(j as u16 + 1));
                silenced = None;
            }
        }
        let what;
        if x < 35 {
            for _ in 0..rng.gen_range(1..4) {
                sim.tick();
            }
            what = "tick";
        } else if x < 75 {
            // every node talks: hosts behind node i use MAC 10+i (and sometimes a roaming MAC 99)
            for i in 0..n {
                if sim.faults.silent.contains(&(i as u16 + 1)) {
                    continue;
                }
                fno += 1;
                let src = if rng.gen_bool(0.15) { 99 } else { 10 + i as u8 };
                let dst = [10u8, 11, 12, 13, 99, 0xff][rng.gen_range(0..6)];
                let mut payload = vec![0u8; 12];
                payload[..8].copy_from_slice(&fno.to_be_bytes());
                let r = sim.iface(i, &eth_frame(mac(dst), mac(src), None, &payload));
                let peers = sim.shape(i).0;
                for d in &r.sent {
                    if d.bytes.first() != Some(&0xff) && !peers.contains(&d.to.port()) {
                        recs.push(json!({"op":"c12send","run":run,"node":i + 1,"to":d.to.port(),"peers":peers}));
                    }
                }
            }
            sim.deliver_due();
            what = "traffic";
        } else if x < 85 && silenced.is_none() {
            let j = rng.gen_range(0..n);
            sim.faults.silent.insert(j as u16 + 1);
            silenced = Some((j, sim.now + PEER_TIMEOUT as i64 + rng.gen_range(5..40)));
            what = "silence";
        } else if x < 93 {
            let j = rng.gen_range(0..n);
            if silenced.map(|s| s.0) == Some(j) {
                continue;
            }
            sim.close(j);
            sim.deliver_due();
            sim.restart(j, None);
            let a = sim.nodes[(j + 1) % n].addr;
            sim.connect(j, a);
            sim.deliver_due();
            what = "close";
        } else {
            let j = rng.gen_range(0..n);
            if silenced.map(|s| s.0) == Some(j) {
                continue;
            }
            sim.restart(j, None);
            let a = sim.nodes[(j + 1) % n].addr;
            sim.connect(j, a);
            sim.deliver_due();
            what = "restart";
        }
        for i in 0..n {
            let d = sim.dump(i);
            let peers: Vec<Value> = d["peers"].as_array().unwrap().iter().map(|p| json!({"a": p["a"], "n": p["n"], "inc": p["inc"], "expect": []})).collect();
            let claims: Vec<Value> = d["claims"].as_array().unwrap().iter().map(|c| json!({"p": c["p"], "r": c["r"]})).collect();
            let cache: Vec<Value> = d["cache"].as_array().unwrap().iter().map(|c| json!({"p": c["p"], "a": c["a"]})).collect();
            recs.push(json!({"op":"c12dump","run":run,"step":step,"after":what,"t":sim.now - T0,"node":i + 1,"peers":peers,"claims":claims,"cache":cache}));
        }
    }
    recs.push(json!({"op":"c12end","run":run,"panics":sim.total_panics(),"full_mesh":sim.full_mesh()}));
    recs
}

/// a stable router mesh with the switch timeout different from the peer timeout: the claims of a connected peer stay
/// in the table all the time (they are refreshed by every announcement and live for the peer timeout)
fn one_run_steady(run: u64, stream: u64) -> Vec<Value> {
    let mut rng = rng(stream);
    let mut sim: Sim<Packet> = Sim::new(stream);
    sim.trace_sample(stream, 5, 80_000);
    let n = 3usize;
    let (pt, st) = [(300u32, 30u32), (300, 10), (130, 1000), (300, 3600)][(run % 4) as usize];
    let mut decl: HashMap<(u16, u32), Vec<String>> = HashMap::new();
    for i in 0..n {
        let mut c = pick_claims(&mut rng);
        if c.is_empty() {
            c.push(UNIVERSE[i % 4].to_string());
        }
        decl.insert((i as u16 + 1, 0), c.clone());
        let mut cfg = cfg_claims(&c);
        cfg.peer_timeout = pt;
        cfg.switch_timeout = st;
        sim.add_node(false, &cfg);
    }
    for i in 1..n {
        let a = sim.nodes[0].addr;
        sim.connect(i, a);
    }
    sim.deliver_due();
    let mut r = Run { sim, decl, recs: vec![], step: 0, run };
    r.sim.run_for(3);
    for k in 0..(2 * pt as i64 + 60) {
        r.sim.tick();
        if k % 7 == 0 {
            r.traffic(&mut rng);
            r.record("steady");
        }
    }
    let panics = r.sim.total_panics();
    r.recs.push(json!({"op":"c12end","run":run,"panics":panics,"full_mesh":r.sim.full_mesh()}));
    r.recs
}

pub fn run(tier: &str, out_path: &str) -> Value {
    let (runs, steps) = if tier == "quick" { (24u64, 60u64) } else { (300, 120) };
    let ids: Vec<u64> = (0..runs).collect();
    let results = parallel_map(&ids, |_, k| match *k % 6 {
        2 | 5 => one_run_switch(*k + 1, steps, 12000 + *k),
        3 => one_run_steady(*k + 1, 12000 + *k),
        _ => one_run(*k + 1, steps, 12000 + *k),
    });
    let mut t = Trace::create(out_path);
    for rs in &results {
        for r in rs {
            t.ev(r.clone());
        }
    }
    let events = t.finish();
    let cloud = write_cloud_blocks(&format!("{}.cloud", out_path));
    json!({"runs": runs, "steps": runs * steps, "events": events, "cloud_events": cloud})
}
