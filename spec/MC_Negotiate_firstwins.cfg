\* expected to FAIL: the list-order dependent rule (first maximum in own order) violates SelectOK on ties.
\* checks/c06.py requires TLC to refute SelectOK here (mutation test of the property).
SPECIFICATION Spec
CONSTANTS Speeds = {0, 1}
          Rule = "first"
INVARIANT NoDowngrade
INVARIANT SelectOK
CHECK_DEADLOCK FALSE
