SPECIFICATION TraceSpec
CONSTANTS ROTATE_INTERVAL = 120
          FreshBound = 242
          RecoverBound = 722
INVARIANT SealKeyHeldByPeer
INVARIANT FreshInTrace
POSTCONDITION Accepted
CHECK_DEADLOCK FALSE
