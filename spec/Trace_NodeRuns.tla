---------------------------- MODULE Trace_NodeRuns ----------------------------
(* Judgement of recorded runs of real mock-backed nodes (GenericCloud with MockSocket/MockDevice/MockTimeSource under
   the harness's network).  Each record summarises one run of a systematic plan; the formulas below are the node-level
   properties (Node.tla: NoLoss, StaysConnected, BadIsStutter; conservation; deadlines) instantiated for the record. *)
EXTENDS Integers, Sequences, FiniteSets, TLC, Json, IOUtils, Interval

Rec == ndJsonDeserialize(IOEnv.TRACE)
N == Len(Rec)
VARIABLE l

\* C09 (Node.tla NoLoss / StaysConnected on real nodes): after the injection of a replayed or forged datagram every probe
\* frame of the following 400 s is delivered exactly once to its destination, both ends stay connected, the learned
\* routes stay, nothing panics.  The only admissible extra delivery is the in-window duplicate bounded by C03: a
\* verbatim sealed datagram from its original source, re-injected at most two housekeeping ticks after it was sent.
C09RunOK(e) ==
  /\ e.healthy0 /\ e.final_mesh
  /\ e.panics = 0
  /\ e.missing = 0 /\ e.wrong = 0
  /\ e.lost_conn_ticks = 0 /\ e.route_loss = 0
  /\ e.delivered = e.sent
  /\ e.extra <= (IF e.edit = 0 /\ e.kind = "sealed" /\ e.src = 0 /\ e.age + e.offset <= 2 THEN 1 ELSE 0)

\* C08 / C01 (Node.tla BadIsStutter on real nodes): a whole family of datagrams that cannot verify was presented to a node
\* in a given receiver state: no member may panic the node, cause a reply, reach the interface or change the peer /
\* pending sets; afterwards the genuine datagram still advances the handshake.  In an unencrypted session ("plain" on
\* both ends, C02's exception) datagrams from the peer's own address are not authenticated at all: only "no panic".
\* bad_tail counts members that were accepted because the bytes lying behind the datagram in the reused receive buffer
\* complete it to the genuine datagram; to the code this is the genuine (verifying) datagram, so it is judged by C01
\* ("truncation ... is rejected") and not by C08 ("a datagram that fails verification leaves no state behind").
NodeFamOK(e) ==
  /\ e.members > 0
  /\ e.panics = 0
  /\ \/ (e.state = "estab-plain" /\ e.src = "peer")
     \/ e.mode = "nopanic"           \* verbatim genuine datagrams of another handshake: they verify; only "no panic" is demanded
     \/ (e.bad_other = 0 /\ (e.prop = "c01" => e.bad_tail = 0))
  /\ e.state # "unexpected"
  /\ e.then_completes # "no"

\* C01: after a reliable exchange in which everybody dials everybody, two nodes are peers exactly when each trusts the
\* other's key (trust[a][b]: node a trusts the key of node b; an empty configured set means "own key only")
TrustRunOK(e) ==
  /\ e.panics = 0
  /\ \A a \in 1..e.n : \A b \in 1..e.n : a # b => (e.conn[a][b] <=> (e.trust[a][b] /\ e.trust[b][a]))

\* C15 ---------------------------------------------------------------------------------------------------------------
SeqSet(s) == {s[i] : i \in 1..Len(s)}
\* every scheduling of the next announcement observed on a real node (own settings and advertised timeouts any
\* user-configurable value): no panic, and the delay satisfies Interval!IntervalOK for the timeouts its peers advertise
IntervalEvOK(e) == /\ e.res = "ok"
                   /\ e.d >= 0
                   /\ IntervalOK(e.d, SeqSet(e.adv_seen))
\* a mesh with stable membership on a delivering network: nobody is ever timed out (all timeouts >= 1 s)
HeteroOK(e) == e.res = "ok" /\ e.panics = 0 /\ e.mesh /\ e.removals = 0
LateJoinOK(e) == e.res = "ok" /\ e.panics = 0 /\ e.removals = 0
\* a peer that fell silent at ts is removed, with its routes, exactly at the first housekeeping tick after
\* last refresh + the node's OWN timeout (whatever the peer advertises and however rarely it announced), and re-dialled
SilenceOK(e) == /\ e.res = "ok" /\ e.last_refresh <= e.ts
                /\ e.removed_at = e.last_refresh + e.T + 1
                /\ e.routes_gone /\ e.redialled
\* a configured peer that never answers is dialled again and again, never more than an hour apart
BackoffOK(e) == e.panics = 0 /\ e.dials >= 2 /\ e.max_gap <= 3600 + 2 /\ e.tail_gap <= 3600 + 2

\* C14 ---------------------------------------------------------------------------------------------------------------
Log2Ceil(n) == IF n <= 2 THEN 1 ELSE IF n <= 4 THEN 2 ELSE IF n <= 8 THEN 3 ELSE 4
\* a bootstrap configuration enumerated by TLC for Mesh.tla (or a sampled larger graph) on real nodes: fully meshed
\* within ceil(log2 n) + 1 announcement intervals (+ 5 s), stays meshed, and nobody ever lists itself (Mesh!FullMeshBy, NoSelfLink)
MeshRunOK(e) == /\ e.panics = 0 /\ ~e.self_peer
                /\ e.t_full >= 0 /\ e.t_full <= (Log2Ceil(e.n) + 1) * e.interval + 5
                /\ e.stable
\* a node whose own handshake datagrams reach it through another address never lists itself and drops the attempt;
\* behind a port forwarding inside a mesh it adopts the address its peers list under its identity and never dials it
SelfDialOK(e) == /\ e.panics = 0 /\ ~e.self_peer /\ ~e.pending_left
                 /\ e.in_mesh => (e.learnt /\ e.dials_of_own_alias = 0 /\ e.mesh_ok)

\* C12 ---------------------------------------------------------------------------------------------------------------
\* the routing table of a node compared with its peer list after a step (restart with other claims, silence, close,
\* failing second handshake, traffic, time): for every peer entry the claims attributed to its address are exactly those
\* of the last announcement of that peer instance; every claim and every cached decision points at a current peer
C12DumpOK(e) ==
  LET peerAddrs == {e.peers[i].a : i \in 1..Len(e.peers)} IN
  /\ \A i \in 1..Len(e.peers) :
        {e.claims[k].r : k \in {k \in 1..Len(e.claims) : e.claims[k].p = e.peers[i].a}} = SeqSet(e.peers[i].expect)
  /\ \A k \in 1..Len(e.claims) : e.claims[k].p \in peerAddrs
  /\ \A k \in 1..Len(e.cache) : e.cache[k].p \in peerAddrs

\* C05 (node level): after an adversarial phase (loss, duplication, delay up to 90 s, either or both sides dialling) the
\* nodes are mutually connected again within the peer timeout plus the handshake retry horizon once delivery is reliable,
\* and payload flows in both directions
C05RunOK(e) == /\ e.panics = 0
               /\ e.reconnect_after >= 0 /\ e.reconnect_after <= e.peer_timeout + 120 + 2
               /\ e.deliveries = e.expected_deliveries

Step(e) ==
  CASE e.op = "c09run"  -> C09RunOK(e)
    [] e.op = "c05run" -> C05RunOK(e)
    [] e.op = "c12dump" -> C12DumpOK(e)
    [] e.op = "c12send" -> FALSE                 \* a payload datagram went to an address that is not a peer
    [] e.op = "c12end" -> e.panics = 0
    [] e.op = "meshrun" -> MeshRunOK(e)
    [] e.op = "selfdial" -> SelfDialOK(e)
    [] e.op = "interval" -> IntervalEvOK(e)
    [] e.op = "hetero" -> HeteroOK(e)
    [] e.op = "latejoin" -> LateJoinOK(e)
    [] e.op = "silence" -> SilenceOK(e)
    [] e.op = "backoff" -> BackoffOK(e)
    [] e.op = "c09skip" -> TRUE
    [] e.op = "nodefam" -> NodeFamOK(e)
    [] e.op = "trustrun" -> TrustRunOK(e)
    [] OTHER -> FALSE

Init == l = 1
Next == l <= N /\ l' = l + 1 /\ Step(Rec[l])
Spec == Init /\ [][Next]_l
Accepted == IF TLCGet("stats").diameter - 1 = N THEN TRUE
            ELSE Print(<<"REJECTED", TLCGet("stats").diameter, Rec[TLCGet("stats").diameter]>>, FALSE)
=============================================================================
