\* expected to FAIL: without forcing the opposite nonce half a reflected datagram opens at its own sender.
\* checks/c02.py requires TLC to refute MechanismMeetsRule here (the specification has teeth).
SPECIFICATION MCSpec
CONSTANTS Ends = {1, 2, 3}
          Slots = {0, 1}
          KeyIds = {0, 1, 2}
          Payloads = {"p", "q"}
          MaxGen = 2
          MaxSeals = 2
          HalfForced = FALSE
          KeyIdAliased = FALSE
          MaxRot = 1
INVARIANT TypeOK
INVARIANT MechanismMeetsRule
INVARIANT NothingDeliveredFromBad
INVARIANT DeliveredIdentical
INVARIANT PendingOpens
INVARIANT WireHidesCleartext
CHECK_DEADLOCK FALSE
