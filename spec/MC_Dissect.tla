------------------------------ MODULE MC_Dissect ------------------------------
(* Design run for Dissect: an exhaustively enumerated universe of byte strings on which the property formulas of the
   reference operators are checked.  A state is one input (op, data).  Initial states: position-tagged content of
   every length 0..MaxLen for every content offset k.  Steps overwrite the fields the dissectors branch on:
     base -> typed      ethertype (offset 12)            frames of length >= 14
     typed -> tagged    tag control (offset 14)          frames with ethertype 0x8100 of length >= 16
     tagged -> nested   a second tag (offsets 16..19)    frames of length >= 20
     base -> versioned  version nibble of byte 0         packets of length >= 1
   At the lengths in SweepLens (and offsets in SweepKs) the tag control step - and with SweepEtherTypes = TRUE the
   ethertype step - runs over all 65536 values, elsewhere over the representative sets EtherTypes / TagControls. *)
EXTENDS Dissect, TLC
CONSTANTS MaxLen, Offsets, EtherTypes, TagControls, SweepLens, SweepKs, SweepEtherTypes
VARIABLES op, k, data, stage
mcvars == <<op, k, data, stage>>

PutU16(b, off, v) == [b EXCEPT ![off + 1] = v \div 256, ![off + 2] = v % 256]
Sweeping == Len(data) \in SweepLens /\ k \in SweepKs
EtherTypesHere == IF Sweeping /\ SweepEtherTypes THEN 0..65535 ELSE EtherTypes
TagControlsHere == IF Sweeping THEN 0..65535 ELSE TagControls

MCInit == /\ op \in {"frame", "packet"}
          /\ k \in Offsets
          /\ \E n \in 0..MaxLen : data = Tagged(n, k)
          /\ stage = "base"

SetEtherType == /\ op = "frame" /\ stage = "base" /\ Len(data) >= 14
                /\ \E et \in EtherTypesHere : data' = PutU16(data, 12, et)
                /\ stage' = "typed" /\ UNCHANGED <<op, k>>
SetTagControl == /\ op = "frame" /\ stage = "typed" /\ Len(data) >= 16 /\ EtherType(data) = TagEtherType
                 /\ \E tci \in TagControlsHere : data' = PutU16(data, 14, tci)
                 /\ stage' = "tagged" /\ UNCHANGED <<op, k>>
SetNested == /\ op = "frame" /\ stage = "tagged" /\ Len(data) >= 20 /\ TagControl(data) \in TagControls
             /\ \E et \in {33024, 34984, 37120}, tci \in TagControls :   \* 0x8100, 0x88a8, 0x9100
                   data' = PutU16(PutU16(data, 16, et), 18, tci)
             /\ stage' = "nested" /\ UNCHANGED <<op, k>>
SetVersion == /\ op = "packet" /\ stage = "base" /\ Len(data) >= 1
              /\ \E v \in 0..15 : data' = [data EXCEPT ![1] = v * 16 + (@ % 16)]
              /\ stage' = "versioned" /\ UNCHANGED <<op, k>>

MCNext == SetEtherType \/ SetTagControl \/ SetNested \/ SetVersion
MCSpec == MCInit /\ [][MCNext]_mcvars

Holes == CASE stage = "base" -> {}
           [] stage = "typed" -> {12, 13}
           [] stage = "tagged" -> {12, 13, 14, 15}
           [] stage = "nested" -> {12, 13, 14, 15, 16, 17, 18, 19}
           [] stage = "versioned" -> {0}

UniverseOK == IsBytes(data) /\ Len(data) <= MaxLen /\ IsPosTagged(data, k, Holes)
TotalOK == FrameTotal(data) /\ PacketTotal(data)
RejectOK == FrameRejectIff(data) /\ PacketRejectIff(data)
\* (the overwritten offsets of the other family's steps lie inside its address fields, hence per op)
PositionsOK == IF op = "frame" THEN FramePositions(data, k) ELSE PacketPositions(data, k)
HeaderOnlyOK == FrameHeaderOnly(data) /\ PacketHeaderOnly(data)
TightOK == OKTight(data)
\* the tagged stage really produces 8-byte addresses whose prefix is the 12-bit id, every id is reachable
TagOK == stage = "tagged" =>
           LET r == FrameParse(data) IN
           /\ Len(r.src) = 8 /\ r.src[1] < 16
           /\ r.src[1] * 256 + r.src[2] = TagControl(data) % 4096
           /\ VlanKey(TagControl(data)) \in 0..4095

\* "additional nested tags will be ignored"; an ethertype other than 0x8100 does not change the answer
NestedIgnored == [][stage' = "nested" => FrameParse(data') = FrameParse(data)]_mcvars
TypeIrrelevant == [][(stage' = "typed" /\ EtherType(data') # TagEtherType) => FrameParse(data') = FrameParse(data)]_mcvars
\* version nibbles other than 4 and 6 reject, 4 and 6 depend on the length only
VersionRule == [][stage' = "versioned" =>
                    (PacketParse(data') # Reject <=> \/ Version(data') = 4 /\ Len(data') >= 20
                                                     \/ Version(data') = 6 /\ Len(data') >= 40)]_mcvars
=============================================================================
