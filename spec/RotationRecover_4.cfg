SPECIFICATION RSpec
CONSTANTS LossyMaxId = 3
          MaxNet = 3
          MaxRounds = 5
          RecoverRounds = 4
INVARIANT Recovers
INVARIANT Safe
CONSTRAINT Bound
VIEW View
CHECK_DEADLOCK FALSE
