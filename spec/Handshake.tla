------------------------------ MODULE Handshake ------------------------------
(***************************************************************************)
(* The signed three-way handshake between two endpoints over a network     *)
(* that loses, duplicates, reorders and delays, with an attacker who can   *)
(* replay anything ever sent, alter genuine datagrams and sign messages    *)
(* with keys of his own.  Object semantics: HsObj.tla.                     *)
(*                                                                         *)
(* Properties: C05 (Agreement, AtMostOnce, recovery), C01 (AuthOnly,       *)
(* MutualTrust, RecvBad changes nothing), C04 (HalvesDisjoint),            *)
(* C06 (both ends select the same admissible cipher).                      *)
(***************************************************************************)
EXTENDS HsObj, TLC

CONSTANTS Objs,          \* {"A", "B"}
          Attr           \* Attr[o]: [node, rank, key, algos, plain, payload] (trusted keys are a variable so that
                         \* TLC can enumerate trust relations)
Other(o) == CHOOSE p \in Objs : p # o

VARIABLES obj,       \* obj[o]: the handshake object (a value of HsObj)
          trusted,   \* trusted[o]: set of keys o accepts (chosen in Init, constant afterwards)
          alive,     \* alive[o]: FALSE once a fatal error destroyed the object (the node deletes the pending entry)
          done,      \* done[o]: number of completions reported by o
          role,      \* "none" | "init" | "resp"
          got,       \* payload received on completion
          rotSent,   \* number of rotation messages emitted on completion (the responder of an encrypted session starts rotation)
          gen,       \* ECDH generations handed out so far
          net,       \* handshake datagrams in flight (a set: delivery does not remove, so duplication/reordering are free)
          sentSeq    \* history: every datagram ever emitted, in emission order (what an attacker may have captured)

vars == <<obj, trusted, alive, done, role, got, rotSent, gen, net, sentSeq>>

TrustChoices == [Objs -> SUBSET {Attr[o].key : o \in Objs}]

InitWith(tr) ==
  /\ trusted = tr
  /\ obj = [o \in Objs |-> NewObj(Attr[o].node, Attr[o].rank, Attr[o].key, tr[o], Attr[o].algos, Attr[o].plain, Attr[o].payload)]
  /\ alive = [o \in Objs |-> TRUE]
  /\ done = [o \in Objs |-> 0]
  /\ role = [o \in Objs |-> "none"]
  /\ got = [o \in Objs |-> None]
  /\ rotSent = [o \in Objs |-> 0]
  /\ gen = 0
  /\ net = {}
  /\ sentSeq = <<>>

Init == \E tr \in TrustChoices : InitWith(tr)

Emit(out) == /\ net' = net \cup {out[i] : i \in 1..Len(out)}
             /\ sentSeq' = sentSeq \o out

\* install the result of Initiate / Handle at o
Apply(o, r) ==
  /\ obj' = [obj EXCEPT ![o] = r.obj]
  /\ alive' = [alive EXCEPT ![o] = r.res # "fatal"]
  /\ done' = [done EXCEPT ![o] = IF r.res \in {"succI", "succR"} THEN @ + 1 ELSE @]
  /\ role' = [role EXCEPT ![o] = IF r.res = "succI" THEN "init" ELSE IF r.res = "succR" THEN "resp" ELSE @]
  /\ got' = [got EXCEPT ![o] = IF r.res \in {"succI", "succR"} THEN r.payload ELSE @]
  /\ rotSent' = [rotSent EXCEPT ![o] = IF r.res = "succR" /\ r.obj.sel # Plain THEN @ + 1 ELSE @]
  /\ Emit(r.out)
  /\ UNCHANGED trusted

StartHs(o) ==
  /\ alive[o] /\ obj[o].stage = "fresh"
  /\ gen' = gen + 1
  /\ Apply(o, Initiate(obj[o], gen + 1))

\* delivery of a datagram (genuine, or a replay / duplicate: net never shrinks by delivery)
RecvMsg(o, m) ==
  /\ alive[o]
  /\ LET r == Handle(obj[o], m, gen + 1) IN
     /\ gen' = IF r.obj.ecdh = None /\ r.obj.stage = "awaitPeng" /\ obj[o].stage # "awaitPeng" THEN gen + 1 ELSE gen  \* a pong was built
     /\ Apply(o, r)
Recv(o, m) == m \in net /\ RecvMsg(o, m)

\* anything whose signed content was not produced with a key o trusts: an altered copy of a genuine datagram
\* (bit flip, truncation, field edit) or a well-formed message signed with an untrusted key.
\* The specification's requirement for all of them: nothing changes, nothing is sent.
Forged(o) == {[m EXCEPT !.intact = FALSE] : m \in net} \cup
             {[st |-> s, node |-> "X", rank |-> 0, g |-> <<0>>, algos |-> <<<<>>, FALSE>>, enc |-> None, signer |-> "kX", intact |-> TRUE] : s \in 1..3}
RecvBad(o, m) ==
  /\ alive[o] /\ ~Verifies(obj[o], m)
  /\ Handle(obj[o], m, gen + 1).res = "err"
  /\ UNCHANGED vars

Tick(o) ==
  /\ alive[o] /\ obj[o].stage # "closing"
  /\ LET r == TickObj(obj[o]) IN
     /\ obj' = [obj EXCEPT ![o] = r.obj]
     /\ alive' = [alive EXCEPT ![o] = r.res # "fatal"]
     /\ Emit(r.out)
  /\ UNCHANGED <<trusted, done, role, got, rotSent, gen>>

\* leap: as many ticks as it takes to stand one tick before the retry limit / the end of the linger period
\* (the datagram repeated on each of these ticks is the same, so the network is as after one repetition)
TickJump(o) ==
  /\ alive[o]
  /\ \/ /\ obj[o].stage \in {"awaitPong", "awaitPeng"} /\ obj[o].retries < MAX_RETRIES - 1
        /\ obj' = [obj EXCEPT ![o].retries = MAX_RETRIES - 1]
        /\ Emit(<<obj[o].last>>)
     \/ /\ obj[o].stage = "waitClose" /\ obj[o].closeT > 1
        /\ obj' = [obj EXCEPT ![o].closeT = 1]
        /\ UNCHANGED <<net, sentSeq>>
  /\ UNCHANGED <<trusted, alive, done, role, got, rotSent, gen>>

Drop(m) == /\ m \in net /\ net' = net \ {m}
           /\ UNCHANGED <<obj, trusted, alive, done, role, got, rotSent, gen, sentSeq>>

Next == \/ \E o \in Objs : StartHs(o) \/ Tick(o) \/ TickJump(o)
        \/ \E o \in Objs : \E m \in net : Recv(o, m)
        \/ \E o \in Objs : \E m \in Forged(o) : RecvBad(o, m)
        \/ \E m \in net : Drop(m)

Spec == Init /\ [][Next]_vars

-----------------------------------------------------------------------------
\* the closed form of n ticks agrees with n single ticks on every reachable object
TickManyOK == \A o \in Objs : \A n \in 0..4 : TickManyAgrees(obj[o], n)

Completed(o) == done[o] >= 1
Both == \A o \in Objs : Completed(o)

\* C05: two ends that both completed hold the same key and cipher, opposite roles and halves, exactly one of them
\* starts rotation (none in a plain session), each got what the other offered
Agreement ==
  Both => LET a == CHOOSE o \in Objs : TRUE
              b == Other(a) IN
          /\ obj[a].sel = obj[b].sel
          /\ obj[a].sel # Plain => /\ obj[a].core.k = obj[b].core.k
                                     /\ obj[a].core.algo = obj[b].core.algo
                                     /\ obj[a].core.half # obj[b].core.half
          /\ role[a] # role[b]
          /\ rotSent[a] + rotSent[b] = (IF obj[a].sel = Plain THEN 0 ELSE 1)
          /\ got[a] = Attr[b].payload /\ got[b] = Attr[a].payload
AtMostOnce == \A o \in Objs : done[o] <= 1

\* C04: the two ends of a completed connection seal in different halves (also after a role switch)
HalvesDisjoint == Both /\ obj[CHOOSE o \in Objs : TRUE].sel # Plain =>
                    \A o \in Objs : obj[o].core.half # obj[Other(o)].core.half

\* C06: the cipher both ends selected is one the property admits
CipherOK == \A o \in Objs : Completed(o) =>
              obj[o].sel \in Admissible(Attr[o].algos, Attr[o].plain, Attr[Other(o)].algos, Attr[Other(o)].plain)

\* C01 (safety half): an end completes only with a peer whose key it trusts; with only these two parties on the
\* network both ends complete only if each trusts the other's key
AuthOnly == \A o \in Objs : Completed(o) => Attr[Other(o)].key \in trusted[o]
MutualTrust == Both => \A o \in Objs : Attr[Other(o)].key \in trusted[o]
\* a fatal error or a completion is never caused by an unverifiable datagram: RecvBad leaves everything unchanged
BadChangesNothing == [][\A o \in Objs : \A m \in Forged(o) : RecvBad(o, m) => UNCHANGED vars]_vars

-----------------------------------------------------------------------------
(* C05 recovery / C01 liveness half: when delivery is reliable (no Drop) and both trust each other, an initiated
   handshake completes at both ends.  Checked under fairness without state constraint on small constants. *)
Mutual == \A o \in Objs : Attr[Other(o)].key \in trusted[o]
Fairness == /\ \A o \in Objs : WF_vars(Tick(o))
            /\ \A o \in Objs : WF_vars(\E m \in net : Recv(o, m) /\ obj'[o] # obj[o])
LiveNext == \/ \E o \in Objs : StartHs(o) \/ Tick(o)
            \/ \E o \in Objs : \E m \in net : Recv(o, m)
LiveSpec == Init /\ [][LiveNext]_vars /\ Fairness
EventuallyBoth == (Mutual /\ \E o \in Objs : obj[o].stage # "fresh") ~> (Both \/ \E o \in Objs : ~alive[o])
=============================================================================
