SPECIFICATION MCSpec
CONSTANTS MAX_RETRIES = 3
          CLOSE_TIME = 2
          Objs <- MCObjs
          Attr <- MCAttr
          MaxGen = 6
          MaxNet = 5
          RankHigh = "B"
          TrustMode = "mutual"
          WithBad = TRUE
          AlgoMode = "tie"
INVARIANT TickManyOK
INVARIANT Agreement
INVARIANT AtMostOnce
INVARIANT HalvesDisjoint
INVARIANT CipherOK
INVARIANT AuthOnly
INVARIANT MutualTrust
PROPERTY BadChangesNothing
VIEW View
CHECK_DEADLOCK FALSE
CONSTRAINT Bound
