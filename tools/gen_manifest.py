#!/usr/bin/env python3
"""Regenerates /verif/MANIFEST.json from the table below (single source of truth for the interface)."""
import json, os
ROOT = os.path.dirname(os.path.dirname(os.path.abspath(__file__)))

CLOUD_SUFFIX = (" In addition every driver call of whole-node runs (seeded scenarios with a focus chosen for this property and a sample of the "
                "check's own node-level plans) is one event validated by TLC against Cloud.tla (Trace_Cloud: the state after the call must be the "
                "successor the specification prescribes, aspect by aspect; only the rules stating this property are enforced).")
CLOUD_PROPS = {"C01", "C02", "C05", "C08", "C09", "C10", "C11", "C12", "C13", "C14", "C15"}
CLOUD_DESIGN = {"C05", "C12", "C14", "C15"}

CHECKS = {
    "C03": dict(
        text="TLC explores every interleaving of seal/deliver-again/tamper/tick/rotate of NonceWindow.tla within small bounds and checks the "
             "history-based window rule; every transition of that graph is executed on real CryptoCore pairs (3 ciphers) and the recorded "
             "traces plus seeded random 400-step histories and sessions with rotation are validated by TLC against the same specification; at node level 2-3 whole "
             "mock-backed nodes exchange frames, every sealed datagram of every direction is re-injected 0..5 housekeeping rounds after its first delivery "
             "(also next to a replayed handshake ping, also delayed) and TLC judges every arrival per direction with the same rule.",
        note="AEAD treated as perfect; bounds: 4-5 datagrams, 4-5 ticks, 2 slots at design level, all 4 slots in random histories; tick = CryptoCore::every_second",
        technique="TLA+ spec NonceWindow + TLC exhaustive; transition-cover replay on real CryptoCore; TLC trace validation (object, session and node level)",
        design_ref="DESIGN.md 3.1, 6 (C03)"),
    "C04": dict(
        text="TLC checks the counter algebra of Nonce.tla exhaustively for radix 4 (increment = +1 with carry, strictly increasing, a counter beyond the "
             "transmitted digits cannot be opened) and validates, with the real radix 256, Nonce::increment on every byte-carry boundary pattern, real seals "
             "placed around the 56-bit limit, and the seal log (key fingerprint, 12-byte nonce) of whole connection lifetimes with handshakes by either or both sides, "
             "payload and rotations: per (end, key) strictly increasing, the two ends in different halves, a new key starts a fresh sequence.",
        note="key identity = fingerprint hook; unpredictability only as pairwise-distinct starts; halves over all handshake schedules are decided in Handshake.tla (C05 check)",
        technique="TLA+ spec Nonce (+NonceWindow, Handshake) + TLC; seal-log hook; TLC trace validation",
        design_ref="DESIGN.md 3.1, 6 (C04)"),
    "C07": dict(
        text="TLC explores Rotation.tla exhaustively (message ids <= 9, loss/duplication/reordering/delay, any relative timing) for SealKeyHeldByPeer, the reliable "
             "sub-specification for freshness and RotationRecover for 'loss only postpones'; every transition of the ids<=5 graph is executed on real PeerCrypto pairs after "
             "a real handshake (120 every_second calls per cycle, real sealed rotation datagrams) and TLC validates these runs plus per-second random fault runs: "
             "emission per cycle, key id in use, identical key material at the peer (fingerprints), every probe opens, key change within the bound.",
        note="ECDH/AEAD perfect; fingerprint hook; rotation interval 120 every_second calls; recovery bound 6 intervals after a lossy phase",
        technique="TLA+ spec Rotation + TLC exhaustive; transition-cover replay on real PeerCrypto pairs; TLC trace validation",
        design_ref="DESIGN.md 3.4, 6 (C07)"),
    "C16": dict(
        text="Codec.tla states encode/decode/normalise for node-info, handshake and rotation messages at part level; TLC checks round trip, unknown-part skipping and totality "
             "over all short part sequences; the real codecs are driven through generated messages with unknown parts spliced at every position (re-signed for handshake "
             "messages) and through truncation / substitution / random / stale-tail families under panic capture; TLC judges every recorded event with the spec operators.",
        note="byte-level layout stays in the harness; allocation bounded by construction (u16/u8 length fields), wall time per decode measured",
        technique="TLA+ reference operators (Codec) + TLC; generated round trips and decoder families on real code; TLC trace validation",
        design_ref="DESIGN.md 3.7, 6 (C16); docs/C16.md"),
    "C19": dict(
        text="Dissect.tla gives reference dissectors written from the header layouts; TLC checks totality/positions on a small universe and judges every recorded call of the real "
             "Frame::parse / Packet::parse: all lengths 0..64 with random and position-tagged contents, ethertype and tag-control sweeps, nested tags, all version nibbles around the limits.",
        note="VLAN id 0 (folded or not) and 0x8100 frames of 16-17 bytes are don't-cares of C19; quick tier sweeps ethertypes at a stride, thorough covers all 65536",
        technique="TLA+ reference operators (Dissect) + TLC; input families on real dissectors; TLC trace validation",
        design_ref="DESIGN.md 3.7, 6 (C19); docs/C19.md"),
    "C20": dict(
        text="ConfigMerge.tla states the overlay rule per option kind (scalar, optional, flag, accumulating list, per-key map), the file round trip and the netmask rule; TLC enumerates all "
             "presence combinations per option and pairwise; the real merge_file/merge_args/into_config_file are driven through structs, real YAML and real argument vectors with a distinct "
             "symbolic value per (option, source), parse_ip_netmask over prefixes 0..40 and malformed strings; TLC judges every recorded event.",
        note="35-option table derived from config.rs and vpncloud.adoc; lists compared as bags; '/0' must give mask 0.0.0.0 or an error, never a panic",
        technique="TLA+ spec ConfigMerge + TLC; symbolic-value merge runs on real code; TLC trace validation",
        design_ref="DESIGN.md 3.7, 6 (C20); docs/C20.md"),
    "C05": dict(
        text="TLC checks Handshake.tla (objects as in HsObj.tla) for Agreement, AtMostOnce, HalvesDisjoint, CipherOK, AuthOnly over all schedules of {initiate by either/both, deliver any "
             "in-flight datagram again, drop, tick, leap} with the code's 120/60 timer constants, both hash orders, cipher ties, plain sessions and all trust relations; every transition of the "
             "boundary-restricted graphs is executed on real PeerCrypto<NodeInfo> pairs and TLC validates these runs and random depth-200 schedules: result kind and emission of every call, stage, "
             "completion counts, cipher, nonce half, payload, rotation starter, cross-decryption probes.",
        note="crypto symbolic in the spec; object level = one attempt per object; liveness stated but not model-checked (unbounded history), recovery deadline is checked on node-level traces",
        technique="TLA+ spec Handshake/HsObj + TLC exhaustive; transition-cover replay on real PeerCrypto pairs; TLC trace validation",
        design_ref="DESIGN.md 3.2, 6 (C05)"),
    "C17": dict(
        text="Beacon.tla/Base62.tla state the age window in 16-bit wrapping arithmetic and extraction over token sequences; TLC checks all 65536 stamps x 7 limits and every token sequence up to "
             "length 5; the real BeaconSerializer is driven over address lists x all hour stamps x passwords, embeddings with separators, partial and overlapping markers, other passwords and "
             "expired stamps; TLC judges every recorded event.",
        note="probabilistic facts (1-byte seed) are not asserted; junk containing a marker is regenerated; one recorded known finding (leading zero byte of the masked body)",
        technique="TLA+ reference operators (Beacon, Base62) + TLC; input families on real code; TLC trace validation",
        design_ref="DESIGN.md 3.7, 6 (C17); docs/C17.md"),
    "C18": dict(
        text="Keys.tla/Base62.tla state the text codec as a number conversion with fixed-width re-padding and the life cycle generate -> print -> configure(role) -> use; TLC checks the codec on all "
             "byte strings of length <= 2 and all seed classes x roles; real seeds with 0..2 leading zero bytes (chosen and found by password search), random seeds and dictionary passwords are "
             "printed as key generation prints them, configured as private / private+public / trusted key and used in a real handshake; TLC judges every recorded event.",
        note="public keys with 3-4 leading zero bytes are only covered at design level (not findable by search)",
        technique="TLA+ reference operators (Keys, Base62) + TLC; key life cycle on real code; TLC trace validation",
        design_ref="DESIGN.md 3.7, 6 (C18); docs/C18.md"),
    "C01": dict(
        text="TLC checks Handshake.tla for AuthOnly / MutualTrust over every trust relation (party keys + bystander key) and Node.tla for BadIsStutter; on real mock-backed nodes every "
             "single-bit flip, truncation and field edit of the genuine ping/pong/peng, random marker datagrams and messages signed with an untrusted key are presented in every handshake "
             "stage with three receive-buffer residues and two claimed sources, the genuine datagram must still work afterwards, and all trust relations among 3 keys (sampled among 4) "
             "must give peers exactly for mutual trust; TLC judges every family / trust record.",
        note="signatures/hashes not attacked; per-member predicate applied in the harness, TLC judges family records; one recorded known finding (stale receive-buffer tail)",
        technique="TLA+ specs Handshake/Node + TLC; exhaustive tamper families and trust graphs on real nodes; TLC record validation",
        design_ref="DESIGN.md 3.2, 3.6, 6 (C01)"),
    "C08": dict(
        text="Node.tla: an unverifiable datagram is a stuttering step in every reachable state (TLC, scaled timers). On real mock-backed nodes with one reused receive buffer, families "
             "(lengths 0..80 x structured first bytes, every truncation / byte substitution of genuine handshake, data, node-info and rotation datagrams, structured handshake parts behind a "
             "genuine key-hash prefix, random datagrams up to the buffer size, sequences of 50) are presented in six receiver states from the peer's and an unknown address under panic capture; "
             "TLC judges every family record.",
        note="per-member predicate applied in the harness; plain sessions: only 'no panic' for datagrams from the peer's address; largest datagram 65435 bytes",
        technique="TLA+ spec Node + TLC; exhaustive input families on real nodes under catch_unwind; TLC record validation",
        design_ref="DESIGN.md 3.6, 6 (C08)"),
    "C09": dict(
        text="TLC explores Node.tla (pending table in front of the peer table, throw-away responders, hand-over, removal and re-dial, attacker replaying anything ever sent) for NoLoss / "
             "StaysConnected / SameSession and requires the variant with the pinned tree's dispatch to be refuted; on real mock nodes with the real timer constants every datagram seen on the "
             "wire of a 2- and 3-node mesh is re-injected at every offset, from three claimed sources, verbatim and edited, each followed by 400 s of probes; TLC judges every run record.",
        note="scaled timers at design level, real constants in recorded runs; attacker holds no trusted key",
        technique="TLA+ spec Node + TLC exhaustive (+ required refutation of the unrepaired dispatch); systematic injection plan on real nodes; TLC record validation",
        design_ref="DESIGN.md 3.6, 6 (C09)"),
    "C02": dict(
        text="Envelope.tla states when a sealed datagram opens (intact, sealed for this connection by the other end, slot holds its key, inside the window) and TLC checks it for a 3-end mesh "
             "with every tamper class, reflection and cross-connection injection (variants without nonce halves / with key ids modulo 4 must be refuted); on real CryptoCore pairs and "
             "PeerCrypto sessions: payload lengths 0..300 and sampled to 9000, all ciphers and negotiated combinations, buffer offsets, every bit flip and truncation, reflection, every ordered "
             "pair of connections of three ends, cleartext search of sealed datagrams, contents of all key slots (equal material exactly where Envelope!KeyAt is equal), datagrams sealed by an outsider under constant keys with every key id and half, and fresh genuine datagrams 0..4 housekeeping ticks after rejected ones (no lasting effect); TLC judges every recorded case / family.",
        note="AEAD perfect in the spec; tamper = single bits and truncations, not all modifications; node-level interface-queue part is covered by C08/C09/C10 records",
        technique="TLA+ spec Envelope + TLC (+ required refutations); exhaustive tamper families on real cores and sessions; TLC trace validation",
        design_ref="DESIGN.md 6 (C02); docs/C02.md"),
    "C06": dict(
        text="TLC enumerates every pair of advertised cipher lists (orderings x speed grid x plain flags) and checks that the identity tie-break rule yields the same admissible cipher at "
             "both ends (the list-order rule must be refuted); real handshakes with prescribed speeds for every pair of advertised sets x orderings x initiator, and every single-field edit "
             "of the cipher list in a genuine ping/pong, are judged by TLC with Negotiate!OutcomeOK; both ends are offered an unsealed message at every stage of every handshake "
             "(Negotiate!UnsealedProbesOK: taken only after a handshake that agreed on Plain).",
        note="NaN speeds excluded; a node cannot advertise an empty set except 'plain only'; speeds mapped order-preservingly to f32 incl. zero, ties and f32::MAX",
        technique="TLA+ spec Negotiate + TLC exhaustive; real handshakes with the speed hook; TLC trace validation",
        design_ref="DESIGN.md 3.3, 6 (C06); docs/C06.md"),
    "C10": dict(
        text="Forward.tla (data plane of a full mesh: interface read -> one copy per selected peer, payload delivery -> one interface write and nothing sent, learning and expiry) is checked "
             "by TLC for NoRelay / ExactlyOnce / NoAmplification in switch, hub and router mode; TLC schedules and random 300-step sequences on real 3-5 node meshes are replayed through the "
             "specification's own actions (Trace_Forward): admissible target set of every interface read, byte-identical single delivery, no relaying, control traffic never reaches an interface, "
             "exactly-once at quiescence.",
        note="payload delivered within the second it was sent; stable full mesh apart from explicit leave events",
        technique="TLA+ spec Forward + TLC exhaustive; schedule replay and random sequences on real meshes; TLC trace validation",
        design_ref="DESIGN.md 3.6, 6 (C10)"),
    "C13": dict(
        text="Forward.tla with VLAN keys (priority tags counted as untagged), last-writer-wins learning, expiry and leaves is checked by TLC (OneHopPerAddr, LearnedArePeers, "
             "OnlySwitchLearns); frame sequences over 3 MACs x 5 VLAN tags x 16 PCP/DEI nibbles x nested tags with time steps around the switch timeout and leaves on real 3-4 node "
             "meshes are replayed through the specification (the next hops of every frame must be what learning admits; hub/router keep flooding/dropping); all 65536 tag-control values.",
        note="switch timeout 10 s in recorded runs; the tick at exactly t0+timeout is a don't-care; table-level learning is shared with C11/C12 (tablecommon)",
        technique="TLA+ spec Forward + TLC; random frame sequences on real meshes; TLC trace validation",
        design_ref="DESIGN.md 3.5, 3.6, 6 (C13)"),
    "C14": dict(
        text="Mesh.tla: TLC enumerates every bootstrap configuration (directed dial instructions x NAT subsets that leave the graph connectable) on 2-4 nodes and checks full mesh after "
             "ceil(log2 n)+1 rounds and no self-link; the same initial states are the configurations run on real mock nodes (all n<=3, sample/all of 37508 for n=4, sampled 5-8 node graphs), "
             "plus self-dial scenarios with looped-back and port-forwarded addresses; TLC judges every run record (deadline, stability, no self-peer, own address adopted and never dialled).",
        note="default settings (interval 90 s); mock NAT filter; dial instructions are configured peers",
        technique="TLA+ spec Mesh + TLC (configuration enumerator); every configuration executed on real nodes; TLC record validation",
        design_ref="DESIGN.md 3.6, 6 (C14)"),
    "C15": dict(
        text="Interval.tla: TLC checks the announcement-interval rule against IntervalOK for every advertised timeout x the grid of own settings; on real nodes every scheduling of the next "
             "announcement is observed for own timeouts/keepalives from the grid x advertised timeouts (0..300 + boundaries, all 65536 in thorough) x peer sets, heterogeneous meshes and late "
             "joiners must never time anybody out, silence injected at every second of a window must lead to removal with routes exactly one tick after the timeout and a re-dial, and 48 h "
             "against an unreachable configured peer must keep dialling with gaps <= 1 h; TLC judges every record.",
        note="last refresh read from the node's expiry field; delay 0 counts as <= 1 s; timeouts >= 1 in heterogeneous meshes",
        technique="TLA+ spec Interval + TLC; systematic plans on real nodes; TLC record validation",
        design_ref="DESIGN.md 3.7, 6 (C15)"),
    "C11": dict(
        text="Prefix.tla (four equivalent statements of 'base/plen contains addr' checked against each other on the complete 8-bit universe) and Table.tla (claims, decision cache, "
             "learning, expiry; LookupIsLPM, CacheBounded) are checked by TLC over all operation sequences to length 4-6; every exported transition is executed once on the real ClaimTable "
             "(tree replay) plus random 300-step sequences, and TLC validates lookup results and dumps after every call; Range::matches is validated on the embedded 8-bit universe, 16-bit rows, "
             "random long addresses and length mismatches; router meshes of real nodes with nested claims are replayed through Forward.tla.",
        note="ties between equal prefix lengths admit any tied peer; remaining lifetimes are judged by presence after later sweeps (boundary tick follows the dump); dropped-payload counter not read",
        technique="TLA+ specs Table/Prefix/Forward + TLC exhaustive; transition-tree replay on the real table; TLC trace validation",
        design_ref="DESIGN.md 3.5, 6 (C11); docs/C11.md"),
    "C12": dict(
        text="Table.tla (ClaimsAreLastAnnouncement, NextHopsArePeers) over announcement sequences on all subsets and orders of a 4-claim universe incl. duplicates, replayed on the real "
             "ClaimTable; on real router- and switch-mode meshes peers restart on the same address with other claims, fall silent, close, or have a replayed handshake fail, interleaved with "
             "traffic and time, and after every step every node's table dump is judged by TLC against its peer list (claims = last announcement of that peer instance; every claim, cached "
             "decision and learned address points at a current peer; no payload to a non-peer).",
        note="peer timeout 130 s in recorded runs; expected claims = configuration of the node instance whose node id the peer entry carries",
        technique="TLA+ spec Table + TLC; transition-tree replay; scenario runs on real meshes with TLC record validation",
        design_ref="DESIGN.md 3.5, 3.6, 6 (C12)"),
}

PENDING = {}
for i in range(1, 21):
    pid = "C%02d" % i
    if pid not in CHECKS:
        PENDING[pid] = "check not built yet in this session (planned, see DESIGN.md section 6); not claimed until its check exists"

def main():
    checks = []
    for pid in sorted(CHECKS):
        c = CHECKS[pid]
        checks.append({
            "property_id": pid,
            "quick_cmd": "bin/check %s --tier quick" % pid,
            "thorough_cmd": "bin/check %s --tier thorough" % pid,
            "evidence_file": "/verif/evidence/%s.json" % pid,
            "replay_cmd_template": "bin/check %s --replay {path}" % pid,
            "engine": "tla-conformance",
            "level_claimed": {"category": c.get("category", "model_checking"),
                              "text": c["text"] + (CLOUD_SUFFIX if pid in CLOUD_PROPS else "")
                                      + (" TLC also explores MC_Cloud.tla (Cloud.tla closed with an environment: every delivery order, silence, crash-restart, loss) with the node-level invariants of this property." if pid in CLOUD_DESIGN else ""),
                              "design_ref": c["design_ref"] + (", 3.7" if pid in CLOUD_PROPS else "")},
            "level_note": c["note"],
            "technique": c["technique"] + ("; event-by-event TLC trace validation of whole nodes against Cloud.tla" if pid in CLOUD_PROPS else ""),
        })
    m = {
        "version": 1,
        "setup_cmd": "bin/setup",
        "hooks": {
            "guard": "--cfg dswd_vpncloud_verif",
            "enable": "harness/.cargo/config.toml sets rustflags = [--cfg dswd_vpncloud_verif]; the harness crate include!s /repo/src/main.rs, so every check rebuilds from /repo's working tree with the hooks compiled in",
            "baseline_off_cmd": "cd /repo && cargo test --workspace --no-fail-fast --offline",
            "source_commits": [l.split()[0] for l in os.popen("git -C /repo log --format='%h %s' | grep 'verif hooks'").read().splitlines()],
            "add_only": True,
        },
        "engines": [{
            "name": "tla-conformance",
            "path": "/verif/bin/check",
            "serves_properties": sorted(CHECKS),
            "kind_free_text": "explicit TLA+ specifications (spec/*.tla) checked by TLC; Rust harness (harness/) executes TLC-derived schedules and input families on the real code; TLC validates the recorded traces (Trace_*.tla)",
        }],
        "checks": checks,
        "notes": "All checks: bin/check <ID> --tier quick|thorough. Exit 0 held / 1 VIOLATION / 2 tool error. Known findings: known_findings.json.",
        "not_applicable": [{"property_id": p, "reason": r} for p, r in sorted(PENDING.items())],
    }
    with open(os.path.join(ROOT, "MANIFEST.json"), "w") as f:
        json.dump(m, f, indent=1)
    print("MANIFEST.json: %d checks, %d not claimed" % (len(checks), len(PENDING)))

if __name__ == "__main__":
    main()
