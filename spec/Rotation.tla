------------------------------ MODULE Rotation ------------------------------
(***************************************************************************)
(* Turn-based key rotation on top of the four key slots.                   *)
(*                                                                         *)
(* Code: src/crypto/rotate.rs RotationState::{new, process_message, cycle},*)
(*       src/crypto/common.rs PeerCrypto::{every_second,                   *)
(*       handle_rotate_message}, src/crypto/core.rs CryptoCore::rotate_key.*)
(*                                                                         *)
(* Two ends: "B" is the rotation starter (the handshake responder: it      *)
(* emits rotation message 1 together with the end of the handshake), "A"   *)
(* the handshake initiator.  A key is the unordered pair of the two ECDH   *)
(* generations it was derived from, so "identical key material" is         *)
(* equality.  One action per critical section of the code:                 *)
(*   Cycle(p)      RotationState::cycle + rotate_key of its result         *)
(*   RecvMsg(p,m)  RotationState::process_message + rotate_key             *)
(* Loss, duplication, reordering and delay: messages stay in `net` when    *)
(* delivered (any message can be delivered again, in any order) and Drop   *)
(* removes one.                                                            *)
(***************************************************************************)
EXTENDS Naturals, FiniteSets, Sequences

Ends == {"A", "B"}
Other(p) == IF p = "A" THEN "B" ELSE "A"
None == <<>>

VARIABLES msgId,      \* RotationState.message_id
          proposed,   \* own ECDH generation proposed but not yet confirmed by the peer, or None
          pending,    \* <<key, own generation>>: key derived from the peer's proposal, to be confirmed at next cycle
          confirmed,  \* <<own generation confirmed last, message id>> (for re-sending), or None
          tmo,        \* RotationState.timeout
          slots,      \* slots[p][i]: key held by end p in slot i
          cur,        \* cur[p]: slot end p seals with
          gen,        \* gen[p]: number of ECDH key pairs created by p so far
          net,        \* rotation messages in flight (set: duplicates and reordering are free)
          sentSeq     \* history: every rotation message ever emitted, in order (trace validation refers to messages by index)

vars == <<msgId, proposed, pending, confirmed, tmo, slots, cur, gen, net, sentSeq>>

Key(x, y) == {x, y}
Master == {"master"}                 \* the key agreed by the handshake (slot 0 on both ends)

Msg(to, id, propose, confirm) == [to |-> to, id |-> id, propose |-> propose, confirm |-> confirm]
FirstMsg == Msg("A", 1, <<"B", 1>>, None)

Init ==
  /\ gen = [p \in Ends |-> IF p = "B" THEN 1 ELSE 0]
  /\ msgId = [p \in Ends |-> IF p = "B" THEN 1 ELSE 0]
  /\ proposed = [p \in Ends |-> IF p = "B" THEN <<"B", 1>> ELSE None]
  /\ pending = [p \in Ends |-> None]
  /\ confirmed = [p \in Ends |-> None]
  /\ tmo = [p \in Ends |-> FALSE]
  /\ slots = [p \in Ends |-> [i \in 0..3 |-> IF i = 0 THEN Master ELSE {<<"dummy", p, i>>}]]
  /\ cur = [p \in Ends |-> 0]
  /\ net = {FirstMsg}
  /\ sentSeq = <<FirstMsg>>

Send(m) == net' = net \cup {m} /\ sentSeq' = Append(sentSeq, m)
NoSend == UNCHANGED <<net, sentSeq>>

\* CryptoCore::rotate_key(key, id, use_for_sending)
Install(p, key, id, sending) ==
  /\ slots' = [slots EXCEPT ![p][id % 4] = key]
  /\ cur' = IF sending THEN [cur EXCEPT ![p] = id % 4] ELSE cur

\* what Cycle(p) emits, if anything (used by the trace specification to bind the logged emission)
CycleEmits(p) == \/ (proposed[p] # None /\ tmo[p])
                 \/ (proposed[p] = None /\ pending[p] # None)

Cycle(p) ==
  IF proposed[p] # None
  THEN IF tmo[p]
       THEN \* proposal unconfirmed for a whole cycle: repeat the last message (same id, same keys)
            /\ Send(Msg(Other(p), IF confirmed[p] # None THEN confirmed[p][2] ELSE 1, proposed[p],
                        IF confirmed[p] # None THEN confirmed[p][1] ELSE None))
            /\ UNCHANGED <<msgId, proposed, pending, confirmed, tmo, slots, cur, gen>>
       ELSE /\ tmo' = [tmo EXCEPT ![p] = TRUE]
            /\ NoSend
            /\ UNCHANGED <<msgId, proposed, pending, confirmed, slots, cur, gen>>
  ELSE IF pending[p] # None
       THEN \* our turn: confirm the peer's proposal (install its key for receiving), propose a new one
            LET id == msgId[p] + 2
                g == gen[p] + 1 IN
            /\ msgId' = [msgId EXCEPT ![p] = id]
            /\ gen' = [gen EXCEPT ![p] = g]
            /\ proposed' = [proposed EXCEPT ![p] = <<p, g>>]
            /\ confirmed' = [confirmed EXCEPT ![p] = <<pending[p][2], id>>]
            /\ pending' = [pending EXCEPT ![p] = None]
            /\ Send(Msg(Other(p), id, <<p, g>>, pending[p][2]))
            /\ Install(p, pending[p][1], id, FALSE)
            /\ UNCHANGED tmo
       ELSE UNCHANGED vars            \* still waiting for message 1

\* RotationState::process_message.  Note: the code compares with its OWN message id and does not raise it on receipt.
RecvMsg(p, m) ==
  IF m.id <= msgId[p]
  THEN UNCHANGED vars
  ELSE LET g == gen[p] + 1
           mine == <<p, g>> IN
       /\ gen' = [gen EXCEPT ![p] = g]
       /\ tmo' = [tmo EXCEPT ![p] = FALSE]
       /\ pending' = [pending EXCEPT ![p] = <<Key(mine, m.propose), mine>>]
       /\ IF m.confirm # None /\ proposed[p] # None
          THEN /\ Install(p, Key(proposed[p], m.confirm), m.id, TRUE)
               /\ proposed' = [proposed EXCEPT ![p] = None]
          ELSE UNCHANGED <<slots, cur, proposed>>
       /\ UNCHANGED <<msgId, confirmed, net, sentSeq>>

Recv(p, m) == m \in net /\ m.to = p /\ RecvMsg(p, m)

Drop(m) == /\ m \in net /\ net' = net \ {m}
           /\ UNCHANGED <<msgId, proposed, pending, confirmed, tmo, slots, cur, gen, sentSeq>>

Next == \/ \E p \in Ends : Cycle(p)
        \/ \E p \in Ends : \E m \in net : Recv(p, m)
        \/ \E m \in net : Drop(m)

Spec == Init /\ [][Next]_vars

-----------------------------------------------------------------------------
(* C07 safety: at every instant the key an end seals with is held by its peer under that key id with identical
   key material - for every loss, duplication, reordering, delay and relative timing of the two ends. *)
SealKeyHeldByPeer == \A p \in Ends : slots[p][cur[p]] = slots[Other(p)][cur[p]]

\* message ids never decrease and only own cycles advance them (by two)
IdsMonotone == [][\A p \in Ends : msgId'[p] \in {msgId[p], msgId[p] + 2}]_vars

\* a key is used for sending only after the peer installed it for receiving (the mechanism behind the property)
SendKeyWasConfirmed == \A p \in Ends : cur[p] # 0 => slots[Other(p)][cur[p]] = slots[p][cur[p]]

=============================================================================
