SPECIFICATION Spec
CONSTANTS DataPlane = "off"
          N = 4
          MaxTime = 12
          Silent = 3
          FaultKind = "silent"
          DialKind = "reconnect"
          MAX_RETRIES <- McRetries
          LINGER <- McLinger
          OWN_RESET <- McOwnReset
INVARIANT NodeInvariants
INVARIANT ClaimsAreLastAnnouncement
INVARIANT OwnNeverDialled
INVARIANT FullMeshBy
INVARIANT SilentTimedOut
PROPERTY HealthyNeverTimedOut
CHECK_DEADLOCK FALSE
