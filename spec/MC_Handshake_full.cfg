SPECIFICATION MCSpec
CONSTANTS MAX_RETRIES = 120
          CLOSE_TIME = 60
          Objs <- MCObjs
          Attr <- MCAttr
          MaxGen = 6
          MaxNet = 5
          RankHigh = "A"
          TrustMode = "mutual"
          WithBad = TRUE
          AlgoMode = "normal"
INVARIANT Agreement
INVARIANT AtMostOnce
INVARIANT HalvesDisjoint
INVARIANT CipherOK
INVARIANT AuthOnly
INVARIANT MutualTrust
PROPERTY BadChangesNothing
VIEW View
CHECK_DEADLOCK FALSE
CONSTRAINT Bound
