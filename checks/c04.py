"""C04 - no (key, nonce) pair is ever used twice.

Design level: Nonce.tla (increment = +1 with carry, strictly increasing, a counter that no longer fits the transmitted
digits cannot be opened) exhaustively for radix 4; NonceWindow.tla (SealIncreases); halves: Handshake.tla (C05 check).
Impl -> spec: TLC validates (a) Nonce::increment on every boundary pattern, (b) real seals with the counter placed
around the 56-bit limit, (c) the seal log (key fingerprint, 12-byte nonce) of whole connection lifetimes - handshake
by either side or both, payload both ways, rotations - against Trace_Nonce with the real radix 256."""
import os
import vplib as V

PID = "C04"


def run(tier, out):
    wd = V.workdir(PID)
    quick = tier == "quick"
    V.build_harness()
    d = V.tlc_design("MC_Nonce.tla", "MC_Nonce.cfg", PID, workers=4)
    if d.invariant_violated or d.property_violated:
        out.violation("design|nonce-algebra", "Nonce.tla violates its own algebra", {"tlc": d.out[-2000:]})
    t1 = os.path.join(wd, "trace_families.ndjson")
    s1 = V.harness_json(["nonce", "families", t1])
    t2 = os.path.join(wd, "trace_life.ndjson")
    conns, secs = (12, 700) if quick else (60, 1500)
    s2 = V.harness_json(["nonce", "life", conns, secs, t2])
    validated = 0
    for name, path, summ in (("families", t1, s1), ("lifetimes", t2, s2)):
        v = V.tlc_trace("Trace_Nonce.tla", "Trace_Nonce.cfg", PID, path, summ["events"], sub="trace-" + name)
        if v.accepted:
            validated += summ["runs"]
        else:
            evs = V.read_ndjson(path)
            bad = evs[v.matched] if v.matched < len(evs) else {}
            sig = "nonce|%s" % bad.get("op")
            if bad.get("op") == "sealat":
                sig += "|opened=%s" % bad.get("opened")
            out.violation(sig, "real code deviates from Nonce.tla / seal-log rules: %s; event %s" % (v.reason, bad),
                          {"driver": name, "event": bad, "context": evs[max(0, v.matched - 5):v.matched + 1]})
    seen = {}

    def later_seal(e):
        # a seal that is not the first one of its (end, key): the half must then stay what it was
        if e["op"] != "seal":
            return False
        k = (e["end"], e["key"])
        seen[k] = seen.get(k, 0) + 1
        return seen[k] >= 3 and e["nonce"][0] == 128

    st_desc = V.binding_selftest(out, PID, "Trace_Nonce.tla", "Trace_Nonce.cfg", t2, s2["events"], later_seal,
                                 lambda e: e["nonce"].__setitem__(0, 0), "seal moved into the other half")
    evs = V.read_ndjson(t2)
    cov = {
        "states": d.distinct, "transitions": d.generated,
        "traces_validated_against_impl": validated,
        "samples": [V.read_ndjson(t1)[0], V.read_ndjson(t1)[-1], evs[1] if len(evs) > 1 else {}],
        "evaluations": s1["steps"] + s2["seals"], "distinct_nontrivial": s1["inc"] + s1["sealat"] + s2["seals"],
        "rule": "increment on %d boundary patterns (k trailing 0xff bytes x preceding byte x half), %d seals around the 56-bit limit for 3 ciphers, "
                "seal log of %d connections x %d s (%s): %d seals; each logged seal is a distinct (key, nonce) case" % (
                    s1["inc"], s1["sealat"], conns, secs, s2.get("modes"), s2["seals"]),
        "self_test": st_desc,
    }
    return out.finish("model_checking", cov, assumptions=[
        "key identity = fingerprint (tag of an empty seal under the all-0xff nonce, never used by the protocol)",
        "'unpredictable start' is only checked as: start values of different keys are pairwise distinct in their 6 random bytes (collision 2^-48)",
        "disjoint halves over all handshake schedules are decided in Handshake.tla (HalvesDisjoint, see C05)"])
