SPECIFICATION MCSpec
CONSTANTS R = 4
          L = 6
          T = 3
INVARIANT Algebra
PROPERTY Increasing
CHECK_DEADLOCK FALSE
