------------------------------- MODULE Dissect -------------------------------
(***************************************************************************)
(* Reference dissectors for Ethernet frames and IP packets (C19; the tag   *)
(* key `VlanKey` and `FrameParseFolded` are reused by C13).                *)
(*                                                                         *)
(* Code: src/payload.rs  Frame::parse, Packet::parse; src/types.rs Address *)
(*                                                                         *)
(* Written from the header layouts, not from the Rust control flow:        *)
(*                                                                         *)
(*   Ethernet II   offset 0  destination MAC (6)                           *)
(*                 offset 6  source MAC (6)                                *)
(*                 offset 12 ethertype (2, big endian)                     *)
(*   802.1Q        ethertype 0x8100 is followed by                         *)
(*                 offset 14 tag control (2, big endian):                  *)
(*                           PCP (3 bits) DEI (1 bit) VLAN id (12 bits)    *)
(*   IPv4          offset 0  version (high nibble) = 4, header >= 20 bytes *)
(*                 offset 12 source (4), offset 16 destination (4)         *)
(*   IPv6          offset 0  version (high nibble) = 6, header = 40 bytes  *)
(*                 offset 8  source (16), offset 24 destination (16)       *)
(*                                                                         *)
(* A byte string is a sequence over 0..255 (1-based; "offset k" is element *)
(* k+1).  A result is the record [src |-> bytes, dst |-> bytes]; `Reject`  *)
(* is the result with two empty addresses (a real address has >= 4 bytes). *)
(*                                                                         *)
(* Address form of a tagged frame as payload.rs documents it ("both        *)
(* addresses will be prefixed with that tag, resulting in 8-byte           *)
(* addresses"): 2 bytes holding the 12-bit VLAN id, big endian, high       *)
(* nibble zero, then the 6 MAC bytes.  Only the outermost tag counts and   *)
(* only ethertype 0x8100 is a tag (0x88a8 / 0x9100 frames are untagged).   *)
(***************************************************************************)
EXTENDS Naturals, Sequences

Byte == 0..255
IsBytes(s) == \A i \in 1..Len(s) : s[i] \in Byte

Reject == [src |-> <<>>, dst |-> <<>>]
Pair(s, d) == [src |-> s, dst |-> d]

\* n bytes starting at 0-based offset `off`
Slice(b, off, n) == [i \in 1..n |-> b[off + i]]
\* big-endian 16-bit field at 0-based offset `off`
U16(b, off) == b[off + 1] * 256 + b[off + 2]

-----------------------------------------------------------------------------
(* Ethernet *)
EthHeaderLen == 14
TagEtherType == 33024                 \* 0x8100
TaggedHeaderLen == 18                 \* dst, src, 0x8100, tag control, inner ethertype
TagControlEnd == 16                   \* bytes needed to read the tag control field

\* the 12-bit VLAN id of a tag control value (PCP and DEI stripped)
VlanKey(tci) == tci % 4096
\* the two prefix bytes of a tagged address
VlanPrefix(vid) == <<vid \div 256, vid % 256>>

EthDst(b) == Slice(b, 0, 6)
EthSrc(b) == Slice(b, 6, 6)
EtherType(b) == U16(b, 12)
HasEthHeader(b) == Len(b) >= EthHeaderLen
IsTagged(b) == HasEthHeader(b) /\ EtherType(b) = TagEtherType
\* a tagged frame whose tag control field is cut off cannot be dissected
TagTruncated(b) == IsTagged(b) /\ Len(b) < TagControlEnd
TagControl(b) == U16(b, 14)
FrameVlan(b) == VlanKey(TagControl(b))

FrameRejects(b) == ~HasEthHeader(b) \/ TagTruncated(b)

UntaggedForm(b) == Pair(EthSrc(b), EthDst(b))
TaggedForm(b) == Pair(VlanPrefix(FrameVlan(b)) \o EthSrc(b), VlanPrefix(FrameVlan(b)) \o EthDst(b))

\* C19 reading: the MAC pair, extended by the VLAN id of the (outermost) 802.1Q tag
FrameParse(b) ==
  IF FrameRejects(b) THEN Reject
  ELSE IF IsTagged(b) THEN TaggedForm(b)
  ELSE UntaggedForm(b)

\* C13 reading: a priority tag (VLAN id 0) does not put the frame into a VLAN
FrameParseFolded(b) ==
  IF FrameRejects(b) THEN Reject
  ELSE IF IsTagged(b) /\ FrameVlan(b) # 0 THEN TaggedForm(b)
  ELSE UntaggedForm(b)

\* A tagged frame that ends behind the tag control field but before the end of the 18-byte tagged header (no inner
\* ethertype) carries everything the addresses are made of and is nevertheless a truncated header.
InnerTypeMissing(b) == IsTagged(b) /\ Len(b) >= TagControlEnd /\ Len(b) < TaggedHeaderLen

\* What C19 admits as the answer `res` for the frame `b`.  Two don't-cares: for VLAN id 0 both address forms
\* (C13 decides about folding), and for InnerTypeMissing frames both the addresses and "rejected as truncated".
\* (FrameOKFor takes the two reference answers as arguments so that callers asking about many `res` compute them once)
FrameOKFor(b, res, plain, folded) == \/ res = plain
                                     \/ res = folded
                                     \/ res = Reject /\ InnerTypeMissing(b)
FrameOK(b, res) == FrameOKFor(b, res, FrameParse(b), FrameParseFolded(b))

-----------------------------------------------------------------------------
(* IP *)
Version(b) == b[1] \div 16
V4HeaderLen == 20
V6HeaderLen == 40

PacketRejects(b) ==
  \/ Len(b) = 0
  \/ Version(b) \notin {4, 6}
  \/ Version(b) = 4 /\ Len(b) < V4HeaderLen
  \/ Version(b) = 6 /\ Len(b) < V6HeaderLen

PacketParse(b) ==
  IF PacketRejects(b) THEN Reject
  ELSE IF Version(b) = 4 THEN Pair(Slice(b, 12, 4), Slice(b, 16, 4))
  ELSE Pair(Slice(b, 8, 16), Slice(b, 24, 16))

PacketOK(b, res) == res = PacketParse(b)

-----------------------------------------------------------------------------
(* Property formulas (checked over an enumerated universe by MC_Dissect).    *)

IsAddrPair(r, lens) == /\ Len(r.src) \in lens /\ Len(r.dst) = Len(r.src)
                       /\ IsBytes(r.src) /\ IsBytes(r.dst)

\* totality: for every byte string the answer is Reject or a well-formed address pair of the family
FrameTotal(b) == FrameParse(b) = Reject \/ IsAddrPair(FrameParse(b), {6, 8})
PacketTotal(b) == PacketParse(b) = Reject \/ IsAddrPair(PacketParse(b), {4, 16})

\* reject exactly when the header is not there / the version is not supported, stated on lengths only
FrameRejectIff(b) ==
  (FrameParse(b) = Reject) <=>
     (Len(b) < 14 \/ (Len(b) < 16 /\ b[13] = 129 /\ b[14] = 0))
PacketRejectIff(b) ==
  (PacketParse(b) = Reject) <=>
     (Len(b) = 0 \/ (b[1] < 64 \/ (b[1] >= 80 /\ b[1] < 96) \/ b[1] >= 112)
        \/ (b[1] \in 64..79 /\ Len(b) <= 19) \/ (b[1] \in 96..111 /\ Len(b) <= 39))

\* Position-tagged content: the byte at offset i carries (i + k) % 256.  For such a string a value identifies the
\* offset it was taken from (lengths <= 256), so "exactly the bytes of the standard positions" becomes a statement
\* about offsets.  `holes` are offsets whose content was overwritten (ethertype, tag control, version byte).
Tagged(n, k) == [i \in 1..n |-> (i - 1 + k) % 256]
IsPosTagged(b, k, holes) == \A i \in 1..Len(b) : (i - 1) \in holes \/ b[i] = (i - 1 + k) % 256
\* address `a` (from 1-based index `from` on) consists of the content of offsets first, first+1, ...
FromOffsets(a, from, first, k) == \A j \in from..Len(a) : a[j] = (first + (j - from) + k) % 256

FramePositions(b, k) ==
  LET r == FrameParse(b) IN
  r # Reject =>
    IF Len(r.src) = 6
    THEN /\ FromOffsets(r.dst, 1, 0, k) /\ FromOffsets(r.src, 1, 6, k)
         /\ ~(b[13] = 129 /\ b[14] = 0)
    ELSE /\ Len(r.src) = 8 /\ Len(r.dst) = 8
         /\ FromOffsets(r.dst, 3, 0, k) /\ FromOffsets(r.src, 3, 6, k)
         /\ b[13] = 129 /\ b[14] = 0
         \* the prefix is the tag control field with its four top bits cleared
         /\ r.src[1] = b[15] % 16 /\ r.src[2] = b[16]
         /\ r.dst[1] = r.src[1] /\ r.dst[2] = r.src[2]
         /\ r.src[1] * 256 + r.src[2] = VlanKey(TagControl(b))

PacketPositions(b, k) ==
  LET r == PacketParse(b) IN
  r # Reject =>
    IF Len(r.src) = 4
    THEN /\ Version(b) = 4 /\ Len(r.dst) = 4
         /\ FromOffsets(r.src, 1, 12, k) /\ FromOffsets(r.dst, 1, 16, k)
    ELSE /\ Version(b) = 6 /\ Len(r.src) = 16 /\ Len(r.dst) = 16
         /\ FromOffsets(r.src, 1, 8, k) /\ FromOffsets(r.dst, 1, 24, k)

\* nothing behind the header influences the answer
Prefix(b, n) == IF Len(b) <= n THEN b ELSE SubSeq(b, 1, n)
FrameHeaderOnly(b) == FrameParse(b) # Reject => FrameParse(b) = FrameParse(Prefix(b, 16))
PacketHeaderOnly(b) == PacketParse(b) # Reject => PacketParse(b) = PacketParse(Prefix(b, 40))

\* the acceptance predicates are tight: the reference answer is admitted, the folded answer only differs for
\* VLAN id 0, and an answer with one altered byte (or Reject in place of addresses) is refused
Bump(a, j) == [a EXCEPT ![j] = (@ + 1) % 256]
OKTight(b) ==
  LET r == FrameParse(b)  f == FrameParseFolded(b)  p == PacketParse(b)
      FOK(res) == FrameOKFor(b, res, r, f)
  IN
  /\ FrameOK(b, r) /\ FrameOK(b, f) /\ PacketOK(b, p)
  /\ (f # r) <=> (~FrameRejects(b) /\ IsTagged(b) /\ FrameVlan(b) = 0)
  /\ r # Reject => /\ FOK(Reject) <=> InnerTypeMissing(b)
                   /\ \A j \in 1..Len(r.src) : ~FOK(Pair(Bump(r.src, j), r.dst)) /\ ~FOK(Pair(r.src, Bump(r.dst, j)))
                   /\ ~FOK(Pair(r.dst, r.src)) \/ r.src = r.dst
  /\ p # Reject => /\ ~PacketOK(b, Reject)
                   /\ \A j \in 1..Len(p.src) : Pair(Bump(p.src, j), p.dst) # p /\ Pair(p.src, Bump(p.dst, j)) # p
  /\ r = Reject => ~FOK(Pair(<<0, 0, 0, 0, 0, 0>>, <<0, 0, 0, 0, 0, 0>>))
  /\ p = Reject => ~PacketOK(b, Pair(<<0, 0, 0, 0>>, <<0, 0, 0, 0>>))
=============================================================================
