-------------------------------- MODULE Keys --------------------------------
(***************************************************************************)
(* C18: the life of a key pair from generation to use.                     *)
(*                                                                         *)
(* Code: src/crypto/common.rs  Crypto::generate_keypair (what `genkey`     *)
(*       prints), Crypto::new with private_key / public_key / trusted_keys *)
(*       (parse_private_key, parse_keypair, parse_public_key),             *)
(*       keypair_from_password, default trust in Crypto::new.              *)
(*                                                                         *)
(*   GenKey -> PrintKeys -> Configure(role) -> Use -> Again | Done             *)
(*                                                                         *)
(* A key pair is a pair of KeyWidth-byte strings (private seed, public     *)
(* key).  PrintKeys writes both with the text codec of Base62.tla.  Configure  *)
(* reads the printed text back in one of three roles:                      *)
(*   "priv"     private key only (the public key is derived from it)       *)
(*   "privpub"  private and public key                                     *)
(*   "trusted"  the public key as trusted key of ANOTHER node              *)
(* Keys are fixed-width values, so reading uses DecFixed(text, KeyWidth).   *)
(* The property: Configure always succeeds and the configured node holds / *)
(* trusts exactly the generated key; Use (a handshake with a partner that  *)
(* holds the counterpart) then succeeds.                                   *)
(*                                                                         *)
(* The constant Padded selects the reader: TRUE is what the property       *)
(* needs; FALSE is the plain decoder Dec (variant for MC_KeysUnpadded.cfg, *)
(* which shows the counterexample: any key with a leading zero byte).      *)
(*                                                                         *)
(* Passwords: KeyOf is a FUNCTION from passwords to key pairs (same        *)
(* password -> same key pair on every node and run), assumed injective     *)
(* (PBKDF2/Ed25519 collisions are outside the model).  A node configured   *)
(* with a password only trusts its own public key, hence two nodes are     *)
(* peers iff their passwords are equal.                                    *)
(***************************************************************************)
EXTENDS Base62, FiniteSets

CONSTANTS KeyWidth,      \* 32
          Roles,         \* {"priv", "privpub", "trusted", "sharedown"}
          Padded,        \* BOOLEAN, see above
          Nodes, Passwords, KeyOf

ASSUME KeyOf \in [Passwords -> Nat] /\ \A p, q \in Passwords : KeyOf[p] = KeyOf[q] => p = q

None == "none"

VARIABLES stage,      \* "idle", "generated", "printed", "configured", "used"
          priv, pub,  \* the generated pair (byte strings)
          privText, pubText,   \* what genkey printed
          role,       \* role of the current configuration
          cfg,        \* [ok, priv, pub]: outcome of Configure and the key material the configured node holds / trusts
          hs,         \* outcome of Use
          nodePw      \* password part: nodePw[n] \in Passwords \cup {None}

kvars == <<stage, priv, pub, privText, pubText, role, cfg, hs>>
vars == <<stage, priv, pub, privText, pubText, role, cfg, hs, nodePw>>

NoCfg == [ok |-> FALSE, priv |-> <<>>, pub |-> <<>>]

Init ==
  /\ stage = "idle" /\ priv = <<>> /\ pub = <<>> /\ privText = <<>> /\ pubText = <<>>
  /\ role = None /\ cfg = NoCfg /\ hs = FALSE
  /\ nodePw = [n \in Nodes |-> None]

IsKey(k) == Len(k) = KeyWidth /\ IsBytes(k)

\* key generation: any pair of KeyWidth-byte strings (the relation between seed and public key is opaque)
GenKeyBytes(p, q) ==
  /\ stage = "idle" /\ IsKey(p) /\ IsKey(q)
  /\ stage' = "generated" /\ priv' = p /\ pub' = q
  /\ privText' = <<>> /\ pubText' = <<>> /\ role' = None /\ cfg' = NoCfg /\ hs' = FALSE
  /\ UNCHANGED nodePw

\* `genkey` output
PrintKeys ==
  /\ stage = "generated"
  /\ stage' = "printed" /\ privText' = Enc(priv) /\ pubText' = Enc(pub)
  /\ UNCHANGED <<priv, pub, role, cfg, hs, nodePw>>

\* how a configured key text is read
Parse(text) == IF Padded THEN DecFixed(text, KeyWidth) ELSE Dec(text)

\* configuring the texts ptext / qtext of the generated pair (gp, gq) in role r
ConfigureResultFor(r, ptext, qtext, gp, gq) ==
  LET p == Parse(ptext)
      q == Parse(qtext)
  IN CASE r = "priv"    -> [ok |-> IsKey(p), priv |-> p, pub |-> IF p = gp THEN gq ELSE <<>>]
       [] r = "privpub" -> [ok |-> IsKey(p) /\ IsKey(q) /\ p = gp /\ q = gq,   \* the library checks that the halves match
                            priv |-> p, pub |-> q]
       [] r = "trusted" -> [ok |-> IsKey(q), priv |-> <<>>, pub |-> q]
       \* two nodes share the pair; each lists the printed public key - its own - explicitly among other trusted keys
       [] r = "sharedown" -> [ok |-> IsKey(p) /\ IsKey(q), priv |-> p, pub |-> q]
ConfigureResult(r, ptext, qtext) == ConfigureResultFor(r, ptext, qtext, priv, pub)

Configure(r) ==
  /\ stage = "printed" /\ r \in Roles
  /\ stage' = "configured" /\ role' = r
  /\ cfg' = ConfigureResult(r, privText, pubText)
  /\ hs' = FALSE
  /\ UNCHANGED <<priv, pub, privText, pubText, nodePw>>

SameKeyFor(r, c, gp, gq) ==
  CASE r = "priv"    -> c.priv = gp /\ c.pub = gq
    [] r = "privpub" -> c.priv = gp /\ c.pub = gq
    [] r = "trusted" -> c.pub = gq
    [] r = "sharedown" -> c.priv = gp /\ c.pub = gq
    [] OTHER -> FALSE
SameKey == SameKeyFor(role, cfg, priv, pub)

\* handshake with a partner holding the counterpart (trusting `pub`, resp. owning `priv`)
Use ==
  /\ stage = "configured"
  /\ stage' = "used" /\ hs' = (cfg.ok /\ SameKey)
  /\ UNCHANGED <<priv, pub, privText, pubText, role, cfg, nodePw>>

\* the same printed text is configured again (in another role)
Again ==
  /\ stage = "used" /\ stage' = "printed"
  /\ role' = None /\ cfg' = NoCfg /\ hs' = FALSE
  /\ UNCHANGED <<priv, pub, privText, pubText, nodePw>>

Done ==
  /\ stage = "used" /\ stage' = "idle"
  /\ priv' = <<>> /\ pub' = <<>> /\ privText' = <<>> /\ pubText' = <<>> /\ role' = None /\ cfg' = NoCfg /\ hs' = FALSE
  /\ UNCHANGED nodePw

\* ---- passwords
Derive(n, p) ==
  /\ stage = "idle" /\ n \in Nodes /\ p \in Passwords
  /\ nodePw' = [nodePw EXCEPT ![n] = p]
  /\ UNCHANGED kvars

NodeKey(n) == KeyOf[nodePw[n]]
Trusted(n) == {NodeKey(n)}                      \* default: only the own public key
Peers(a, b) == /\ nodePw[a] # None /\ nodePw[b] # None
               /\ NodeKey(b) \in Trusted(a) /\ NodeKey(a) \in Trusted(b)
PeersByPassword(p, q) == KeyOf[p] = KeyOf[q]

-----------------------------------------------------------------------------
(* C18 *)
ConfigureSucceeds == stage \in {"configured", "used"} => (cfg.ok /\ SameKey)
Usable == stage = "used" => hs
PrintedDenotes == stage = "printed" =>
                    /\ DecFixed(privText, KeyWidth) = priv /\ DecFixed(pubText, KeyWidth) = pub
                    /\ IsText(privText) /\ IsText(pubText)
PasswordTrust == \A a, b \in Nodes : (nodePw[a] # None /\ nodePw[b] # None) =>
                    (Peers(a, b) <=> nodePw[a] = nodePw[b])
PasswordDeterministic == \A a, b \in Nodes : (nodePw[a] # None /\ nodePw[a] = nodePw[b]) => NodeKey(a) = NodeKey(b)

TypeOK == /\ stage \in {"idle", "generated", "printed", "configured", "used"}
          /\ role \in Roles \cup {None}
          /\ hs \in BOOLEAN /\ cfg.ok \in BOOLEAN
=============================================================================
