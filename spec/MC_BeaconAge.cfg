INIT Init
NEXT Next
CONSTANTS Limits = {0, 1, 24, 50, 32767, 32768, 65535}
          Nows = {0, 50, 65535}
          Shifts = {32768}
          BlockSize = 64
INVARIANT AgeProps
INVARIANT BoundaryProps
INVARIANT CountProps
CHECK_DEADLOCK FALSE
