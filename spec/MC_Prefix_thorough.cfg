SPECIFICATION Spec
CONSTANTS W = 8
          MaxP = 20
          BaseLo = 0
          BaseStep = 1
          BaseCount = 256
          DigitWidths = {2, 4, 8}
INVARIANT ArithIsBitwise
INVARIANT ArithIsInterval
INVARIANT DigitsAreArith
INVARIANT RunsAreSet
INVARIANT RowsAreSets
INVARIANT Corners
INVARIANT Nested
CHECK_DEADLOCK FALSE
