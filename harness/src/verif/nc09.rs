//! C09: established connections survive forged and replayed traffic.
//! `node c09 <tier> <trace>`: for every datagram seen on the wire during establishment and operation of a 2- and a
//! 3-node mesh: re-injection at every later time offset, with the source address original / another peer / unknown,
//! verbatim and with single-field edits; followed by a probe phase of one frame per second in both directions.
//! One run per (datagram, offset, source, edit); the run records what happened and TLC judges the record.
use super::node::*;
use super::util::*;
use crate::payload::Frame;
use crate::types::Mode;
use rand::Rng;
use serde_json::{json, Value};
use std::net::SocketAddr;

pub const OFFSETS: [i64; 12] = [0, 1, 2, 5, 30, 59, 61, 90, 119, 121, 300, 600];

#[derive(Clone, Debug)]
pub struct Plan {
    pub nodes: usize,
    pub k: usize,        // index of the datagram in this run's wire capture (capture phase)
    pub offset: i64,     // seconds after the end of the capture phase
    pub src: u8,         // 0 original source, 1 another peer's address, 2 unknown address
    pub edit: u8,        // 0 verbatim, 1 flip a bit in the middle, 2 truncate by one, 3 change first byte, 4 flip last bit
    pub victim_is_dst: bool,
}

fn frame_for(from: usize, to: usize, n: u64) -> Vec<u8> {
    let mut payload = vec![0u8; 24];
    payload[..8].copy_from_slice(&n.to_be_bytes());
    payload[8] = from as u8;
    payload[9] = to as u8;
    eth_frame(mac(10 + to as u8), mac(10 + from as u8), None, &payload)
}

pub const CAPTURE_SECS: i64 = 150; // includes the first key rotation (120 s) and several node-info rounds

/// builds the mesh, runs the capture phase with probes so that every kind of datagram appears on the wire
fn establish(nodes: usize, stream: u64) -> (Sim<Frame>, u64) {
    let mut sim: Sim<Frame> = Sim::new(stream);
    sim.trace_sample(stream, 40, 80_000);
    let mut cfg = base_config(Mode::Switch);
    cfg.keepalive = Some(30);
    for _ in 0..nodes {
        sim.add_node(false, &cfg);
    }
    for i in 1..nodes {
        let a = sim.nodes[0].addr;
        sim.connect(i, a);
    }
    sim.deliver_due();
    let mut n = 0u64;
    for _ in 0..CAPTURE_SECS {
        sim.tick();
        // learnable traffic in every direction
        for i in 0..nodes {
            for j in 0..nodes {
                if i != j {
                    n += 1;
                    sim.iface(i, &frame_for(i, j, n));
                }
            }
        }
        sim.deliver_due();
    }
    (sim, n)
}

fn kind_of(bytes: &[u8]) -> &'static str {
    match bytes.first() {
        None => "empty",
        Some(0xff) => match bytes.get(12) {
            Some(1) => "ping",
            Some(2) => "pong",
            Some(3) => "peng",
            _ => "init",
        },
        Some(_) => "sealed",
    }
}

pub fn count_wire(nodes: usize) -> usize {
    let (sim, _) = establish(nodes, 900);
    sim.wire.len()
}

pub fn run_plan(p: &Plan, run: u64) -> Value {
    let (mut sim, mut n) = establish(p.nodes, 900 + run);
    let healthy_at = sim.now;
    let healthy0 = sim.full_mesh();
    let wire_len = sim.wire.len();
    if p.k >= wire_len {
        return json!({"op":"c09skip","why":"capture shorter than expected","k":p.k,"wire":wire_len});
    }
    let d = sim.wire[p.k].clone();
    let kind = kind_of(&d.bytes);
    let dst = match sim.idx_of(&d.to) {
        Some(j) => j,
        None => return json!({"op":"c09skip","why":"datagram to nowhere","k":p.k,"wire":wire_len}),
    };
    let orig_src = (d.from - 1) as usize;
    let third = (0..p.nodes).find(|x| *x != dst && *x != orig_src);
    let src_addr: SocketAddr = match p.src {
        0 => sim.nodes[orig_src].addr,
        1 => match third {
            Some(t) => sim.nodes[t].addr,
            None => sim.nodes[dst].addr, // 2-node mesh: "another peer" degenerates to the victim's own address
        },
        _ => addr_of(77),
    };
    let mut bytes = d.bytes.clone();
    match p.edit {
        1 if !bytes.is_empty() => {
            let m = bytes.len() / 2;
            bytes[m] ^= 0x10
        }
        2 if !bytes.is_empty() => {
            bytes.pop();
        }
        3 if !bytes.is_empty() => bytes[0] ^= 0x01,
        4 if !bytes.is_empty() => {
            let l = bytes.len() - 1;
            bytes[l] ^= 0x01
        }
        // a length field of a genuine handshake datagram enlarged: the signature length byte (64) becomes 65 / 255
        5 | 6 if bytes.len() > 80 && bytes[0] == 0xff && bytes[bytes.len() - 65] == 64 => {
            let l = bytes.len() - 65;
            bytes[l] = if p.edit == 5 { 65 } else { 255 }
        }
        _ => {}
    }
    sim.capture = false;
    // probe phase: from now on every frame must arrive exactly once; connections and routes must stay
    let total = p.offset + 400;
    let (mut sent, mut lost_conn_ticks, mut route_loss) = (0u64, 0u64, 0u64);
    let mut expect: std::collections::HashMap<Vec<u8>, (usize, i64)> = Default::default();
    let mark = sim.delivered.len();
    let mut injected_result = json!(null);
    for s in 0..=total {
        if s == p.offset {
            let before = sim.shape(dst);
            let r = sim.present(dst, src_addr, &bytes);
            let after = sim.shape(dst);
            injected_result = json!({"panicked": r.panicked, "replies": r.sent.len(), "iface": r.iface.len(),
                                     "shape_changed": before != after, "pending_after": after.1});
            sim.deliver_due();
        }
        sim.tick();
        if !sim.full_mesh() {
            lost_conn_ticks += 1;
        }
        for i in 0..p.nodes {
            for j in 0..p.nodes {
                if i != j {
                    n += 1;
                    let f = frame_for(i, j, n);
                    let r = sim.iface(i, &f);
                    // learned route must still point at j alone (switch mode learned both directions during capture)
                    let to_j = r.sent.iter().filter(|x| x.to == sim.nodes[j].addr).count();
                    if r.sent.len() != 1 || to_j != 1 {
                        route_loss += 1;
                    }
                    expect.insert(f, (j, s));
                    sent += 1;
                }
            }
        }
        sim.deliver_due();
    }
    // count deliveries per probe frame
    let (mut delivered_once, mut missing, mut extra, mut wrong) = (0u64, 0u64, 0u64, 0u64);
    let mut seen: std::collections::HashMap<Vec<u8>, u32> = Default::default();
    for (_, port, f) in sim.delivered[mark..].iter() {
        match expect.get(f) {
            Some((j, _)) if *j + 1 == *port as usize => *seen.entry(f.clone()).or_insert(0) += 1,
            Some(_) => wrong += 1,
            None => {
                // a frame from the capture phase delivered again (replayed data datagram)
                extra += 1
            }
        }
    }
    for (f, _) in expect.iter() {
        match seen.get(f) {
            Some(1) => delivered_once += 1,
            Some(c) => {
                delivered_once += 1;
                extra += (*c - 1) as u64
            }
            None => missing += 1,
        }
    }
    json!({"op":"c09run","run":run,"nodes":p.nodes,"k":p.k,"kind":kind,"len":d.bytes.len(),"offset":p.offset,"src":p.src,"edit":p.edit,
           "healthy0":healthy0,"healthy_at":healthy_at - T0,"age":healthy_at - d.t,"inject":injected_result,
           "sent":sent,"delivered":delivered_once,"missing":missing,"extra":extra,"wrong":wrong,
           "lost_conn_ticks":lost_conn_ticks,"route_loss":route_loss,"panics":sim.total_panics(),"storm_ticks":sim.storm_ticks,
           "final_mesh":sim.full_mesh()})
}

/// The two ends finish the handshake `lag` seconds apart (the peng is lost that often), so their rotation timers are
/// staggered; every sealed datagram a node emits while housekeeping (node information, key rotation) is delivered and
/// then delivered AGAIN `dup_after` housekeeping rounds later from its original source - a duplicating network or a
/// verbatim replay inside the replay window; one probe frame per second in each direction must arrive exactly once.
pub fn run_stagger(run: u64, lag: i64, dup_after: i64, secs: i64) -> Value {
    let mut sim: Sim<Frame> = Sim::new(7000 + run);
    sim.trace_sample(run, 3, 80_000);
    let mut cfg = base_config(Mode::Switch);
    cfg.keepalive = Some(30);
    sim.add_node(false, &cfg);
    sim.add_node(false, &cfg);
    let a0 = sim.nodes[0].addr;
    sim.connect(1, a0);
    sim.faults.cut.insert((2, 1)); // the ping is on its way already; the peng will be lost
    sim.deliver_due();
    for _ in 1..lag {
        sim.tick();
    }
    sim.faults.cut.clear();
    sim.tick();
    sim.tick();
    let healthy0 = sim.full_mesh();
    let healthy_at = sim.now;
    sim.capture = false;
    let mut n = 0u64;
    let (mut sent, mut lost_conn_ticks, mut route_loss) = (0u64, 0u64, 0u64);
    let mut expect: std::collections::HashMap<Vec<u8>, usize> = Default::default();
    let mark = sim.delivered.len();
    let mut dups = 0u64;
    // learn both directions first
    for s in 0..secs {
        sim.now += 1;
        crate::util::MockTimeSource::set_time(sim.now);
        sim.note_time();
        for i in 0..2 {
            let r = sim.housekeep(i);
            for d in &r.sent {
                if d.bytes.first().map(|b| *b <= 3).unwrap_or(false) && d.bytes.len() >= 24 {
                    if let Some(to) = sim.idx_of(&d.to) {
                        dups += 1;
                        let due = sim.now + dup_after;
                        sim.inject_copy(to, addr_of(d.from), d, due);
                    }
                }
            }
        }
        sim.deliver_due();
        if !sim.full_mesh() {
            lost_conn_ticks += 1;
        }
        for (i, j) in [(0usize, 1usize), (1, 0)] {
            n += 1;
            let f = frame_for(i, j, n);
            let r = sim.iface(i, &f);
            if s > 2 && (r.sent.len() != 1 || r.sent[0].to != sim.nodes[j].addr) {
                route_loss += 1;
            }
            expect.insert(f, j);
            sent += 1;
        }
        sim.deliver_due();
    }
    let (mut delivered_once, mut missing, mut extra, mut wrong) = (0u64, 0u64, 0u64, 0u64);
    let mut seen: std::collections::HashMap<Vec<u8>, u32> = Default::default();
    for (_, port, f) in sim.delivered[mark..].iter() {
        match expect.get(f) {
            Some(j) if *j + 1 == *port as usize => *seen.entry(f.clone()).or_insert(0) += 1,
            Some(_) => wrong += 1,
            None => extra += 1,
        }
    }
    for (f, _) in expect.iter() {
        match seen.get(f) {
            Some(1) => delivered_once += 1,
            Some(c) => {
                delivered_once += 1;
                extra += (*c - 1) as u64
            }
            None => missing += 1,
        }
    }
    json!({"op":"c09run","run":run,"nodes":2,"k":0,"kind":"rotation-dup","len":0,"offset":dup_after,"src":0,"edit":0,
           "healthy0":healthy0,"healthy_at":healthy_at - T0,"age":0,"inject":{"duplicates":dups,"lag":lag},
           "sent":sent,"delivered":delivered_once,"missing":missing,"extra":extra,"wrong":wrong,
           "lost_conn_ticks":lost_conn_ticks,"route_loss":route_loss,"panics":sim.total_panics(),"storm_ticks":sim.storm_ticks,
           "final_mesh":sim.full_mesh()})
}

pub fn run(tier: &str, out_path: &str) -> Value {
    let quick = tier == "quick";
    let mut plans: Vec<Plan> = vec![];
    for nodes in [2usize, 3] {
        let w = count_wire(nodes);
        // the capture is long; take every datagram of the establishment (first 12) and a sample of the rest by kind
        let (sim, _) = establish(nodes, 900);
        let mut picked: Vec<usize> = (0..w.min(12)).collect();
        let mut by_len: std::collections::BTreeMap<(u16, usize), usize> = Default::default();
        for (i, d) in sim.wire.iter().enumerate().skip(12) {
            by_len.entry((d.from, d.bytes.len())).or_insert(i);
        }
        picked.extend(by_len.values().copied());
        picked.push(w - 1);
        picked.sort();
        picked.dedup();
        let offsets: Vec<i64> = if quick { vec![0, 61, 121] } else { OFFSETS.to_vec() };
        for &k in &picked {
            for &offset in &offsets {
                for src in 0..3u8 {
                    let edits: &[u8] = if quick { &[0, 1, 5] } else { &[0, 1, 2, 3, 4, 5, 6] };
                    for &edit in edits {
                        if quick && nodes == 3 && (src == 2 && edit == 1) {
                            continue;
                        }
                        if edit >= 5 && k >= 12 {
                            continue; // length-field edits: handshake datagrams only (the first datagrams of the capture)
                        }
                        plans.push(Plan { nodes, k, offset, src, edit, victim_is_dst: true });
                    }
                }
            }
        }
        if quick && nodes == 3 {
            // the 3-node mesh is sampled in the quick tier
            let keep: Vec<Plan> = plans.iter().filter(|p| p.nodes == 2).cloned().collect();
            let mut rng = rng(90);
            let three: Vec<Plan> = plans.iter().filter(|p| p.nodes == 3).cloned().collect();
            let mut sample = keep;
            for p in three {
                if rng.gen_bool(0.25) || p.k < 4 {
                    sample.push(p);
                }
            }
            plans = sample;
        }
    }
    let mut results = parallel_map(&plans, |i, p| run_plan(p, i as u64));
    // staggered rotation timers with duplicated housekeeping datagrams
    let mut stag: Vec<(i64, i64)> = vec![];
    for lag in [1i64, 2, 3] {
        for dup_after in [0i64, 1, 2] {
            stag.push((lag, dup_after));
        }
    }
    let secs = if quick { 380 } else { 1300 };
    results.extend(parallel_map(&stag, |i, (lag, dup)| run_stagger(i as u64, *lag, *dup, secs)));
    let mut t = Trace::create(out_path);
    let mut skipped = 0;
    for r in &results {
        if r["op"] == "c09skip" {
            skipped += 1;
        }
        t.ev(r.clone());
    }
    let events = t.finish();
    let cloud = write_cloud_blocks(&format!("{}.cloud", out_path));
    json!({"runs": plans.len() + stag.len(), "steps": plans.len() + stag.len(), "events": events, "skipped": skipped, "cloud_events": cloud})
}
