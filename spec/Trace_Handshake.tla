---------------------------- MODULE Trace_Handshake ----------------------------
(* Trace validation for Handshake: events recorded from real PeerCrypto<NodeInfo> objects are replayed through the
   specification's own object functions (HsObj!Handle, HsObj!TickObj, Handshake!StartHs / RecvMsg).  Gating
   observations: the result kind of every call, which datagram (if any) it emitted - a new one or a repetition of an
   earlier one -, the handshake stage / has_init / is_ready afterwards, and at the end of a run completion counts,
   cipher, nonce half, payload, rotation starter and cross-decryption probes.
   Datagrams are referred to by emission index (wireSeq).  C01 family events (every bit flip / truncation / edit of
   datagram k, forged messages) must behave like Handshake!RecvBad: nothing changes, nothing is sent. *)
EXTENDS Handshake, HsConfig, Json, IOUtils

Rec == ndJsonDeserialize(IOEnv.TRACE)
N == Len(Rec)
TObjs == CfgObjs
TAttr == AttrFor(IOEnv.RANKHIGH, IOEnv.ALGOMODE)

VARIABLES l, wireSeq
tvars == <<vars, l, wireSeq>>

DefaultTrust == [o \in Objs |-> {"kA", "kB"}]
TraceInit == InitWith(DefaultTrust) /\ l = 1 /\ wireSeq = <<>>

SetOf(s) == {s[i] : i \in 1..Len(s)}
ResetAll(e) ==
  LET tr == [o \in Objs |-> IF "trust" \in DOMAIN e THEN SetOf(e.trust[o]) ELSE DefaultTrust[o]] IN
  /\ trusted' = tr
  /\ obj' = [o \in Objs |-> NewObj(Attr[o].node, Attr[o].rank, Attr[o].key, tr[o], Attr[o].algos, Attr[o].plain, Attr[o].payload)]
  /\ alive' = [o \in Objs |-> TRUE] /\ done' = [o \in Objs |-> 0] /\ role' = [o \in Objs |-> "none"]
  /\ got' = [o \in Objs |-> None] /\ rotSent' = [o \in Objs |-> 0] /\ gen' = 0 /\ net' = {} /\ sentSeq' = <<>>
  /\ wireSeq' = <<>>

\* what the accessors of the real object show after the call
StageName(o) == IF ~alive'[o] THEN "dead" ELSE IF obj'[o].stage = "closing" THEN "none" ELSE obj'[o].stage
StOK(e, o) == /\ e.st.alive = alive'[o]
              /\ alive'[o] => /\ e.st.stage = StageName(o)
                              /\ e.st.has_init = (obj'[o].stage # "closing")
                              /\ e.st.ready = (done'[o] > 0 /\ obj'[o].sel # Plain)

\* binding of the emission: a datagram never seen before (index out), a repetition (index rep), or nothing
EmitOK(out, newk, rep) ==
  IF newk > 0 THEN /\ Len(out) = 1 /\ out[1] \notin SetOf(wireSeq)
                   /\ wireSeq' = Append(wireSeq, out[1]) /\ newk = Len(wireSeq')
  ELSE IF rep > 0 THEN /\ rep <= Len(wireSeq) /\ out = <<wireSeq[rep]>> /\ UNCHANGED wireSeq
  ELSE out = <<>> /\ UNCHANGED wireSeq

InitiateEv(e) ==
  /\ e.ok /\ StartHs(e.o)
  /\ EmitOK(Initiate(obj[e.o], gen + 1).out, e.k, e.rep)
  /\ StOK(e, e.o)

RecvEv(e) ==
  /\ e.k \in 1..Len(wireSeq)
  /\ LET m == wireSeq[e.k]
         r == Handle(obj[e.o], m, gen + 1) IN
     /\ RecvMsg(e.o, m)
     /\ e.res = r.res
     /\ EmitOK(r.out, e.out, e.rep)
     /\ e.rot = (r.res = "succR" /\ r.obj.sel # Plain)
  /\ StOK(e, e.o)

TicksEv(e) ==
  LET r == TickMany(obj[e.o], e.n) IN
  /\ alive[e.o]
  /\ obj' = [obj EXCEPT ![e.o] = r.obj]
  /\ alive' = [alive EXCEPT ![e.o] = r.res # "fatal"]
  /\ e.res = (IF r.res = "fatal" THEN "fatal" ELSE "ok")
  /\ e.other = 0 /\ e.cnt = r.cnt
  /\ e.cnt > 0 => (e.rep \in 1..Len(wireSeq) /\ obj[e.o].last = wireSeq[e.rep])
  /\ net' = IF r.cnt > 0 THEN net \cup {obj[e.o].last} ELSE net
  /\ UNCHANGED <<trusted, done, role, got, rotSent, gen, wireSeq, sentSeq>>
  /\ StOK(e, e.o)

FinalEv(e) ==
  /\ e.done = done[e.o]
  /\ done[e.o] > 0 => /\ e.sel = obj[e.o].sel
                      /\ e.got_ok
                      /\ e.rot = rotSent[e.o]
                      /\ e.ready = (obj[e.o].sel # Plain)
                      /\ obj[e.o].sel # Plain => e.half = obj[e.o].core.half
  /\ UNCHANGED <<vars, wireSeq>>

\* C01: a whole family of datagrams derived from genuine datagram k (or forged with an untrusted key) was presented:
\* every member must have been rejected with nothing sent and nothing changed (Handshake!RecvBad)
FamilyEv(e) ==
  /\ e.bad = 0
  /\ e.members > 0
  /\ alive[e.o] /\ e.stage = (IF obj[e.o].stage = "closing" THEN "none" ELSE obj[e.o].stage)
  /\ e.k > 0 => (e.k <= Len(wireSeq) /\ RecvBad(e.o, [wireSeq[e.k] EXCEPT !.intact = FALSE]))
  /\ UNCHANGED <<vars, wireSeq>>

Step(e) ==
  CASE e.op = "reset"    -> ResetAll(e)
    [] e.op = "initiate" -> InitiateEv(e)
    [] e.op = "recv"     -> RecvEv(e)
    [] e.op = "ticks"    -> TicksEv(e)
    [] e.op = "final"    -> FinalEv(e)
    [] e.op = "probe"    -> e.ok = TRUE /\ Both /\ UNCHANGED <<vars, wireSeq>>
    [] e.op = "family"   -> FamilyEv(e)
    [] OTHER -> FALSE

TraceNext == l <= N /\ l' = l + 1 /\ Step(Rec[l])
TraceSpec == TraceInit /\ [][TraceNext]_tvars
Accepted == IF TLCGet("stats").diameter - 1 = N THEN TRUE
            ELSE Print(<<"REJECTED", TLCGet("stats").diameter, Rec[TLCGet("stats").diameter]>>, FALSE)
=============================================================================
