---------------------------- MODULE RotationRecover ----------------------------
(* "A lost rotation message only postpones the next key change": from ANY state the lossy specification can reach
   (ids up to LossyMaxId), once delivery is reliable again (messages still in flight are delivered or lost first,
   then every emitted message is delivered before the next cycle, both ends cycle once per round in either order),
   each end's sealing key changes within RecoverRounds rounds - and keeps changing every two rounds after that. *)
EXTENDS Rotation, TLC

CONSTANTS LossyMaxId, MaxNet, MaxRounds, RecoverRounds
VARIABLES reliable, round, turn, changed, dl
rvars == <<vars, reliable, round, turn, changed, dl>>

RInit == Init /\ reliable = FALSE /\ round = 0 /\ turn = {} /\ changed = [p \in Ends |-> 0] /\ dl = 0

Lossy == /\ ~reliable
         /\ Next
         /\ \A p \in Ends : msgId'[p] <= LossyMaxId
         /\ Cardinality(net') <= MaxNet
         /\ UNCHANGED <<reliable, round, turn, changed, dl>>

\* the network turns reliable: what is still in flight has been delivered or lost by the lossy steps before
BecomeReliable == /\ ~reliable /\ reliable' = TRUE
                  /\ dl' = Len(sentSeq)
                  /\ UNCHANGED <<vars, round, turn, changed>>

Changed == changed' = [q \in Ends |-> IF cur'[q] # cur[q] THEN round ELSE changed[q]]

DeliverNext == /\ reliable /\ dl < Len(sentSeq) /\ dl' = dl + 1
               /\ LET m == sentSeq[dl + 1] IN RecvMsg(m.to, m)
               /\ Changed /\ UNCHANGED <<reliable, round, turn>>

CycleNext(p) == /\ reliable /\ dl = Len(sentSeq) /\ dl' = dl /\ p \notin turn
                /\ Cycle(p)
                /\ turn' = IF turn \cup {p} = Ends THEN {} ELSE turn \cup {p}
                /\ round' = IF turn \cup {p} = Ends THEN round + 1 ELSE round
                /\ Changed /\ UNCHANGED reliable

RNext == Lossy \/ BecomeReliable \/ DeliverNext \/ \E p \in Ends : CycleNext(p)
RSpec == RInit /\ [][RNext]_rvars

Bound == round <= MaxRounds
View == <<msgId, proposed, pending, confirmed, tmo, slots, cur, gen, net, reliable, round, turn, changed, dl - Len(sentSeq)>>

Recovers == reliable => \A p \in Ends : round - changed[p] <= RecoverRounds
Safe == SealKeyHeldByPeer
=============================================================================
