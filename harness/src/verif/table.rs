//! C11 / C12 / C13 (table level): the real `ClaimTable<MockTimeSource>` and `Range::matches`.
//!
//! `table tree <cmds.ndjson> <trace.ndjson> <ct> <st> <variant>`
//!     executes a command stream generated from TLC's transition graph (Table.tla labels):
//!     `{"op":"reset"}` new table (clock 10000), `{"op":"back","to":k}` return to the state after the first k steps of the
//!     current run (the table is rebuilt by replaying those k steps silently - ClaimTable cannot be cloned), and the
//!     labels `announce / disconnect / learn / lookup / advance` (field `d` of the command = depth of the node reached).
//!     `variant` = index into VARIANTS or `all` (run number modulo the number of variants).
//! `table random <runs> <len> <ct> <st> <trace.ndjson> [profile 0..3 | mixed]`
//!     seeded random operation sequences over 3 peers, all W-bit ranges and addresses (W = 4), every address form.
//! `table prefix <quick|thorough> <trace.ndjson>`
//!     `Range::matches` on the prefix-matching families of C11 (rows of 256 resp. 65536 calls are reported as runs).
//!
//! After every call the driver logs the result and a dump of the table taken through the hooks `verif_claims` /
//! `verif_cache`: claims as `[peer, base, plen, remaining]`, cache entries as `[addr, peer, remaining]`, in W-bit
//! terms (`-1` for anything that is not an embedded value / a known peer).  Judging is TLC's job (Trace_Table.tla).
use super::util::*;
use crate::table::ClaimTable;
use crate::types::{Address, Range, RangeList};
use crate::util::{MockTimeSource, Time, TimeSource};
use rand::Rng;
use serde_json::{json, Value};
use std::net::SocketAddr;

const W: usize = 4;
const T0: Time = 10_000;
const NPEERS: usize = 3;

/// How the W-bit universe is embedded into a real address family: `len` bytes, the value sits at bit offset `off`,
/// all other bits come from `template` (so every embedded address shares the bits in front of the value).
struct Variant {
    name: &'static str,
    len: usize,
    off: usize,
    template: [u8; 16],
}

const VARIANTS: [Variant; 6] = [
    Variant { name: "ipv4/0", len: 4, off: 0, template: [0, 0x2a, 0x01, 0x07, 0, 0, 0, 0, 0, 0, 0, 0, 0, 0, 0, 0] },
    Variant { name: "ipv4/14", len: 4, off: 14, template: [10, 0xc8, 0, 0x11, 0, 0, 0, 0, 0, 0, 0, 0, 0, 0, 0, 0] },
    Variant { name: "ipv4/28", len: 4, off: 28, template: [192, 168, 77, 0x30, 0, 0, 0, 0, 0, 0, 0, 0, 0, 0, 0, 0] },
    Variant { name: "mac/21", len: 6, off: 21, template: [0x02, 0x1b, 0xa8, 0x00, 0x5e, 0x10, 0, 0, 0, 0, 0, 0, 0, 0, 0, 0] },
    Variant { name: "vlanmac/12", len: 8, off: 12, template: [0x00, 0x60, 0x00, 0xde, 0xad, 0xbe, 0xef, 0x01, 0, 0, 0, 0, 0, 0, 0, 0] },
    Variant {
        name: "ipv6/61",
        len: 16,
        off: 61,
        template: [0x20, 0x01, 0x0d, 0xb8, 0x85, 0xa3, 0x00, 0x00, 0x00, 0x00, 0x8a, 0x2e, 0x03, 0x70, 0x73, 0x34],
    },
];

fn get_bit(d: &[u8; 16], i: usize) -> u8 {
    (d[i / 8] >> (7 - i % 8)) & 1
}

fn set_bit(d: &mut [u8; 16], i: usize, b: u8) {
    let m = 1u8 << (7 - i % 8);
    if b != 0 {
        d[i / 8] |= m
    } else {
        d[i / 8] &= !m
    }
}

impl Variant {
    fn embed(&self, v: u64) -> Address {
        let mut data = self.template;
        for i in 0..W {
            set_bit(&mut data, self.off + i, ((v >> (W - 1 - i)) & 1) as u8);
        }
        Address { data, len: self.len as u8 }
    }

    fn range(&self, base: u64, plen: u64) -> Range {
        Range { base: self.embed(base), prefix_len: (self.off as u64 + plen) as u8 }
    }

    /// W-bit value of an embedded address, -1 if it is not one
    fn value(&self, a: &Address) -> i64 {
        if a.len as usize != self.len {
            return -1;
        }
        let mut v = 0i64;
        for i in 0..self.len * 8 {
            if i >= self.off && i < self.off + W {
                v = (v << 1) | get_bit(&a.data, i) as i64;
            } else if get_bit(&a.data, i) != get_bit(&self.template, i) {
                return -1;
            }
        }
        v
    }
}

fn peers() -> Vec<SocketAddr> {
    vec!["10.0.0.1:3210".parse().unwrap(), "10.0.0.1:3211".parse().unwrap(), "[2001:db8::7]:3210".parse().unwrap()]
}

fn clamp(x: i64) -> i64 {
    x.clamp(-1_000_000, 1_000_000)
}

struct Tab<'a> {
    v: &'a Variant,
    t: ClaimTable<MockTimeSource>,
    peers: Vec<SocketAddr>,
    now: Time,
    ct: u32,
    st: u32,
}

impl<'a> Tab<'a> {
    fn new(v: &'a Variant, ct: u32, st: u32) -> Self {
        MockTimeSource::set_time(T0);
        Tab { v, t: ClaimTable::new(st, ct), peers: peers(), now: T0, ct, st }
    }

    fn peer_idx(&self, p: &SocketAddr) -> i64 {
        self.peers.iter().position(|x| x == p).map(|i| i as i64).unwrap_or(-1)
    }

    fn dump(&self) -> (Value, Value) {
        let now = MockTimeSource::now();
        let claims: Vec<Value> = self
            .t
            .verif_claims()
            .iter()
            .map(|(p, r, exp)| {
                let base = self.v.value(&r.base);
                let plen = r.prefix_len as i64 - self.v.off as i64;
                json!([self.peer_idx(p), base, if base < 0 { -1 } else { plen }, clamp(exp - now)])
            })
            .collect();
        let mut cache: Vec<(i64, i64, i64)> =
            self.t.verif_cache().iter().map(|(a, p, exp)| (self.v.value(a), self.peer_idx(p), clamp(exp - now))).collect();
        cache.sort();
        (Value::Array(claims), Value::Array(cache.iter().map(|(a, p, r)| json!([a, p, r])).collect()))
    }

    /// Executes one label on the real table and returns the event (result + dump).
    fn step(&mut self, c: &Value) -> Value {
        let op = c["op"].as_str().unwrap_or("");
        let mut ev = serde_json::Map::new();
        ev.insert("op".into(), json!(op));
        ev.insert("d".into(), json!(c["d"].as_u64().unwrap_or(0)));
        let r: Result<(), String> = match op {
            "announce" => {
                let p = c["peer"].as_u64().unwrap() as usize;
                let list: Vec<(u64, u64)> =
                    c["list"].as_array().unwrap().iter().map(|r| (r[0].as_u64().unwrap(), r[1].as_u64().unwrap())).collect();
                let mut rl = RangeList::new();
                for (b, pl) in &list {
                    rl.push(self.v.range(*b, *pl));
                }
                ev.insert("peer".into(), json!(p));
                ev.insert("list".into(), json!(list.iter().map(|(b, pl)| json!([b, pl])).collect::<Vec<_>>()));
                let peer = self.peers[p];
                guarded(|| self.t.set_claims(peer, rl))
            }
            "disconnect" => {
                let p = c["peer"].as_u64().unwrap() as usize;
                ev.insert("peer".into(), json!(p));
                let peer = self.peers[p];
                guarded(|| self.t.remove_claims(peer))
            }
            "learn" => {
                let p = c["peer"].as_u64().unwrap() as usize;
                let a = c["addr"].as_u64().unwrap();
                ev.insert("addr".into(), json!(a));
                ev.insert("peer".into(), json!(p));
                let (peer, addr) = (self.peers[p], self.v.embed(a));
                guarded(|| self.t.cache(addr, peer))
            }
            "lookup" => {
                let a = c["addr"].as_u64().unwrap();
                ev.insert("addr".into(), json!(a));
                let addr = self.v.embed(a);
                match guarded(|| self.t.lookup(addr)) {
                    Ok(res) => {
                        ev.insert("res".into(), json!(res.map(|p| self.peer_idx(&p)).unwrap_or(-1)));
                        Ok(())
                    }
                    Err(e) => {
                        ev.insert("res".into(), json!(-2));
                        Err(e)
                    }
                }
            }
            "advance" => {
                let d = c["dt"].as_u64().unwrap();
                ev.insert("dt".into(), json!(d));
                self.now += d as Time;
                MockTimeSource::set_time(self.now);
                guarded(|| self.t.housekeep())
            }
            other => panic!("unknown table op {:?}", other),
        };
        ev.insert("ok".into(), json!(r.is_ok()));
        let (claims, cache) = self.dump();
        ev.insert("claims".into(), claims);
        ev.insert("cache".into(), cache);
        Value::Object(ev)
    }
}

fn variant_of(sel: &str, run: u64) -> &'static Variant {
    match sel.parse::<usize>() {
        Ok(i) => &VARIANTS[i % VARIANTS.len()],
        Err(_) => &VARIANTS[(run as usize) % VARIANTS.len()],
    }
}

/// `d` of a command is the depth of the tree node the step leads to (0: the step is followed by `back`).
pub fn run_tree(cmds: &str, out: &str, ct: u32, st: u32, variant: &str) -> Value {
    let cmds = read_ndjson(cmds);
    let mut t = Trace::create(out);
    let (mut runs, mut steps, mut rebuilds, mut panics) = (0u64, 0u64, 0u64, 0u64);
    let mut tab: Option<Tab> = None;
    let mut path: Vec<Value> = vec![];
    let mut v = variant_of(variant, 0);
    // the addresses that occur in the command stream (the trace specification builds its cache over them)
    let mut addrs: Vec<u64> = cmds.iter().filter_map(|c| c["addr"].as_u64()).collect();
    addrs.sort();
    addrs.dedup();
    for c in &cmds {
        match c["op"].as_str().unwrap() {
            "reset" => {
                v = variant_of(variant, runs);
                runs += 1;
                tab = Some(Tab::new(v, ct, st));
                path.clear();
                t.ev(json!({"op":"reset","run":runs,"ct":ct,"st":st,"w":W,"addrs":addrs,"variant":v.name}));
            }
            "back" => {
                let k = c["to"].as_u64().unwrap() as usize;
                assert!(k <= path.len(), "back beyond the current path");
                path.truncate(k);
                let mut nt = Tab::new(v, ct, st);
                for p in &path {
                    nt.step(p);
                }
                tab = Some(nt);
                rebuilds += 1;
                t.ev(json!({"op":"back","to":k}));
            }
            _ => {
                let tb = tab.as_mut().expect("reset first");
                let ev = tb.step(c);
                if ev["ok"] == json!(false) {
                    panics += 1;
                }
                steps += 1;
                // the node reached is at depth d (0: not a node of the tree - the path is not extended)
                let d = c["d"].as_u64().unwrap_or(0) as usize;
                path.push(c.clone());
                assert!(d == 0 || d == path.len(), "tree depth does not follow the path");
                t.ev(ev);
            }
        }
    }
    let events = t.finish();
    json!({"runs": runs, "steps": steps, "events": events, "rebuilds": rebuilds, "panics": panics})
}

pub fn run_random(nruns: u64, len: u64, ct: u32, st: u32, out: &str, prof: &str) -> Value {
    let mut t = Trace::create(out);
    let mut rng = rng(110 + ct as u64 * 1000 + st as u64);
    let (mut steps, mut panics) = (0u64, 0u64);
    let deltas: Vec<u64> = vec![0, 1, 1, 1, 2, st.saturating_sub(1) as u64, st as u64, st as u64 + 1, ct.saturating_sub(1) as u64, ct as u64, ct as u64 + 1];
    for run in 0..nruns {
        let v = variant_of("all", run);
        t.ev(json!({"op":"reset","run":run + 1,"ct":ct,"st":st,"w":W,"addrs":(0..16).collect::<Vec<u64>>(),"variant":v.name}));
        let mut tb = Tab::new(v, ct, st);
        let mut up = [false; NPEERS];
        let mut last: Vec<Vec<(u64, u64)>> = vec![vec![]; NPEERS];
        // a few addresses and ranges are favoured so that cached decisions, ties and nesting occur often
        let hot: Vec<u64> = (0..3).map(|_| rng.gen_range(0..16)).collect();
        // 0 mixed, 1 churn of announcements, 2 lookups and time, 3 learning
        let profile = prof.parse::<u64>().unwrap_or(run % 4);
        for _ in 0..len {
            steps += 1;
            let addr = if rng.gen_bool(0.7) { hot[rng.gen_range(0..hot.len())] } else { rng.gen_range(0..16) };
            let p = rng.gen_range(0..NPEERS);
            let x = rng.gen_range(0..100);
            let (w_ann, w_dis, w_learn, w_look) = match profile {
                0 => (25, 5, 10, 35),
                1 => (50, 8, 4, 23),
                2 => (15, 3, 5, 45),
                _ => (12, 6, 35, 30),
            };
            let cmd = if x < w_ann {
                let list: Vec<(u64, u64)> = match rng.gen_range(0..10) {
                    0 => vec![],                                        // withdraw everything
                    1 | 2 => last[p].clone(),                           // re-announce
                    3 if !last[p].is_empty() => {
                        // shrink / permute the previous announcement
                        let mut l = last[p].clone();
                        if rng.gen_bool(0.5) {
                            l.remove(rng.gen_range(0..l.len()));
                        }
                        if l.len() > 1 {
                            let (i, j) = (rng.gen_range(0..l.len()), rng.gen_range(0..l.len()));
                            l.swap(i, j);
                        }
                        l
                    }
                    4 if !last[p].is_empty() => {
                        // grow (possibly a duplicate entry)
                        let mut l = last[p].clone();
                        let plen = rng.gen_range(0..=W as u64);
                        l.push(if rng.gen_bool(0.2) { l[0] } else { (rng.gen_range(0..16), plen) });
                        l
                    }
                    _ => {
                        let n = rng.gen_range(1..=3);
                        (0..n)
                            .map(|_| {
                                let plen = rng.gen_range(0..=W as u64);
                                let b = if rng.gen_bool(0.6) { hot[rng.gen_range(0..hot.len())] } else { rng.gen_range(0..16) };
                                // mostly canonical bases, sometimes with host bits set
                                let b = if rng.gen_bool(0.7) { b >> (W as u64 - plen) << (W as u64 - plen) } else { b };
                                (b, plen)
                            })
                            .collect()
                    }
                };
                last[p] = list.clone();
                up[p] = true;
                json!({"op":"announce","peer":p,"list":list.iter().map(|(b, pl)| json!([b, pl])).collect::<Vec<_>>()})
            } else if x < w_ann + w_dis {
                up[p] = false;
                last[p].clear();
                json!({"op":"disconnect","peer":p})
            } else if x < w_ann + w_dis + w_learn {
                // only connected peers deliver frames
                let ups: Vec<usize> = (0..NPEERS).filter(|i| up[*i]).collect();
                if ups.is_empty() {
                    json!({"op":"lookup","addr":addr})
                } else {
                    json!({"op":"learn","addr":addr,"peer":ups[rng.gen_range(0..ups.len())]})
                }
            } else if x < w_ann + w_dis + w_learn + w_look {
                json!({"op":"lookup","addr":addr})
            } else {
                json!({"op":"advance","dt":deltas[rng.gen_range(0..deltas.len())]})
            };
            let ev = tb.step(&cmd);
            if ev["ok"] == json!(false) {
                panics += 1;
            }
            t.ev(ev);
        }
    }
    let events = t.finish();
    json!({"runs": nruns, "steps": steps, "events": events, "panics": panics})
}

// --------------------------------------------------------------------------------------------- prefix matching

fn addr_of(bytes: &[u8]) -> Address {
    let mut data = [0u8; 16];
    data[..bytes.len()].copy_from_slice(bytes);
    Address { data, len: bytes.len() as u8 }
}

fn real_match(base: &[u8], plen: u8, addr: &[u8]) -> Result<bool, String> {
    let r = Range { base: addr_of(base), prefix_len: plen };
    let a = addr_of(addr);
    guarded(|| r.matches(a))
}

/// maximal runs of `true` in answers[0..n]
fn runs_of(n: usize, f: impl Fn(usize) -> bool) -> Vec<Value> {
    let mut runs = vec![];
    let mut start: Option<usize> = None;
    for i in 0..n {
        if f(i) {
            if start.is_none() {
                start = Some(i);
            }
        } else if let Some(s) = start.take() {
            runs.push(json!([s, i - 1]));
        }
    }
    if let Some(s) = start {
        runs.push(json!([s, n - 1]));
    }
    runs.truncate(8);
    runs
}

struct PStat {
    calls: u64,
    panics: u64,
    rows: u64,
}

fn row(t: &mut Trace, st: &mut PStat, base: &[u8], plen: u8, addr: &[u8], k: usize, fam: &str) {
    let mut ans = [false; 256];
    let mut ok = true;
    let mut a = addr.to_vec();
    for v in 0..256usize {
        a[k] = v as u8;
        match real_match(base, plen, &a) {
            Ok(b) => ans[v] = b,
            Err(_) => {
                ok = false;
                st.panics += 1;
            }
        }
    }
    st.calls += 256;
    st.rows += 1;
    t.ev(json!({"op":"row","fam":fam,"base":base,"plen":plen,"addr":addr,"k":k + 1,"res": if ok {"ok"} else {"panic"},
                "runs": runs_of(256, |i| ans[i])}));
}

pub fn run_prefix(tier: &str, out: &str) -> Value {
    let quick = tier != "thorough";
    let mut t = Trace::create(out);
    let mut rng = rng(111);
    let mut st = PStat { calls: 0, panics: 0, rows: 0 };
    let lens = [1usize, 2, 4, 6, 8, 16];
    // (1) the complete 8-bit universe: every base x prefix length 0..=20 x every address
    for b in 0..256usize {
        for p in 0..=20u8 {
            row(&mut t, &mut st, &[b as u8], p, &[0], 0, "u8");
        }
    }
    // (2) the 8-bit universe embedded at every byte offset of 2/4/6/8/16-byte addresses; the other bytes equal,
    //     or one byte in front of / behind the position differing
    let bases: Vec<u8> = if quick {
        let mut v: Vec<u8> = vec![0, 255, 128, 127, 1, 254, 0x55, 0xaa];
        v.extend((0..24).map(|i| ((i * 37 + 11) % 256) as u8));
        v
    } else {
        (0..=255).collect()
    };
    for &l in &lens[1..] {
        for k in 0..l {
            for &b in &bases {
                let mut base: Vec<u8> = (0..l).map(|_| rng.gen()).collect();
                base[k] = b;
                for n in 0..=20usize {
                    let p = (8 * k + n).min(255) as u8;
                    row(&mut t, &mut st, &base, p, &base, k, "embedded-eq");
                    if k > 0 {
                        let mut a = base.clone();
                        let j = rng.gen_range(0..k);
                        a[j] ^= 1 << rng.gen_range(0..8);
                        row(&mut t, &mut st, &base, p, &a, k, "embedded-before");
                    }
                    if k + 1 < l && (n > 8 || rng.gen_bool(0.3)) {
                        let mut a = base.clone();
                        let j = rng.gen_range(k + 1..l);
                        a[j] ^= 1 << rng.gen_range(0..8);
                        row(&mut t, &mut st, &base, p, &a, k, "embedded-after");
                    }
                }
            }
        }
    }
    // (3) 16-bit universe: base grid x prefix length 0..=20 x all 65536 addresses
    let nb = if quick { 48 } else { 2048 };
    let mut grid: Vec<u16> = vec![0, 0xffff, 0x8000, 0x7fff, 0x00ff, 0xff00, 0x0100, 0x0080, 0xaaaa, 0x5555, 0x0001, 0xfffe];
    while grid.len() < nb {
        grid.push(rng.gen());
    }
    let mut ans = vec![false; 65536];
    for &b in &grid {
        let bb = [(b >> 8) as u8, b as u8];
        for p in 0..=20u8 {
            let mut ok = true;
            for a in 0..65536usize {
                match real_match(&bb, p, &[(a >> 8) as u8, a as u8]) {
                    Ok(x) => ans[a] = x,
                    Err(_) => {
                        ok = false;
                        ans[a] = false;
                        st.panics += 1;
                    }
                }
            }
            st.calls += 65536;
            st.rows += 1;
            t.ev(json!({"op":"row16","base":b,"plen":p,"res": if ok {"ok"} else {"panic"},"runs": runs_of(65536, |i| ans[i])}));
        }
    }
    // (4) random 4/6/8/16-byte addresses x prefix lengths 0..=255: the address shares c leading bits with the base
    let nrand = if quick { 30_000 } else { 400_000 };
    let mut singles = 0u64;
    for i in 0..nrand {
        let l = [4usize, 6, 8, 16][i % 4];
        let base: Vec<u8> = (0..l).map(|_| rng.gen()).collect();
        let mut addr: Vec<u8> = (0..l).map(|_| rng.gen()).collect();
        let c = rng.gen_range(0..=8 * l);
        for bit in 0..c {
            let m = 1u8 << (7 - bit % 8);
            addr[bit / 8] = (addr[bit / 8] & !m) | (base[bit / 8] & m);
        }
        if c < 8 * l && rng.gen_bool(0.8) {
            // make bit c the first difference
            let m = 1u8 << (7 - c % 8);
            addr[c / 8] = (addr[c / 8] & !m) | (!base[c / 8] & m);
        }
        let plen: u8 = match rng.gen_range(0..4) {
            0 => rng.gen(),
            1 => (c as i64 + rng.gen_range(-2..=2)).clamp(0, 255) as u8,
            2 => ((8 * l) as i64 + rng.gen_range(-1..=2)).clamp(0, 255) as u8,
            _ => rng.gen_range(0..=(8 * l) as u16) as u8,
        };
        let r = real_match(&base, plen, &addr);
        if r.is_err() {
            st.panics += 1;
        }
        st.calls += 1;
        singles += 1;
        t.ev(json!({"op":"match","fam":"random","base":base,"plen":plen,"addr":addr,"res": if r.is_ok() {"ok"} else {"panic"},
                    "got": r.unwrap_or(false)}));
    }
    // (5) families are disjoint: ranges and addresses of different lengths with identical leading bytes
    for &l1 in &lens {
        for &l2 in &lens {
            for rep in 0..4 {
                let long: Vec<u8> = if rep == 0 { vec![0; 16] } else { (0..16).map(|_| rng.gen()).collect() };
                for plen in [0u8, 1, 7, 8, 9, (8 * l1.min(l2)) as u8, (8 * l1.max(l2)).min(255) as u8, 255] {
                    let r = real_match(&long[..l1], plen, &long[..l2]);
                    if r.is_err() {
                        st.panics += 1;
                    }
                    st.calls += 1;
                    singles += 1;
                    t.ev(json!({"op":"match","fam": if l1 == l2 {"same-length"} else {"length-mismatch"},"base":&long[..l1],"plen":plen,
                                "addr":&long[..l2],"res": if r.is_ok() {"ok"} else {"panic"},"got": r.unwrap_or(false)}));
                }
            }
        }
    }
    let events = t.finish();
    json!({"runs": 1, "steps": st.calls, "events": events, "rows": st.rows, "singles": singles, "panics": st.panics,
           "bases16": grid.len(), "bases8_embedded": bases.len()})
}

pub fn run(args: &[String]) -> Value {
    let a = |i: usize| args.get(i).map(|s| s.as_str()).unwrap_or("");
    let n = |i: usize| a(i).parse::<u64>().expect("numeric argument");
    match a(0) {
        "tree" => run_tree(a(1), a(2), n(3) as u32, n(4) as u32, a(5)),
        "random" => run_random(n(1), n(2), n(3) as u32, n(4) as u32, a(5), a(6)),
        "prefix" => run_prefix(a(1), a(2)),
        _ => panic!("usage: table tree|random|prefix ..."),
    }
}
