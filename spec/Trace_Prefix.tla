---------------------------- MODULE Trace_Prefix ----------------------------
(* Trace validation for Prefix: every recorded answer of the real Range::matches must be the specification's.      *)
(*   match  one call:  got = MatchesBytes(base, plen, addr)                                                         *)
(*   row    256 calls: addr with byte k (1-based) replaced by 0..255; the driver reports the maximal runs of        *)
(*          matching values; they must be RowRuns (proved to be the matching set by MC_Prefix.RowsAreSets)           *)
(*   row16  65536 calls on 2-byte addresses for one base/plen; runs of matching addresses must be the aligned       *)
(*          interval (MC_Prefix.RunsAreSet), and the numeric, interval and byte-wise statements must agree at the   *)
(*          run's borders                                                                                            *)
(* A panic of the code under test is recorded as res = "panic" and is never admitted.                               *)
EXTENDS Prefix, TLC, Json, IOUtils

Rec == ndJsonDeserialize(IOEnv.TRACE)
N == Len(Rec)
VARIABLE l

Bytes2(x) == <<x \div 256, x % 256>>

Border16(base, plen) ==
  LET pts == IF plen <= 16
             THEN {Lo(base, plen, 16), Hi(base, plen, 16), base} \cup
                  (IF Lo(base, plen, 16) > 0 THEN {Lo(base, plen, 16) - 1} ELSE {}) \cup
                  (IF Hi(base, plen, 16) < 65535 THEN {Hi(base, plen, 16) + 1} ELSE {})
             ELSE {base, 0, 65535} IN
  \A x \in pts : /\ Matches(base, plen, x, 16) <=> InInterval(base, plen, x, 16)
                 /\ Matches(base, plen, x, 16) <=> MatchesBytes(Bytes2(base), plen, Bytes2(x))

Step(e) ==
  CASE e.op = "match" -> e.res = "ok" /\ e.got = MatchesBytes(e.base, e.plen, e.addr)
    [] e.op = "row"   -> e.res = "ok" /\ e.runs = RowRuns(e.base, e.plen, e.addr, e.k)
    [] e.op = "row16" -> e.res = "ok" /\ e.runs = Runs(e.base, e.plen, 16) /\ Border16(e.base, e.plen)
    [] OTHER -> FALSE

TraceInit == l = 1
TraceNext == l <= N /\ l' = l + 1 /\ Step(Rec[l])
TraceSpec == TraceInit /\ [][TraceNext]_l

Accepted == IF TLCGet("stats").diameter - 1 = N THEN TRUE
            ELSE Print(<<"REJECTED", TLCGet("stats").diameter, Rec[TLCGet("stats").diameter]>>, FALSE)
=============================================================================
