//! C07 (and the seal log for C04): key rotation on real PeerCrypto pairs after a real handshake.
//! `rot sched <schedules.ndjson> <trace.ndjson> <probe-mode>`: TLC schedules; one cycle = 120 every_second calls.
//! `rot random <runs> <seconds> <trace.ndjson>`: per-second random runs with loss / duplication / delay, then reliable.
use super::conn::*;
use super::util::*;
use crate::crypto::{Crypto, MessageResult, PeerCrypto};
use crate::messages::NodeInfo;
use rand::Rng;
use serde_json::{json, Value};
use std::collections::HashMap;

pub struct Ends {
    pub a: PeerCrypto<NodeInfo>,
    pub b: PeerCrypto<NodeInfo>,
}

impl Ends {
    pub fn get(&mut self, p: &str) -> &mut PeerCrypto<NodeInfo> {
        if p == "A" {
            &mut self.a
        } else {
            &mut self.b
        }
    }
    fn cur(&mut self, p: &str) -> usize {
        self.get(p).verif_core().unwrap().verif_current_key()
    }
    fn fp(&mut self, p: &str, slot: usize) -> [u8; 16] {
        self.get(p).verif_core().unwrap().verif_slot_fingerprint(slot)
    }
    /// observation after a step: current slot of each end and whether the peer holds the same key material there
    fn obs(&mut self) -> Value {
        let (ca, cb) = (self.cur("A"), self.cur("B"));
        let agree_a = self.fp("A", ca) == self.fp("B", ca);
        let agree_b = self.fp("B", cb) == self.fp("A", cb);
        let ra = self.a.verif_rotation().map(|r| r.verif_state());
        let rb = self.b.verif_rotation().map(|r| r.verif_state());
        let f = |r: Option<(u64, bool, bool, bool, bool)>| match r {
            Some((id, p, q, c, t)) => json!({"id": id, "prop": p, "pend": q, "conf": c, "tmo": t}),
            None => json!({"id": 0, "prop": false, "pend": false, "conf": false, "tmo": false}),
        };
        json!({"cur": {"A": ca, "B": cb}, "agree": {"A": agree_a, "B": agree_b}, "int": {"A": f(ra), "B": f(rb)}})
    }
    fn probe(&mut self, from: &str, t: &mut Trace, n: &mut u64) {
        *n += 1;
        let payload: Vec<u8> = (0..24).map(|i| (*n as u8).wrapping_add(i)).collect();
        let to = if from == "A" { "B" } else { "A" };
        let d = seal_data(self.get(from), &payload);
        let keyid = d[0];
        let ok = open_data(self.get(to), &d).map(|p| p == payload).unwrap_or(false);
        t.ev(json!({"op":"probe","from":from,"to":to,"ok":ok,"keyid":keyid}));
    }
}

fn merge(mut ev: Value, obs: Value) -> Value {
    for (k, v) in obs.as_object().unwrap() {
        ev[k] = v.clone();
    }
    ev
}

pub fn run_sched(sched_path: &str, out_path: &str, probe_each: bool) -> Value {
    set_speeds([600.0, 500.0, 400.0]);
    let crypto = [pw_crypto(1, "pw"), pw_crypto(2, "pw")];
    let scheds = read_ndjson(sched_path);
    let mut t = Trace::create(out_path);
    let (mut runs, mut steps, mut refused, mut nprobe) = (0u64, 0u64, 0u64, 0u64);
    for sched in &scheds {
        runs += 1;
        let (a, b, first) = handshake(&crypto);
        let mut e = Ends { a, b };
        t.ev(json!({"op":"reset","run":runs,"probes":probe_each}));
        let mut sent: Vec<Vec<u8>> = vec![first];
        let mut wire: HashMap<String, usize> = HashMap::new();
        wire.insert(json!({"to":"A","id":1,"propose":["B",1],"confirm":[]}).to_string(), 1);
        for st in sched.as_array().unwrap() {
            steps += 1;
            match st["op"].as_str().unwrap() {
                "drop" => continue,
                "cycle" => {
                    let p = st["p"].as_str().unwrap();
                    let mut emitted: Option<Vec<u8>> = None;
                    let mut multi = false;
                    for _ in 0..120 {
                        let o = tick(e.get(p));
                        if !o.out.is_empty() {
                            if emitted.is_some() {
                                multi = true;
                            }
                            emitted = Some(o.out);
                        }
                    }
                    let mut k = 0;
                    if let Some(bytes) = &emitted {
                        sent.push(bytes.clone());
                        k = sent.len();
                        if let Some(m) = st["emit"].as_array().and_then(|a| a.get(0)) {
                            wire.insert(m.to_string(), k);
                        }
                    }
                    let ev = json!({"op":"ticks","p":p,"n":120,"emitted":emitted.is_some() && !multi,"k":k});
                    t.ev(merge(ev, e.obs()));
                }
                "recv" => {
                    let p = st["p"].as_str().unwrap();
                    let k = match wire.get(&st["m"].to_string()) {
                        Some(k) => *k,
                        None => {
                            // the code did not emit what the specification expected earlier; the trace already shows it
                            t.ev(json!({"op":"skip","why":"message not emitted by the code"}));
                            continue;
                        }
                    };
                    let bytes = sent[k - 1].clone();
                    let o = feed(e.get(p), &bytes);
                    let acc = matches!(o.res, Ok(MessageResult::None));
                    if !acc {
                        refused += 1;
                    }
                    let ev = json!({"op":"recv","p":p,"k":k,"acc":acc});
                    t.ev(merge(ev, e.obs()));
                }
                other => panic!("unknown op {}", other),
            }
            if probe_each {
                e.probe("A", &mut t, &mut nprobe);
                e.probe("B", &mut t, &mut nprobe);
            }
        }
        e.probe("A", &mut t, &mut nprobe);
        e.probe("B", &mut t, &mut nprobe);
    }
    let events = t.finish();
    json!({"runs": runs, "steps": steps, "events": events, "window_refused": refused, "probes": nprobe})
}

struct InFlight {
    due: i64,
    to: &'static str,
    k: usize,
}

/// Per-second random runs.  Phase 1 (chaos): rotation datagrams are dropped / duplicated / delayed; phase 2: reliable.
/// `fresh` runs are reliable from the start (freshness bound 2 intervals).
pub fn run_random(nruns: u64, seconds: i64, out_path: &str) -> Value {
    set_speeds([600.0, 500.0, 400.0]);
    let crypto = [pw_crypto(1, "pw"), pw_crypto(2, "pw")];
    let mut t = Trace::create(out_path);
    let mut rng = rng(7);
    let (mut steps, mut nprobe, mut cycles) = (0u64, 0u64, 0u64);
    for run in 0..nruns {
        let fresh = run % 3 == 0;
        let (a, b, first) = handshake(&crypto);
        let mut e = Ends { a, b };
        t.ev(json!({"op":"reset","run":run + 1,"probes":true}));
        // A completed one round trip before B: model a random phase offset of up to 119 s by pre-ticking one end
        let off = rng.gen_range(0..120);
        let lead = if rng.gen_bool(0.5) { "A" } else { "B" };
        let mut sent: Vec<Vec<u8>> = vec![first];
        let mut net: Vec<InFlight> = vec![InFlight { due: 0, to: "A", k: 1 }];
        if off > 0 {
            for _ in 0..off {
                tick(e.get(lead));
            }
            t.ev(merge(json!({"op":"ticks","p":lead,"n":off,"emitted":false,"k":0}), e.obs()));
        }
        let chaos_until: i64 = if fresh { 0 } else { rng.gen_range(200..seconds / 2) };
        let mut reliable_logged = false;
        for now in 0..seconds {
            t.ev(json!({"op":"time","t":now}));
            let chaos = now < chaos_until;
            if !chaos && !reliable_logged && net.iter().all(|m| m.due <= now) {
                reliable_logged = true;
                t.ev(json!({"op":"reliable","t":now}));
            }
            // deliveries due now (random order during chaos)
            let mut due: Vec<InFlight> = vec![];
            let mut rest: Vec<InFlight> = vec![];
            for m in net.drain(..) {
                if m.due <= now {
                    due.push(m)
                } else {
                    rest.push(m)
                }
            }
            net = rest;
            if chaos {
                use rand::seq::SliceRandom;
                due.shuffle(&mut rng);
            }
            for m in due {
                steps += 1;
                let bytes = sent[m.k - 1].clone();
                let o = feed(e.get(m.to), &bytes);
                let acc = matches!(o.res, Ok(MessageResult::None));
                t.ev(merge(json!({"op":"recv","p":m.to,"k":m.k,"acc":acc}), e.obs()));
            }
            // both ends tick (order random)
            let order = if rng.gen_bool(0.5) { ["A", "B"] } else { ["B", "A"] };
            for p in order {
                steps += 1;
                let o = tick(e.get(p));
                let mut k = 0;
                if !o.out.is_empty() {
                    cycles += 1;
                    sent.push(o.out.clone());
                    k = sent.len();
                    let to: &'static str = if p == "A" { "B" } else { "A" };
                    if chaos {
                        let x: f64 = rng.gen();
                        if x < 0.3 {
                            // dropped
                        } else {
                            let copies = if rng.gen_bool(0.25) { 2 } else { 1 };
                            for _ in 0..copies {
                                let d = if rng.gen_bool(0.4) { rng.gen_range(1..300) } else { 0 };
                                net.push(InFlight { due: now + 1 + d, to, k });
                            }
                        }
                    } else {
                        net.push(InFlight { due: now + 1, to, k });
                    }
                }
                t.ev(merge(json!({"op":"ticks","p":p,"n":1,"emitted":k > 0,"k":k}), e.obs()));
            }
            // payload in both directions (not every second, so that delayed rotation datagrams sometimes survive)
            if rng.gen_bool(0.6) {
                e.probe("A", &mut t, &mut nprobe);
            }
            if rng.gen_bool(0.6) {
                e.probe("B", &mut t, &mut nprobe);
            }
        }
    }
    let events = t.finish();
    json!({"runs": nruns, "steps": steps, "events": events, "probes": nprobe, "rotation_messages": cycles})
}
