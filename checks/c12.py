"""C12 - routes track peers: exactly the announced claims, nothing for the disconnected.

Table level (Table.tla, checks/tablecommon with focus C12): announcement sequences per peer over all subsets and
orders of a 4-claim universe (grow, shrink, permute, duplicates) on the real ClaimTable, ClaimsAreLastAnnouncement and
NextHopsArePeers as invariants of the trace specification.
Node level: router-mode meshes of real mock nodes in which peers restart on the same address with different claims,
go silent (time-out), send close, or have a replayed handshake fail, interleaved with traffic and time; after every
step every node's table dump is compared with its peer list and TLC judges the record (Trace_NodeRuns.C12DumpOK):
claims attributed to a peer = its last announcement, every claim and cached decision points at a current peer; no
payload datagram ever goes to a non-peer."""
import os
import vplib as V
from checks import cloudcommon
from checks import noderuns

PID = "C12"


def classify(e):
    if e.get("op") == "c12dump":
        pa = {p["a"] for p in e["peers"]}
        if any(c["p"] not in pa for c in e["claims"]) or any(c["p"] not in pa for c in e["cache"]):
            return "c12|%s|route-to-non-peer" % e["after"]
        return "c12|%s|stale-or-missing-claims" % e["after"]
    if e.get("op") == "c12send":
        return "c12|payload-sent-to-non-peer"
    return "c12|%s" % e.get("op")


def run(tier, out):
    wd = V.workdir(PID)
    V.build_harness()
    cov_table = {}
    try:
        from checks import tablecommon
        cov_table = tablecommon.run_table_part(PID, out, tier, "C12") or {}
        cov_table.pop("tree_trace", None)
    except ImportError:
        cov_table = {"note": "table-level part not available"}
    tp = os.path.join(wd, "trace.ndjson")
    s = V.harness_json(["node", "c12", tier, tp], timeout=7200)
    accepted = noderuns.validate_records(PID, out, tp, classify, "C12 node-level scenarios")
    st = "skipped (violations found)"
    if not out.violations:
        dst = os.path.join(wd, "selftest.ndjson")
        hit = V.corrupt_trace(tp, dst, lambda e: e["op"] == "c12dump" and e["peers"] and e["peers"][0]["expect"],
                              lambda e: e["claims"].append({"p": e["peers"][0]["a"], "r": "10.99.0.0/16"}))
        v = V.tlc_trace("Trace_NodeRuns.tla", "Trace_NodeRuns.cfg", PID, dst, s["events"], sub="selftest")
        if hit is None or v.accepted or v.matched != hit - 1:
            V.selftest_fail(PID, "a dump with a claim the peer never announced (line %s) was not rejected there" % hit)
        st = "dump with an extra claim at line %d rejected by TLC" % hit
    evs = V.read_ndjson(tp)
    kinds = {}
    for e in evs:
        k = e.get("after", e["op"])
        kinds[k] = kinds.get(k, 0) + 1
    states = cov_table.get("states", 0)
    cov = {
        "traces_validated_against_impl": accepted + cov_table.get("traces_validated_against_impl", 0),
        "samples": [next(e for e in evs if e["op"] == "c12dump" and e["after"] == "restart")],
        "evaluations": s["events"] + cov_table.get("evaluations", 0), "distinct_nontrivial": s["events"],
        "rule": "node level: %d runs x %d random steps on 4-node router meshes, one record per (step, node): %s; table level: %s" % (
            s["runs"], s["steps"] // max(1, s["runs"]), kinds, {k: v for k, v in cov_table.items() if k in ("states", "transitions", "rule")}),
        "self_test": st,
        "table_level": cov_table,
    }
    if states:
        cov["states"] = states
        cov["transitions"] = cov_table.get("transitions", states)
    else:
        cov["explanation"] = "no design-level state graph in this run"
    cloudcommon.design(PID, tier, out, cov)
    cloudcommon.part(PID, tier, out, cov, extra={"restart / silence / close runs": tp + ".cloud"})
    return out.finish("model_checking", cov, assumptions=[
        "peer timeout 130 s in the recorded runs; a restarted node dials one other node; nodes that nobody knows any more stay isolated (no bootstrap) - not a C12 matter",
        "the expected claims of a peer entry are those the harness configured for the node instance whose node id the entry carries"])
