---------------------------- MODULE NonceWindow ----------------------------
(***************************************************************************)
(* Replay window and send counters of one direction of a connection.       *)
(*                                                                         *)
(* Code: src/crypto/core.rs  CryptoKey {send_nonce, seen_nonce,            *)
(*       next_min_nonce, min_nonce}, CryptoCore::{encrypt, decrypt,        *)
(*       decrypt_with_key, every_second, rotate_key}.                      *)
(*                                                                         *)
(* One sender end and one receiver end share four key slots.  A slot holds *)
(* a key *generation*; rotate_key replaces the generation of a slot at     *)
(* both ends (the protocol that keeps the two ends in step is Rotation.tla)*)
(* Counters are modelled relative to the random start value of the key:    *)
(* the k-th datagram sealed under a key carries counter k.                 *)
(*                                                                         *)
(* Implementation-shaped variables: sent, seen, nextMin, min, cur, gen.    *)
(* History variables (only used by the properties): epoch, accLog, dgrams. *)
(***************************************************************************)
EXTENDS Naturals, FiniteSets

CONSTANTS Slots          \* key slots (the code: 0..3)

VARIABLES gen,       \* gen[k]: generation of the key held in slot k (both ends)
          cur,       \* slot the sender seals with
          sent,      \* sent[k]: number of datagrams sealed under the key in slot k
          seen,      \* seen[k]: highest counter opened so far (receiver)
          nextMin,   \* nextMin[k]: threshold in preparation
          min,       \* min[k]: threshold in force
          epoch,     \* number of housekeeping ticks so far
          accLog,    \* set of <<slot, gen, ctr, epoch>> of accepted deliveries
          dgrams,    \* set of <<slot, gen, ctr>> ever sealed (what an attacker may have captured)
          last       \* label of the last action (for schedule export)

implVars == <<gen, cur, sent, seen, nextMin, min>>
histVars == <<epoch, accLog, dgrams>>
vars == <<gen, cur, sent, seen, nextMin, min, epoch, accLog, dgrams, last>>

Init ==
  /\ gen = [k \in Slots |-> 0]
  /\ cur = 0
  /\ sent = [k \in Slots |-> 0]
  /\ seen = [k \in Slots |-> 0]
  /\ nextMin = [k \in Slots |-> 0]
  /\ min = [k \in Slots |-> 0]
  /\ epoch = 0
  /\ accLog = {}
  /\ dgrams = {}
  /\ last = [op |-> "init"]

\* CryptoCore::encrypt: increment-before-use on the current slot
Seal ==
  /\ sent' = [sent EXCEPT ![cur] = @ + 1]
  /\ dgrams' = dgrams \cup {<<cur, gen[cur], sent[cur] + 1>>}
  /\ last' = [op |-> "seal", slot |-> cur, gen |-> gen[cur], ctr |-> sent[cur] + 1]
  /\ UNCHANGED <<gen, cur, seen, nextMin, min, epoch, accLog>>

\* what the code decides: the key in the slot must be the one the datagram was sealed with (otherwise the tag
\* does not verify) and the counter must not be below the threshold in force
ImplAccept(k, g, c) == g = gen[k] /\ c >= min[k]

\* CryptoCore::decrypt of an intact datagram <<k, g, c>>
Deliver(k, g, c) ==
  /\ <<k, g, c>> \in dgrams
  /\ IF ImplAccept(k, g, c)
     THEN /\ seen' = [seen EXCEPT ![k] = IF @ < c THEN c ELSE @]
          /\ accLog' = accLog \cup {<<k, g, c, epoch>>}
     ELSE UNCHANGED <<seen, accLog>>
  /\ last' = [op |-> "deliver", slot |-> k, gen |-> g, ctr |-> c, acc |-> ImplAccept(k, g, c)]
  /\ UNCHANGED <<gen, cur, sent, nextMin, min, epoch, dgrams>>

\* a datagram altered in transit (any bit of key id, counter, ciphertext, tag; or truncated): never opens,
\* leaves no trace in the window (seen is raised only after a successful open)
DeliverTampered(k, g, c) ==
  /\ <<k, g, c>> \in dgrams
  /\ last' = [op |-> "tampered", slot |-> k, gen |-> g, ctr |-> c, acc |-> FALSE]
  /\ UNCHANGED <<gen, cur, sent, seen, nextMin, min, epoch, accLog, dgrams>>

\* CryptoCore::every_second -> CryptoKey::update_min_nonce on all four slots
Tick ==
  /\ min' = nextMin
  /\ nextMin' = [k \in Slots |-> seen[k] + 1]
  /\ epoch' = epoch + 1
  /\ last' = [op |-> "tick"]
  /\ UNCHANGED <<gen, cur, sent, seen, accLog, dgrams>>

\* CryptoCore::rotate_key(key, id, use_for_sending): slot id mod 4 gets a fresh CryptoKey
Rotate(k, sending) ==
  /\ gen' = [gen EXCEPT ![k] = @ + 1]
  /\ sent' = [sent EXCEPT ![k] = 0]
  /\ seen' = [seen EXCEPT ![k] = 0]
  /\ nextMin' = [nextMin EXCEPT ![k] = 0]
  /\ min' = [min EXCEPT ![k] = 0]
  /\ cur' = IF sending THEN k ELSE cur
  /\ last' = [op |-> "rotate", slot |-> k, sending |-> sending]
  /\ UNCHANGED <<epoch, accLog, dgrams>>

\* Session level only (not part of Next, used by the trace specification for runs of real PeerCrypto pairs): in a
\* session the receiver installs a rotated key first (Rotate(k, FALSE)) and the sender switches to it one message
\* later (rotate_key with use_for_sending at the sender).  Which keys the two ends hold when is Rotation.tla's subject.
Use(k) ==
  /\ cur' = k
  /\ last' = [op |-> "use", slot |-> k]
  /\ UNCHANGED <<gen, sent, seen, nextMin, min, epoch, accLog, dgrams>>

Next == \/ Seal
        \/ Tick
        \/ \E d \in dgrams : Deliver(d[1], d[2], d[3]) \/ DeliverTampered(d[1], d[2], d[3])
        \/ \E k \in Slots, s \in BOOLEAN : Rotate(k, s)

Spec == Init /\ [][Next]_vars

-----------------------------------------------------------------------------
(* C03, stated on the history only.                                          *)
Max(S) == CHOOSE m \in S : \A x \in S : x <= m

\* highest counter accepted under key <<k, g>> before the tick preceding the most recent tick
Threshold(k, g) ==
  LET old == {a[3] : a \in {b \in accLog : b[1] = k /\ b[2] = g /\ b[4] + 2 <= epoch}}
  IN IF old = {} THEN 0 ELSE Max(old)

PropAccept(k, g, c) == g = gen[k] /\ c > Threshold(k, g)

\* the code's decision equals the history rule for every datagram ever sealed
WindowOK == \A d \in dgrams : ImplAccept(d[1], d[2], d[3]) <=> PropAccept(d[1], d[2], d[3])

\* a datagram newer than everything seen under its key is always accepted
NewestAccepted ==
  \A d \in dgrams : (d[2] = gen[d[1]] /\ \A a \in accLog : (a[1] = d[1] /\ a[2] = d[2]) => a[3] < d[3])
                      => ImplAccept(d[1], d[2], d[3])

\* "never afterwards": once the window has closed for a datagram it stays closed
ClosedStaysClosed ==
  [][\A d \in dgrams : ~ImplAccept(d[1], d[2], d[3]) => ~ImplAccept(d[1], d[2], d[3])']_vars

\* C04 (counter part): counters under one key are used once - sealing strictly increases sent
SealIncreases == [][\A k \in Slots : gen'[k] = gen[k] => sent'[k] >= sent[k]]_vars

TypeOK == /\ cur \in Slots
          /\ \A k \in Slots : min[k] <= nextMin[k] /\ nextMin[k] <= seen[k] + 1
=============================================================================
