SPECIFICATION MCSpec
CONSTANTS MaxAdv = 65535
INVARIANT DesignOK
CHECK_DEADLOCK FALSE
