"""C14 - full mesh from any connected bootstrap; a node never peers with itself.

Design level: Mesh.tla - every set of directed dial instructions x every NAT subset whose NAT-passable edges connect the
graph (TLC's initial states) becomes fully meshed after ceil(log2 n) + 1 exchange rounds, and no link joins a node to
itself (n = 2, 3, 4 exhaustively).  Spec -> impl: TLC's initial states are the configurations executed on real mock
nodes (all for n <= 3, a seeded sample (quick) or all (thorough) of the 37 508 for n = 4), plus sampled graphs on 5-8
nodes and self-dial scenarios (own handshake datagrams looped back from every combination of source addresses; a node
behind a port forwarding inside a mesh).  Impl -> spec: TLC judges every run record (Trace_NodeRuns.MeshRunOK /
SelfDialOK): fully meshed by the deadline, stays meshed, nobody ever lists itself, own addresses adopted, not dialled."""
import os
import vplib as V
from checks import cloudcommon
from checks import noderuns

PID = "C14"


def classify(e):
    if e.get("op") == "meshrun":
        what = "self-peer" if e["self_peer"] else ("panic" if e["panics"] else ("not-meshed" if e["t_full"] < 0 else ("late" if e["stable"] else "unstable")))
        return "c14|mesh|n=%d|nat=%d|%s" % (e["n"], len(e["nat"]), what)
    if e.get("op") == "selfdial":
        what = "self-peer" if e["self_peer"] else ("pending-left" if e["pending_left"] else ("own-address-not-adopted" if e["in_mesh"] and not e["learnt"] else "own-alias-dialled-or-mesh"))
        return "c14|selfdial|mesh=%s|%s" % (e["in_mesh"], what)
    return "c14|%s" % e.get("op")


def run(tier, out):
    wd = V.workdir(PID)
    quick = tier == "quick"
    V.build_harness()
    designs, cfgs = [], []
    for n in (2, 3, 4):
        d = V.tlc_design("MC_Mesh.tla", "MC_Mesh_%d.cfg" % n, PID, workers=8, timeout=900)
        designs.append(("Mesh(n=%d)" % n, d))
        if d.invariant_violated:
            out.violation("design|mesh|n=%d" % n, "Mesh.tla violates FullMeshBy / NoSelfLink", {"tlc": d.out[-2000:]})
        cfgs += V.tlc_lines(d.out, "CFG")
    cp = os.path.join(wd, "configs.ndjson")
    V.write_ndjson(cp, cfgs)
    tp = os.path.join(wd, "trace.ndjson")
    s = V.harness_json(["node", "mesh", cp, tier, tp], timeout=7200)
    accepted = noderuns.validate_records(PID, out, tp, classify, "C14 bootstrap configurations")
    st = "skipped (violations found)"
    if not out.violations:
        dst = os.path.join(wd, "selftest.ndjson")
        hit = V.corrupt_trace(tp, dst, lambda e: e["op"] == "meshrun" and e["n"] == 3, lambda e: e.__setitem__("self_peer", True))
        v = V.tlc_trace("Trace_NodeRuns.tla", "Trace_NodeRuns.cfg", PID, dst, s["events"], sub="selftest")
        if hit is None or v.accepted or v.matched != hit - 1:
            V.selftest_fail(PID, "a run in which a node lists itself (line %s) was not rejected there" % hit)
        st = "run record with a self-peer at line %d rejected by TLC" % hit
    evs = V.read_ndjson(tp)
    worst = max([e["t_full"] for e in evs if e["op"] == "meshrun"] or [0])
    cov = {
        "states": sum(d.distinct for _, d in designs), "transitions": sum(d.generated for _, d in designs),
        "design_runs": {n: {"distinct": d.distinct, "generated": d.generated} for n, d in designs},
        "configurations_enumerated_by_tlc": len(cfgs),
        "traces_validated_against_impl": accepted,
        "samples": [evs[0], evs[-1]],
        "evaluations": s["runs"], "distinct_nontrivial": s["runs"],
        "rule": "%d bootstrap configurations enumerated by TLC (n<=4), %d executed on real nodes in this tier incl. sampled 5-8 node graphs and 6 self-dial scenarios; "
                "slowest full mesh after %d ticks" % (len(cfgs), s["runs"], worst),
        "self_test": st,
    }
    cloudcommon.design(PID, tier, out, cov)
    cloudcommon.part(PID, tier, out, cov, extra={"bootstrap and self-dial runs": tp + ".cloud"})
    return out.finish("model_checking", cov, assumptions=[
        "default settings (announcement interval 90 s); dial instructions are configured peers (retried until they answer)",
        "NAT = the mock socket's address filter (passes a sender only after the natted node has sent to it within 300 s)"])
