---------------------------- MODULE MC_Handshake ----------------------------
(* TLC-only definitions for Handshake: constants, bounds, view, labelled transitions for export. *)
EXTENDS Handshake, Json
CONSTANTS MaxGen, MaxNet, RankHigh, TrustMode, AlgoMode, WithBad

MCObjs == {"A", "B"}
\* advertised lists: a tie between two ciphers in different list order (the case C06 is about), or plain on both sides
ListA == IF AlgoMode = "tie" THEN <<<<1, 2>>, <<2, 2>>, <<3, 1>>>> ELSE <<<<1, 3>>, <<3, 1>>>>
ListB == IF AlgoMode = "tie" THEN <<<<2, 2>>, <<1, 2>>>> ELSE <<<<3, 2>>, <<1, 1>>, <<2, 5>>>>
MCAttr == [o \in MCObjs |->
            [node |-> o, rank |-> IF o = RankHigh THEN 2 ELSE 1, key |-> IF o = "A" THEN "kA" ELSE "kB",
             algos |-> IF o = "A" THEN ListA ELSE ListB, plain |-> AlgoMode = "plain", payload |-> <<"info", o>>]]

\* trust relations: "mutual" only, or every relation over the two party keys and a bystander key
AllKeys == {"kA", "kB", "kY"}
MCInit == IF TrustMode = "mutual" THEN InitWith([o \in Objs |-> {"kA", "kB"}])
          ELSE \E tr \in [Objs -> SUBSET AllKeys] : InitWith(tr)

VARIABLE act
mcvars == <<vars, act>>
Mid(m) == ToString(<<m.st, m.node, m.g, IF m.enc = None THEN None ELSE m.enc.k, m.intact, m.signer>>)
Emitted == [i \in 1..(Len(sentSeq') - Len(sentSeq)) |-> Mid(sentSeq'[Len(sentSeq) + i])]
MCNext == \/ \E o \in Objs : StartHs(o) /\ act' = [op |-> "initiate", o |-> o, emit |-> Emitted]
          \/ \E o \in Objs : Tick(o) /\ act' = [op |-> "tick", o |-> o, emit |-> Emitted]
          \/ \E o \in Objs : TickJump(o) /\ act' = [op |-> "jump", o |-> o, emit |-> Emitted]
          \/ \E o \in Objs : \E m \in net : Recv(o, m) /\ act' = [op |-> "recv", o |-> o, m |-> Mid(m), emit |-> Emitted]
          \/ WithBad /\ \E o \in Objs : \E m \in Forged(o) : RecvBad(o, m) /\ act' = [op |-> "bad", o |-> o, m |-> Mid(m), st |-> m.st, forged |-> (m.signer = "kX"), emit |-> <<>>]
          \/ \E m \in net : Drop(m) /\ act' = [op |-> "drop", m |-> Mid(m), emit |-> <<>>]
MCSpec == MCInit /\ act = [op |-> "init"] /\ [][MCNext]_mcvars

Bound == gen <= MaxGen /\ Cardinality(net) <= MaxNet
\* replay graph: single ticks only next to the timer boundaries (leaps cover the rest)
NearBoundary == \A o \in Objs : /\ obj[o].retries \in {0, 1, MAX_RETRIES - 1, MAX_RETRIES}
                                /\ obj[o].closeT \in {CLOSE_TIME, CLOSE_TIME - 1, 1, 0}
BoundReplay == Bound /\ NearBoundary
View == <<obj, trusted, alive, done, role, got, rotSent, gen, net>>

Sid == ToString(<<obj, trusted, alive, done, role, got, rotSent, gen, net>>)
Sid2 == ToString(<<obj', trusted', alive', done', role', got', rotSent', gen', net'>>)
EmitEdge == PrintT(<<"EDGE", ToJson([s |-> Sid, a |-> act', t |-> Sid2])>>)

\* liveness configuration (no drops, no attacker, small timers)
MCLiveSpec == MCInit /\ act = [op |-> "init"] /\ [][LiveNext /\ UNCHANGED act]_mcvars /\ Fairness
=============================================================================
