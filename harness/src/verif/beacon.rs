//! driver stub (filled in by its check)
use serde_json::{json, Value};

pub fn run(_args: &[String]) -> Value {
    json!({"error": "not implemented"})
}
