SPECIFICATION Spec
CONSTANTS N = 3
          MaxTime = 17
          Silent = 0
          FaultKind = "lossy"
          DialKind = "reconnect"
          MAX_RETRIES <- McRetries
          LINGER <- McLinger
          OWN_RESET <- McOwnReset
INVARIANT NodeInvariants
INVARIANT ClaimsAreLastAnnouncement
INVARIANT OwnNeverDialled
INVARIANT RecoversBy
CHECK_DEADLOCK FALSE
