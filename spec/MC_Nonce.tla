------------------------------- MODULE MC_Nonce -------------------------------
(* exhaustive check of the counter algebra for radix 4, 6 digits, 3 transmitted: one initial state per value *)
EXTENDS Nonce, TLC
VARIABLE n
MCInit == n \in Nonces
MCNext == n # AllMax /\ n' = Inc(n)
MCSpec == MCInit /\ [][MCNext]_n
Algebra == IncIsSucc(n) /\ IncNeverRepeats(n) /\ OverflowUndecryptable(n) /\ StaysOut(n)
\* walking the successor relation never revisits a value (strictly increasing until the very last value)
Increasing == [][Less(n, n')]_n
=============================================================================
