INIT Init
NEXT Next
CONSTANTS MaxLen = 2
          First3 = {}
INVARIANT RoundTrip
INVARIANT PlainLoses
INVARIANT Meaning
INVARIANT Canonical
INVARIANT Denotes
INVARIANT Vectors
CHECK_DEADLOCK FALSE
