"""C16 - wire codecs round-trip, skip unknown parts, and are total.

Design level: Codec.tla (reference encoders / decoders / normalisation of NodeInfo, InitMsg, RotationMessage at the
level of message parts) - MC_Codec walks a universe of structural cases (peer / address / claim counts around the
3-bit boundary, optional parts, unknown parts at every position, all short part sequences over an alphabet with
malformed bodies) and checks round trip = normalisation, signature coverage of unknown parts and totality.
Impl -> spec: the real encoders / decoders are run on the quantifier's message family with unknown parts spliced at
every part boundary (handshake datagrams re-signed); every decode is logged as an abstract event and judged by TLC
with Normalise* / Decode* of Codec.tla (Trace_Codec).  Totality: every truncation, single-byte substitutions at
tag / length / count positions, random and structured strings, each also with 64 KiB of stale bytes behind, under
catch_unwind with a per-decode time measurement; family events are judged by TLC (no panic, nothing slow)."""
import hashlib
import json
import os
import re
import threading

import vplib as V

PID = "C16"
TRACE_TLA, TRACE_CFG = "Trace_Codec.tla", "Trace_Codec.cfg"


# ------------------------------------------------------------------------------------------------ signatures

def _digits(s):
    return re.sub(r"\d+", "N", s or "")[:70]


def signature(e):
    """Input class of an event TLC refused (used for known-finding matching; the verdict itself is TLC's)."""
    op = e.get("op")
    if op == "member":
        return "total|%s|%s|%s|%s" % (e["codec"], e["class"], e["res"], _digits(e.get("msg")))
    if op == "family":
        return "total|%s|%s|family" % (e["codec"], e["class"])
    if op == "nodeinfo":
        kind = e["res"] if e["res"] != "ok" else "mismatch"
        return "roundtrip|nodeinfo|%s|unknown-parts=%s%s" % (kind, "some" if e["ins"] else "none",
                                                            "|" + _digits(e["note"]) if e["res"] == "panic" else "")
    if op == "init":
        kind = e["res"] if e["res"] != "ok" else "mismatch"
        return "roundtrip|init|%s|%s%s" % (kind, e["src"], "|" + _digits(e["note"]) if e["res"] == "panic" else "")
    if op == "rotation":
        kind = e["res"] if e["res"] != "ok" else "mismatch"
        return "roundtrip|rotation|%s|confirm=%d" % (kind, 1 if e["clen"] else 0)
    return "event|%s" % op


def describe(e):
    op = e.get("op")
    if op == "member":
        return ("%s decoder: %s on a %s input of %d bytes (%s%s): %s" %
                (e["codec"], e["res"], e["class"], e["len"], json.dumps(e["detail"]),
                 (", stale tail '%s'" % e["tail"]) if e["tail"] else "", e.get("msg") or ("%d us" % e["us"])))
    if op == "nodeinfo":
        return ("NodeInfo round trip: real decoder returned %s%s where Codec.tla demands Normalise(message); peers=%s own=%s "
                "claims=%d unknown parts at %s" % (e["res"], (" (%s)" % e["note"]) if e["note"] else "",
                                                  [(p["id"], p["fam"].count(4), p["fam"].count(6)) for p in e["peers"]][:6],
                                                  (e["addrs"].count(4), e["addrs"].count(6)), len(e["claims"]),
                                                  [i["at"] for i in e["ins"]]))
    if op == "init":
        return ("InitMsg round trip (%s): real decoder returned %s%s for parts %s, algorithm ids %s; got %s" %
                (e["src"], e["res"], (" (%s)" % e["note"]) if e["note"] else "", e["tags"], e["algos"], e["got"]))
    if op == "rotation":
        return "RotationMessage decode/re-encode: %s for key lengths %d/%d: %s" % (e["res"], e["plen"], e["clen"], e)
    return json.dumps(e)[:400]


# ------------------------------------------------------------------------------------------------ validation

def validate(out, name, path, nevents):
    """TLC validates a trace; on rejection the refused event is reported and validation goes on without the events of
    the same input class, so that several different violations are reported in one run (at most 4)."""
    validated = 0
    cur = path
    n = nevents
    for rnd in range(4):
        v = V.tlc_trace(TRACE_TLA, TRACE_CFG, PID, cur, n, sub="trace-%s-%d" % (name, rnd))
        if v.accepted:
            validated += n
            break
        evs = V.read_ndjson(cur)
        bad = evs[v.matched] if v.matched < len(evs) else {"op": "?"}
        sig = signature(bad)
        out.violation(sig, "real code deviates from Codec.tla: %s" % describe(bad), {"driver": name, "event": bad})
        rest = [e for e in evs if signature(e) != sig]
        validated += v.matched
        if not rest:
            break
        cur = os.path.join(V.workdir(PID), "trace_%s_rest%d.ndjson" % (name, rnd))
        V.write_ndjson(cur, rest)
        n = len(rest)
    return validated


def selftests(tp_rt, tp_tot, results):
    """Binding self-test: corrupt one logged field of a genuine event; TLC must reject exactly that line."""
    wd = V.workdir(PID)

    def big_v6(e):
        return e["op"] == "nodeinfo" and e["res"] == "ok" and any(p["fam"].count(6) >= 8 for p in e["peers"])

    def keep_eighth(e):
        # as if the decoder had handed out the eighth IPv6 address instead of the seventh
        for i, p in enumerate(e["peers"]):
            if p["fam"].count(6) >= 8:
                g = e["got"]["peers"][i]
                j = max(k for k in range(len(g["fam"])) if g["fam"][k] == 6)
                g["idx"][j] = 8
                return

    def drop_count(e):
        # one logged count: a decoded peer loses its last address
        g = next(p for p in e["got"]["peers"] if p["fam"])
        g["fam"].pop()
        g["idx"].pop()

    tests = [
        ("nodeinfo-eighth-address", tp_rt, big_v6, keep_eighth),
        ("nodeinfo-count", tp_rt, lambda e: e["op"] == "nodeinfo" and e["res"] == "ok" and e["ins"] and any(p["fam"] for p in e["got"]["peers"]), drop_count),
        ("init-unknown-algorithm-kept", tp_rt,
         lambda e: e["op"] == "init" and e["res"] == "ok" and e["src"] == "algo-variant" and any(a > 3 for a in e["algos"]),
         lambda e: (e["got"]["algos"].append(1), e["got"]["idx"].append(e["algos"].index(next(a for a in e["algos"] if a > 3)) + 1))),
        ("rotation-confirm-length", tp_rt, lambda e: e["op"] == "rotation" and e["clen"] == 0 and e["res"] == "ok",
         lambda e: e.__setitem__("re_clen", 1)),
        ("family-panic", tp_tot, lambda e: e["op"] == "family", lambda e: e.__setitem__("panics", 1)),
    ]

    def one(name, src, pick, mutate):
        try:
            full = os.path.join(wd, "selftest_%s_full.ndjson" % name)
            hit = V.corrupt_trace(src, full, pick, mutate)
            if hit is None:
                results[name] = "vacuous: no event to corrupt"
                return
            # the corrupted event with up to 40 genuine events before and 3 after it
            evs = V.read_ndjson(full)
            lo = max(0, hit - 41)
            cut = evs[lo:hit + 3]
            st = os.path.join(wd, "selftest_%s.ndjson" % name)
            V.write_ndjson(st, cut)
            want = hit - lo            # 1-based line of the corrupted event in the cut trace
            v = V.tlc_trace(TRACE_TLA, TRACE_CFG, PID, st, len(cut), sub="selftest-" + name)
            if v.accepted or v.matched != want - 1:
                results[name] = "corrupted event (line %d) not rejected at that line (accepted=%s matched=%s)" % (want, v.accepted, v.matched)
            else:
                results[name] = "ok: line %d of %s rejected" % (hit, os.path.basename(src))
        except Exception as ex:  # tool errors inside a thread
            results[name] = "error: %s" % ex

    ths = [threading.Thread(target=one, args=t) for t in tests]
    for t in ths:
        t.start()
    return ths


def shape_key(e):
    """Abstract structure of a round-trip event (what TLC judges), without case numbers and notes."""
    d = {k: v for k, v in e.items() if k not in ("case", "note", "src")}
    return hashlib.sha1(json.dumps(d, sort_keys=True).encode()).hexdigest()


def run(tier, out):
    wd = V.workdir(PID)
    quick = tier == "quick"
    V.build_harness()
    # (A) design run in the background
    cfg = "MC_Codec.cfg" if quick else "MC_Codec_thorough.cfg"
    design = {}

    def do_design():
        try:
            design["r"] = V.tlc_design("MC_Codec.tla", cfg, PID, workers=8 if quick else 12, timeout=3000)
        except Exception as ex:
            design["err"] = ex

    th = threading.Thread(target=do_design)
    th.start()
    # (B) real code: round trips and totality families
    tp_rt = os.path.join(wd, "trace_roundtrip.ndjson")
    tp_tot = os.path.join(wd, "trace_total.ndjson")
    s_rt = V.harness_json(["codec", "roundtrip", tier, tp_rt])
    s_tot = V.harness_json(["codec", "total", tier, tp_tot], timeout=3000)
    if "hang" in s_tot:
        h = s_tot["hang"]
        out.violation("total|hang|%s|%s" % (h["codec"], h["class"]),
                      "a decoder did not return within 20 s on member %s of family %s (codec %s); members are regenerated "
                      "deterministically from VERIF_SEED" % (h["index"], h["class"], h["codec"]), {"hang": h})
        th.join()
        return out.finish("model_checking", {"evaluations": 1, "distinct_nontrivial": 2, "rule": "aborted: decoder hang", "samples": [h]})
    s_obs = V.harness_json(["codec", "observe"])       # behind the decoders, not part of the verdict
    V.log("[harness] round trips: %s" % json.dumps(s_rt))
    V.log("[harness] totality: %s" % json.dumps(s_tot))
    # (C) binding self-tests (in the background) and validation of the genuine traces
    st_results = {}
    st_threads = selftests(tp_rt, tp_tot, st_results)
    validated = {}

    def do_tot():
        try:
            validated["total"] = validate(out, "total", tp_tot, s_tot["events"])
        except Exception as ex:
            validated["total_err"] = ex

    tt = threading.Thread(target=do_tot)
    tt.start()
    validated["roundtrip"] = validate(out, "roundtrip", tp_rt, s_rt["events"])
    tt.join()
    for t in st_threads:
        t.join()
    th.join()
    if "err" in design:
        raise design["err"]
    if "total_err" in validated:
        raise validated["total_err"]
    d = design["r"]
    if d.invariant_violated or d.property_violated:
        out.violation("design|" + ",".join(d.invariant_violated or ["property"]),
                      "Codec.tla violates its own property formulas (specification bug)", {"tlc": d.out[-3000:]})
    bad = {k: v for k, v in st_results.items() if not v.startswith("ok")}
    if bad and not out.violations:
        V.selftest_fail(PID, json.dumps(bad))
    # (D) evidence
    evs = V.read_ndjson(tp_rt)
    shapes = set(shape_key(e) for e in evs)
    nontrivial = [e for e in evs if (e["op"] == "nodeinfo" and (e["ins"] or any(p["fam"].count(4) > 7 or p["fam"].count(6) > 7 for p in e["peers"])))
                  or (e["op"] == "init" and (e["unknown"] or any(a > 3 for a in e["algos"])))]
    fam = V.read_ndjson(tp_tot)
    samples = []
    for pick in (lambda e: e["op"] == "nodeinfo" and len(e["peers"]) == 2 and e["ins"],
                 lambda e: e["op"] == "init" and e["src"] == "algo-variant",
                 lambda e: e["op"] == "init" and e["src"] == "spliced" and e["stage"] == 2,
                 lambda e: e["op"] == "rotation" and e["src"] == "state"):
        s = next((e for e in evs if pick(e)), None)
        if s is not None:
            samples.append(s)
    samples += [f for f in fam if f["op"] == "family"][:4]
    max_us = max([f["max_us"] for f in fam if f["op"] == "family"] or [0])
    cov = {
        "states": d.distinct, "transitions": d.generated, "depth": d.depth,
        "traces_validated_against_impl": validated["roundtrip"] + validated.get("total", 0),
        "samples": samples,
        "evaluations": s_rt["steps"] + s_tot["steps"],
        "distinct_nontrivial": len(set(shape_key(e) for e in nontrivial)),
        "rule": "round trips: NodeInfo with 0..20 peers x all (0..9)^2 address-count pairs, claims of every length 0..16 x prefix 0..255, "
                "own address lists (0..9)^2, optional time-out, random messages; InitMsg ping/pong/peng x every ordered algorithm "
                "selection x flag, wire-level variants (unknown algorithm ids at every list position, parts reordered / left out); "
                "RotationMessage key lengths 0..255 x {0,1,32,255} + random + genuine RotationState output; unknown parts at every "
                "part boundary (single) and in pairs.  evaluations = real decodes (round trips + totality members); "
                "distinct_nontrivial = distinct abstract event structures (as judged by TLC) among round trips that contain an unknown "
                "part, a family of more than seven addresses or an unknown algorithm id; design bounds in %s" % cfg,
        "roundtrip_events": s_rt["events"], "distinct_roundtrip_structures": len(shapes),
        "roundtrip": {k: s_rt[k] for k in ("nodeinfo", "init", "rotation")},
        "totality_members": s_tot["members"], "totality_panics": s_tot["panics"], "max_decode_us": max_us,
        "families": [{k: f[k] for k in ("codec", "class", "members", "ok", "err", "panics", "max_us")} for f in fam if f["op"] == "family"],
        "peer_entry_bytes": s_tot.get("peer_entry_bytes"),
        "observations_outside_property": {"what": "consumers of decoded ECDH keys of a wrong length (sender holds a trusted key)", "seen": s_obs},
        "self_test": "; ".join("%s: %s" % kv for kv in sorted(st_results.items())),
        "checker_cmd": "tlc MC_Codec / Trace_Codec",
    }
    return out.finish("model_checking", cov, assumptions=[
        "allocation is bounded by construction, not measured: every length field is a u16 (parts) or u8 (keys, signature), so a single "
        "buffer is at most 64 KiB; the peer list grows by one entry (%s bytes) per input byte at worst (about 11 MB for a 64 KiB part of "
        "empty entries) - linear in the datagram size" % s_tot.get("peer_entry_bytes"),
        "RotationMessage has private fields and no constructor hook: its round trip is observed as bytes -> read_from -> write_to -> bytes "
        "over all canonical encodings, plus messages produced by real RotationState objects",
        "the 4-byte salt of a handshake datagram comes from the system RNG inside InitMsg::write_to (not seeded)",
        "a hang is detected by a 20 s watchdog in the harness; wall time per decode is measured, the bound judged by TLC is 1 s"])


def replay(rep):
    """bin/check C16 --replay <file>: re-judges the recorded event with TLC; a flagged totality member is first run
    through the real decoder again."""
    wd = V.workdir(PID, "replay")
    r = rep.get("replay", {})
    e = r.get("event")
    if e is None:
        print("nothing to replay in this file:", json.dumps(r)[:300])
        return 2
    if e.get("op") == "member":
        V.build_harness()
        hp = os.path.join(wd, "input.hex")
        with open(hp, "w") as f:
            f.write(e["input"])
        if e["len"] * 2 != len(e["input"]):
            print("note: the recorded input was cut to 4096 bytes; the full member is regenerated by a full run (same VERIF_SEED)")
        s = V.harness_json(["codec", "decode", e["codec"], hp])
        print("real %s decoder on the recorded input: %s" % (e["codec"], json.dumps(s)))
        e = dict(e, res=s["res"], msg=s.get("msg", ""))
        if s["res"] != "panic":
            print("not reproduced")
            return 0
    tp = os.path.join(wd, "event.ndjson")
    V.write_ndjson(tp, [e])
    v = V.tlc_trace(TRACE_TLA, TRACE_CFG, PID, tp, 1, sub="replay")
    if v.accepted:
        print("event accepted by Codec.tla")
        return 0
    print("VIOLATION property=%s replay=%s" % (PID, "(replayed) " + signature(e)))
    print(describe(e))
    return 1
