---------------------------- MODULE MC_Handshake ----------------------------
(* TLC-only definitions for Handshake: constants, bounds, view, labelled transitions for export. *)
EXTENDS Handshake, Json, HsConfig
CONSTANTS MaxGen, MaxNet, RankHigh, TrustMode, AlgoMode, WithBad

MCObjs == CfgObjs
MCAttr == AttrFor(RankHigh, AlgoMode)

\* trust relations: "mutual" only, or every relation over the two party keys and a bystander key
AllKeys == {"kA", "kB", "kY"}
MCInit == IF TrustMode = "mutual" THEN InitWith([o \in Objs |-> {"kA", "kB"}])
          ELSE \E tr \in [Objs -> SUBSET AllKeys] : InitWith(tr)

VARIABLE act
mcvars == <<vars, act>>
Mid(m) == ToString(<<m.st, m.node, m.g, IF m.enc = None THEN None ELSE m.enc.k, m.intact, m.signer>>)
Emitted == [i \in 1..(Len(sentSeq') - Len(sentSeq)) |-> Mid(sentSeq'[Len(sentSeq) + i])]
MCNext == \/ \E o \in Objs : StartHs(o) /\ act' = [op |-> "initiate", o |-> o, emit |-> Emitted]
          \/ \E o \in Objs : Tick(o) /\ act' = [op |-> "tick", o |-> o, emit |-> Emitted]
          \/ \E o \in Objs : TickJump(o) /\ act' = [op |-> "jump", o |-> o, emit |-> Emitted]
          \/ \E o \in Objs : \E m \in net : Recv(o, m) /\ act' = [op |-> "recv", o |-> o, m |-> Mid(m), emit |-> Emitted]
          \/ WithBad /\ \E o \in Objs : \E m \in Forged(o) : RecvBad(o, m) /\ act' = [op |-> "bad", o |-> o, m |-> Mid(m), st |-> m.st, forged |-> (m.signer = "kX"), emit |-> <<>>]
          \/ \E m \in net : Drop(m) /\ act' = [op |-> "drop", m |-> Mid(m), emit |-> <<>>]
MCSpec == MCInit /\ act = [op |-> "init"] /\ [][MCNext]_mcvars

Bound == gen <= MaxGen /\ Cardinality(net) <= MaxNet
\* replay graph: single ticks only next to the timer boundaries (leaps cover the rest)
NearBoundary == \A o \in Objs : /\ obj[o].retries \in {0, 1, MAX_RETRIES - 1, MAX_RETRIES}
                                /\ obj[o].closeT \in {CLOSE_TIME, CLOSE_TIME - 1, 1, 0}
BoundReplay == Bound /\ NearBoundary
View == <<obj, trusted, alive, done, role, got, rotSent, gen, net>>

\* state identity for the schedule generator: a projection that determines the state (attributes are constants);
\* tuples and strings only, because ToString/ToJson of records and sets is not order-stable between s and s'
MidOrNone(x) == IF x = None THEN "-" ELSE Mid(x)
PObj(ob, al, dn) == <<ob.stage, ob.retries, ob.closeT, ob.ecdh, IF ob.core = None THEN <<>> ELSE ob.core.k, ob.sel, MidOrNone(ob.last), al, dn>>
Proj(ob, al, dn, g, nt) == [A |-> PObj(ob["A"], al["A"], dn["A"]), B |-> PObj(ob["B"], al["B"], dn["B"]), gen |-> g,
                            net |-> {Mid(x) : x \in nt}]
EmitEdge == PrintT(<<"EDGE", ToJson([s |-> Proj(obj, alive, done, gen, net), a |-> act', t |-> Proj(obj', alive', done', gen', net')])>>)

\* liveness configuration (no drops, no attacker, small timers)
MCLiveSpec == MCInit /\ act = [op |-> "init"] /\ [][LiveNext /\ UNCHANGED act]_mcvars /\ Fairness
=============================================================================
