---------------------------- MODULE Trace_Table ----------------------------
(* Trace validation for Table: every recorded call on the real ClaimTable must be a step of Table.tla's own action   *)
(* with the logged parameters, such that                                                                              *)
(*   - a lookup returned what the action returns (any of the tied claims; reusing or re-deriving a forgettable        *)
(*     decision),                                                                                                     *)
(*   - after the call the set of (peer, range) claims and the set of (address, next hop) cache entries of the dump     *)
(*     are the specification's.  The free parameters of the actions are resolved from the dump: an entry at its        *)
(*     boundary tick survives iff the dump still has it, a forgettable cached decision is forgotten iff the dump       *)
(*     lacks it.  Remaining lifetimes in the dump are representation and are not compared - expiry is judged by        *)
(*     presence after the following sweeps,                                                                            *)
(*   - the property formulas of C11/C12/C13 hold (Gate = TRUE: as part of the step, so that the first violating event  *)
(*     is the rejected line; Gate = FALSE + INVARIANT/PROPERTY in the cfg: diagnosis of a short run, TLC names the      *)
(*     formula).                                                                                                        *)
(* Events: reset (new table; carries ct, st, w), back (return to the state saved at tree depth `to`), and one event    *)
(* per public method with `d` = tree depth at which the state reached is saved (0: not saved).                          *)
(*                                                                                                                      *)
(* AdmitStale (focus C11 only): an announcement may leave claims of the announcing peer in the table that it no         *)
(* longer announces, if the dump shows them (C12 judges that; C11 is about routing over the claims that are live).      *)
(* Lenient: see TraceChoices.                                                                                            *)
(* Relax names one observation that is not compared (diagnosis only): "claims", "cache", "res", "lookup" (= result and  *)
(* cache: a wrong next hop is cached as well).                                                                           *)
EXTENDS Table, TLC, Json, IOUtils
CONSTANTS AdmitStale, Gate, Relax, Lenient

Rec == ndJsonDeserialize(IOEnv.TRACE)
N == Len(Rec)
\* W, CT, ST and Addrs (the addresses that are looked up or learned in the trace - the cache can hold no others) are
\* plain constants of the cfg: checks/tablecommon.py writes one cfg per trace from the template Trace_Table.cfg.
\* (A constant substituted by an operator is evaluated again at every use, and one that reads Rec makes TLC parse
\* the whole trace again before Rec is cached.)  Every reset event repeats them and is checked against them.
TraceRanges == {<<b, p>> : b \in 0..(P2(W) - 1), p \in 0..W}

VARIABLES l, stack
tvars == <<vars, l, stack>>

Snap(n, cl, ca, u, la, le) == [now |-> n, claims |-> cl, cache |-> ca, up |-> u, lastAnn |-> la, learnt |-> le]

\* the dump
DC(e) == {<<c[1], <<c[2], c[3]>>>> : c \in ListSet(e.claims)}
DA(e) == {<<c[1], c[2]>> : c \in ListSet(e.cache)}
DAddrs(e) == {c[1] : c \in ListSet(e.cache)}
\* (IF instead of \/ and =>: TLC would split a disjunction inside the next-state relation into two successors)
Obs(e) == /\ IF Relax = "claims" THEN TRUE ELSE ClaimKeys(claims') = DC(e)
          /\ IF Relax \in {"cache", "lookup"} THEN TRUE ELSE CachePairs(cache') = DA(e)

PropsHold ==
  /\ LookupIsLPMStep /\ LookupReusesStep /\ LearnedIsLastWriterStep
  /\ CacheBounded' /\ NextHopsArePeers' /\ NoDuplicateClaims' /\ LearnedHolds' /\ LearnedExpires' /\ TypeOK'
  /\ IF AdmitStale THEN TRUE ELSE AnnounceIsExactStep /\ ClaimsAreLastAnnouncement'

Stale(e) == IF AdmitStale THEN {r \in RangesOf(claims, e.peer) \ ListSet(e.list) : <<e.peer, r>> \in DC(e)} ELSE {}

\* First pass (Lenient = FALSE): a cached decision is reused, as table.rs does - one successor per event unless claims
\* tie.  A trace rejected in that pass is judged again with every admissible choice (Lenient = TRUE: a forgettable
\* decision may also be derived again) before anything is reported.
TraceChoices(a) == IF ~Lenient /\ cache[a] # None THEN {Reuse} ELSE LookupChoices(a)

Call(e) ==
  CASE e.op = "announce"   -> AnnounceS(e.peer, e.list, DC(e), DAddrs(e), DAddrs(e), Stale(e))
    [] e.op = "disconnect" -> Disconnect(e.peer, DC(e), DAddrs(e), DAddrs(e))
    [] e.op = "learn"      -> Learn(e.addr, e.peer, DC(e), DAddrs(e), DAddrs(e))
    [] e.op = "lookup"     -> \E c \in TraceChoices(e.addr) :
                                 /\ Lookup(e.addr, c, DC(e), DAddrs(e), DAddrs(e))
                                 /\ IF Relax \in {"res", "lookup"} THEN TRUE ELSE last'.res = e.res
    [] e.op = "advance"    -> Advance(e.dt, DC(e), DAddrs(e), DAddrs(e))
    [] OTHER -> FALSE

Reset(e) ==
  /\ e.ct = CT /\ e.st = ST /\ e.w = W /\ \A i \in 1..Len(e.addrs) : e.addrs[i] \in Addrs
  /\ now' = 0 /\ claims' = << >> /\ cache' = [a \in Addrs |-> None] /\ up' = {}
  /\ lastAnn' = [p \in Peers |-> None] /\ learnt' = [a \in Addrs |-> None]
  /\ last' = [op |-> "reset"]
  /\ stack' = <<Snap(now', claims', cache', up', lastAnn', learnt')>>

Back(k) ==
  /\ k + 1 <= Len(stack)
  /\ LET s == stack[k + 1] IN
       /\ now' = s.now /\ claims' = s.claims /\ cache' = s.cache /\ up' = s.up
       /\ lastAnn' = s.lastAnn /\ learnt' = s.learnt
  /\ last' = [op |-> "back"]
  /\ stack' = SubSeq(stack, 1, k + 1)

Step(e) ==
  CASE e.op = "reset" -> Reset(e)
    [] e.op = "back"  -> Back(e.to)
    [] OTHER -> /\ e.ok                    \* a panic of the table is never admitted
                /\ Call(e)
                /\ Obs(e)
                /\ IF Gate THEN PropsHold ELSE TRUE
                /\ stack' = IF e.d > 0 THEN SubSeq(stack, 1, e.d) \o <<Snap(now', claims', cache', up', lastAnn', learnt')>>
                            ELSE stack

TraceInit == Init /\ l = 1 /\ stack = << >>
TraceNext == l <= N /\ l' = l + 1 /\ Step(Rec[l])
TraceSpec == TraceInit /\ [][TraceNext]_tvars

Accepted == IF TLCGet("stats").diameter - 1 = N THEN TRUE
            ELSE Print(<<"REJECTED", TLCGet("stats").diameter, Rec[TLCGet("stats").diameter]>>, FALSE)
=============================================================================
