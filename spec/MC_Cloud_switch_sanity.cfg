SPECIFICATION Spec
CONSTANTS DataPlane = "switch"
          N = 3
          MaxTime = 5
          Silent = 0
          FaultKind = "silent"
          DialKind = "reconnect"
          MAX_RETRIES <- McRetries
          LINGER <- McLinger
          OWN_RESET <- McOwnReset
INVARIANT NothingCached
CHECK_DEADLOCK FALSE
