"""C13 - switch learning is per VLAN and expires; hub and router learn nothing.

Design level: Forward.tla with VLAN keys {untagged, 0, 5} (priority tags counted as untagged), learning last-writer-wins,
expiry after the switch timeout, leaves - OneHopPerAddr, LearnedArePeers, OnlySwitchLearns, exhaustively for 3 nodes.
Impl -> spec: frame sequences over 3 MACs x VLAN tags {none, 0, 1, 0x67, 0xfff} x all 16 PCP/DEI nibbles x nested tags on
real 3-4 node meshes, interleaved with time steps 1, 2, timeout-1/+0/+1 and leaves, replayed through Forward's own
actions: the set of peers every frame goes to must be the one learning admits (the tick at exactly the timeout is a
don't-care); hub and router meshes must keep flooding / dropping; all 65536 tag-control values for the tag
normalisation.  Table level (ClaimTable::cache / expiry / remove_claims): checks/tablecommon (shared with C11/C12)."""
import os
import vplib as V
from checks import cloudcommon
from checks import fwdcommon as F

PID = "C13"


def run(tier, out):
    quick = tier == "quick"
    V.build_harness()
    designs = F.design(PID, ["switch_leave_quick", "hub"] if quick else ["switch", "switch_leave", "hub"])
    for n, x in designs:
        if x.invariant_violated or x.property_violated:
            out.violation("design|forward|%s" % n, "Forward.tla violates its property (%s)" % n, {"tlc": x.out[-2000:]})
    validated, evals = 0, 0
    plans = [("switch", 3, 5), ("switch", 4, 3), ("hub", 3, 1), ("router", 3, 1)] if quick else \
            [("switch", 3, 40), ("switch", 4, 25), ("hub", 3, 8), ("router", 3, 8), ("hub", 4, 4)]
    first = None
    for mode, nodes, runs in plans:
        s, ok, tp = F.random_run(PID, out, mode, nodes, runs)
        validated += ok
        evals += s["steps"]
        if first is None:
            first = (tp, s)
    # table level: ClaimTable::cache / expiry / remove_claims against Table.tla (LearnedIsLastWriter, LearnedExpires)
    from checks import tablecommon
    cov_table = tablecommon.run_table_part(PID, out, tier, "C13") or {}
    cov_table.pop("tree_trace", None)
    validated += cov_table.get("traces_validated_against_impl", 0)
    evals += cov_table.get("evaluations", 0)
    wd = V.workdir(PID)
    vp = os.path.join(wd, "trace_vlan.ndjson")
    sv = V.harness_json(["node", "vlan", vp])
    validated += F.validate(PID, out, vp, sv, "switch", "tag normalisation", "vlan")
    evals += sv["steps"]
    st = "skipped (violations found)"
    if not out.violations:
        dst = os.path.join(wd, "trace_selftest.ndjson")
        # a learned destination that goes to the wrong peer (never admissible, also not at the expiry boundary)
        hit = V.corrupt_trace(first[0], dst, lambda e: e["op"] == "iface" and len(e["out"]) == 1,
                              lambda e: e.__setitem__("out", [min({1, 2, 3} - {e["n"], e["out"][0]})]))
        v = V.tlc_trace("Trace_Forward.tla", "Trace_Forward.cfg", PID, dst, first[1]["events"], extra_env={"MODE": "switch"}, xmx="6g", sub="selftest")
        if hit is None or v.accepted or v.matched != hit - 1:
            V.selftest_fail(PID, "a frame sent to the wrong learned next hop (line %s) was not rejected there" % hit)
        st = "unicast redirected to another peer at trace line %d rejected by TLC" % hit
    cov = {
        "states": sum(x.distinct for _, x in designs), "transitions": sum(x.generated for _, x in designs),
        "design_runs": {n: {"distinct": x.distinct, "generated": x.generated} for n, x in designs},
        "traces_validated_against_impl": validated,
        "samples": V.read_ndjson(first[0])[:5],
        "evaluations": evals, "distinct_nontrivial": evals,
        "rule": "random 300-step sequences (frames over 3 MACs x 5 VLAN tags x 16 PCP/DEI nibbles x nested tags; deliveries; time steps 1, 2, timeout-1/+0/+1; leaves): %s (mode, nodes, runs); "
                "65536 tag-control values; each step is one distinct recorded event" % plans,
        "self_test": st,
        "table_level": {k: v for k, v in cov_table.items() if k in ("states", "transitions", "rule", "design_runs", "evaluations", "traces_validated_against_impl")},
    }
    cov["states"] += cov_table.get("states", 0)
    cov["transitions"] += cov_table.get("transitions", 0)
    cloudcommon.data_design(PID, tier, out, cov)
    cloudcommon.part(PID, tier, out, cov)
    return out.finish("model_checking", cov, assumptions=[
        "switch timeout 10 s in the recorded runs (configuration value), ticks are housekeeping rounds; the tick at exactly t0 + timeout is a don't-care",
        "MockDevice reports a TUN device: 'normal mode on tap devices' is exercised as explicit switch mode"])
