------------------------------ MODULE MC_Beacon ------------------------------
(* Design run, part 2 of C17: every token sequence up to MaxLen over the token alphabet (two different genuine
   beacons, an empty one is covered by the harness).  Checks that the extraction rule of Beacon.tla recovers exactly
   the genuine beacons of every text, and that every result it admits contains them. *)
EXTENDS Beacon, TLC
CONSTANTS MaxLen
VARIABLES toks

Tok(k, a) == [k |-> k, a |-> a]
Alphabet == {Tok("junk", <<>>), Tok("sep", <<>>), Tok("beacon", <<"a1">>), Tok("beacon", <<"a2", "a3">>),
             Tok("wrongpw", <<>>), Tok("old", <<>>), Tok("begin", <<>>), Tok("end", <<>>),
             Tok("pbegin", <<>>), Tok("pend", <<>>), Tok("ovbe", <<>>), Tok("oveb", <<>>)}

Init == toks = <<>>
Next == Len(toks) < MaxLen /\ \E t \in Alphabet : toks' = Append(toks, t)

TypeOK == \A i \in 1..Len(toks) : toks[i].k \in TokenKinds
FindsAll == ExtractFindsAll(toks)
AdmitsReference == Admissible(toks, Extract(toks))
\* a result with additional (garbage) addresses is admitted only where a garbage candidate exists
ExtraOnlyWithGarbage == Admissible(toks, Extract(toks) \o <<"zz">>) <=> HasGarbage(toks)
\* losing a genuine address is never admitted
LossNeverAdmitted == Must(toks) # <<>> => ~Admissible(toks, Tail(Must(toks)))
\* variant: the greedy rule (expected to be violated, see MC_BeaconGreedy.cfg)
GreedyOK == GreedyFindsAll(toks)
=============================================================================
