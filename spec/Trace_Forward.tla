---------------------------- MODULE Trace_Forward ----------------------------
(* Trace validation for Forward: every interface read, payload delivery, time step and leave recorded from a full
   mesh of real mock-backed nodes is replayed through Forward.tla's own actions.  Gating observations: the set of peers
   a frame was sent to (must be one of Forward!Targets - C10 conservation, C11 longest prefix / unknown destination,
   C13 learning per VLAN key and expiry), that a payload delivery writes the interface exactly once with the identical
   bytes and sends nothing, that control traffic never writes an interface, and ExactlyOnce at the end of a run. *)
EXTENDS Forward, TLC, Json, IOUtils

Rec == ndJsonDeserialize(IOEnv.TRACE)
N == Len(Rec)
TNodes == 1..5
\* claims of the router-mode scenario (harness: nfwd.rs router_claims) on the 4-bit universe
TClaim == [n \in TNodes |-> IF IOEnv.MODE # "router" THEN {}
                            ELSE IF n = 1 THEN {<<8, 1, 4>>} ELSE IF n = 2 THEN {<<12, 2, 4>>, <<0, 0, 4>>}
                            ELSE IF n = 3 THEN {<<12, 4, 4>>} ELSE {}]
TMode == IOEnv.MODE

VARIABLES l, size     \* size: number of nodes of the current run (nodes beyond it count as down)
tvars == <<vars, l, size>>

TraceInit == Init /\ l = 1 /\ size = 4

SetOf(s) == {s[i] : i \in 1..Len(s)}
A(p) == Addr(p[1], p[2])

Step(e) ==
  CASE e.op = "fwdreset" ->
         /\ now' = 0 /\ learned' = [n \in Nodes |-> {}] /\ net' = {} /\ nextId' = 1 /\ frames' = <<>> /\ delivered' = {}
         /\ down' = {n \in Nodes : n > e.nodes} /\ size' = e.nodes
         /\ e.st = ST /\ e.mode = Mode
    [] e.op = "iface" ->
         /\ ~e.panicked /\ e.other = 0 /\ e.wrote = 0        \* only payload datagrams, nothing written locally
         /\ e.fid = Len(frames) + 1
         /\ IfaceRead(e.n, A(e.src), A(e.dst), SetOf(e.out))
         /\ Len(e.out) = Cardinality(SetOf(e.out))           \* one copy per selected peer
         /\ UNCHANGED size
    [] e.op = "recv" ->
         /\ ~e.panicked
         /\ e.wrote = 1 /\ e.same                            \* byte-identical, exactly one interface write
         /\ e.sent = 0                                       \* nothing is forwarded
         /\ \E d \in net : d.fid = e.fid /\ d.to = e.to /\ d.from = e.from /\ NetRecv(d)
         /\ UNCHANGED size
    [] e.op = "tick" ->
         /\ e.ctrl_iface = 0                                 \* control traffic never reaches an interface
         /\ now' = now + e.secs
         /\ learned' = [n \in Nodes |-> {x \in learned[n] : x.at + ST >= now + e.secs}]
         /\ UNCHANGED <<net, nextId, frames, delivered, down, size>>
    [] e.op = "leave" -> Leave(e.n) /\ UNCHANGED size
    [] e.op = "vlan" ->      \* C13 tag normalisation: 12-bit VLAN id, priority tags (id 0) counted as untagged
         /\ e.res = "ok"
         /\ e.alen = (IF VlanKey(e.tci) = 0 THEN 6 ELSE 8)
         /\ VlanKey(e.tci) = e.key[1] * 256 + e.key[2]
         /\ UNCHANGED <<vars, size>>
    [] e.op = "quiet" -> e.panics = 0 /\ net = {} /\ (ExactlyOnce = TRUE) /\ UNCHANGED <<vars, size>>    \* (= TRUE: evaluated as a value, not split as an action)
    [] OTHER -> FALSE

TraceNext == l <= N /\ l' = l + 1 /\ Step(Rec[l])
TraceSpec == TraceInit /\ [][TraceNext]_tvars
Accepted == IF TLCGet("stats").diameter - 1 = N THEN TRUE
            ELSE Print(<<"REJECTED", TLCGet("stats").diameter, Rec[TLCGet("stats").diameter]>>, FALSE)
=============================================================================
