---------------------------- MODULE MC_Prefix ----------------------------
(* Design run for Prefix: one state per base; the invariants quantify over every prefix length 0..MaxP (incl.    *)
(* over-long ones) and every address of the W-bit universe.  The four statements of "base/plen contains addr"     *)
(* must agree, and the run form used by the trace validation must describe exactly the matching set.              *)
EXTENDS Prefix, FiniteSets, TLC
CONSTANTS W, MaxP, BaseLo, BaseStep, BaseCount, DigitWidths
VARIABLE base
Bases == {(BaseLo + i * BaseStep) % P2(W) : i \in 0..(BaseCount - 1)}
U == 0..(P2(W) - 1)

\* a two-level tree (root -> group -> leaf = one base) so that TLC's workers share the bases: a successor's
\* invariants are evaluated by the worker that generates it, so only the leaves are judged (root and group nodes
\* carry base 0 and are skipped by `Judged`)
Groups == 0..15
VARIABLE lvl
Init == base = 0 /\ lvl = <<"root">>
Next == \/ lvl[1] = "root" /\ \E g \in Groups : g < BaseCount /\ base' = 0 /\ lvl' = <<"group", g>>
        \/ lvl[1] = "group" /\ \E i \in 0..((BaseCount - 1) \div 16) :
               /\ lvl[2] + 16 * i < BaseCount
               /\ base' = (BaseLo + (lvl[2] + 16 * i) * BaseStep) % P2(W)
               /\ lvl' = <<"leaf">>
Spec == Init /\ [][Next]_<<base, lvl>>
Judged == lvl[1] = "leaf"

\* x as W \div D digits of D bits
Digits(x, D) == [i \in 1..(W \div D) |-> (x \div P2(W - D * i)) % P2(D)]

ArithIsBitwiseF  == \A p \in 0..MaxP, a \in U : Matches(base, p, a, W) <=> MatchesBits(base, p, a, W)
ArithIsIntervalF == \A p \in 0..MaxP, a \in U : Matches(base, p, a, W) <=> InInterval(base, p, a, W)
DigitsAreArithF  == \A D \in DigitWidths : \A p \in 0..MaxP, a \in U :
                      /\ Value(Digits(a, D), D) = a
                      /\ MatchesDigits(Digits(base, D), p, Digits(a, D), D) <=> Matches(base, p, a, W)
\* the run form is the matching set
RunsAreSetF == \A p \in 0..MaxP :
                 LET S == {a \in U : Matches(base, p, a, W)}
                     R == Runs(base, p, W) IN
                 IF S = {} THEN R = << >> /\ p > W
                 ELSE /\ Len(R) = 1 /\ S = R[1][1]..R[1][2]
                      /\ Cardinality(S) = P2(W - p) /\ base \in S      \* a block of 2^(W-p) addresses around base
\* row form for digit sequences: vary digit k of A over all its values
RowsAreSetsF == \A D \in DigitWidths : \A p \in 0..MaxP, k \in 1..(W \div D) :
               \A a \in {x \in U : Digits(x, D)[k] = 0} :
                 LET B == Digits(base, D)
                     A == Digits(a, D)
                     S == {v \in 0..(P2(D) - 1) : MatchesDigits(B, p, [A EXCEPT ![k] = v], D)}
                     R == RowRunsD(B, p, A, k, D) IN
                 IF S = {} THEN R = << >> ELSE Len(R) = 1 /\ S = R[1][1]..R[1][2]
\* families are disjoint; over-long prefixes contain nothing; /0 contains the whole family; /W only the base
CornersF == /\ \A a \in U : Matches(base, 0, a, W)
            /\ \A a \in U : Matches(base, W, a, W) <=> a = base
            /\ \A p \in (W + 1)..MaxP, a \in U : ~Matches(base, p, a, W)
            /\ \A D \in DigitWidths : ~MatchesDigits(Digits(base, D), 0, Digits(base, D) \o <<0>>, D)
            /\ \A D \in DigitWidths : ~MatchesDigits(Digits(base, D) \o <<0>>, 0, Digits(base, D), D)
\* monotone: a longer prefix of the same base contains less
NestedF == \A p \in 1..MaxP, a \in U : Matches(base, p, a, W) => Matches(base, p - 1, a, W)
ArithIsBitwise == Judged => ArithIsBitwiseF
ArithIsInterval == Judged => ArithIsIntervalF
DigitsAreArith == Judged => DigitsAreArithF
RunsAreSet == Judged => RunsAreSetF
RowsAreSets == Judged => RowsAreSetsF
Corners == Judged => CornersF
Nested == Judged => NestedF
=============================================================================
