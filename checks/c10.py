"""C10 - forwarding isolation: no relaying, exact once-only delivery.

Design level: Forward.tla (NoRelay, ExactlyOnce, NoAmplification) exhaustively for 3 nodes in switch, hub and router
mode.  Spec -> impl: TLC schedules (frames, deliveries in any order within a second, time steps) on real 3-node meshes.
Impl -> spec: TLC validates these and seeded random sequences on 3-4 node meshes in every mode (tap and tun
dissectors) against Trace_Forward: after every interface read the set of peers that got a copy is one the
specification admits and nothing else is emitted; every payload delivery writes the interface exactly once with
identical bytes and sends nothing; control traffic never writes an interface; at the end of a run every frame was
delivered exactly once to exactly the peers it was sent to."""
import vplib as V
from checks import cloudcommon
from checks import fwdcommon as F

PID = "C10"


def run(tier, out):
    quick = tier == "quick"
    V.build_harness()
    designs = F.design(PID, ["hub", "router"] if quick else ["hub", "router", "switch", "switch_leave"])
    d, nedges, scheds, s1, ok1, tp = F.sched_run(PID, out, "switch_edges", "switch", 600 if quick else 6000, V.seed())
    designs.append(("switch_edges", d))
    for n, x in designs:
        if x.invariant_violated or x.property_violated:
            out.violation("design|forward|%s" % n, "Forward.tla violates its property (%s)" % n, {"tlc": x.out[-2000:]})
    validated, evals = ok1, s1["steps"]
    plans = [("switch", 3, 3), ("hub", 3, 2), ("router", 3, 2), ("switch", 4, 2)] if quick else \
            [("switch", 3, 20), ("hub", 3, 10), ("router", 3, 12), ("switch", 4, 12), ("hub", 4, 6), ("router", 4, 8), ("switch", 5, 6)]
    for mode, nodes, runs in plans:
        s, ok, _ = F.random_run(PID, out, mode, nodes, runs)
        validated += ok
        evals += s["steps"]
    st = V.binding_selftest(out, PID, "Trace_Forward.tla", "Trace_Forward.cfg", tp, s1["events"],
                            lambda e: e["op"] == "recv", lambda e: e.__setitem__("sent", 1), "a relayed datagram", xmx="6g") \
        if False else _selftest(out, tp, s1)
    cov = {
        "states": sum(x.distinct for _, x in designs), "transitions": sum(x.generated for _, x in designs),
        "design_runs": {n: {"distinct": x.distinct, "generated": x.generated} for n, x in designs},
        "traces_validated_against_impl": validated,
        "samples": [{"schedule": scheds[0]}, {"trace_excerpt": V.read_ndjson(tp)[:4]}],
        "evaluations": evals, "distinct_nontrivial": nedges,
        "rule": "exported transitions of Forward (switch, 3 nodes, 2 frames) covered by schedules, a seeded sample of %d executed on real meshes; random sequences of 300 steps: %s "
                "(mode, nodes, runs); distinct = exported transitions" % (len(scheds), plans),
        "self_test": st,
    }
    cloudcommon.part(PID, tier, out, cov)
    return out.finish("model_checking", cov, assumptions=[
        "payload datagrams are delivered within the second they were sent (a datagram delayed across housekeeping ticks may be refused by the replay window, C03)",
        "the mesh is fully connected and stable apart from explicit leave events; MockDevice is always a TUN device, modes are set explicitly"])


def _selftest(out, tp, s1):
    if out.violations:
        return "skipped (violations found)"
    import os
    dst = os.path.join(V.workdir(PID), "trace_selftest.ndjson")
    hit = V.corrupt_trace(tp, dst, lambda e: e["op"] == "recv", lambda e: e.__setitem__("sent", 1))
    v = V.tlc_trace("Trace_Forward.tla", "Trace_Forward.cfg", PID, dst, s1["events"], extra_env={"MODE": "switch"}, xmx="6g", sub="selftest")
    if hit is None or v.accepted or v.matched != hit - 1:
        V.selftest_fail(PID, "a delivery that relays a datagram (line %s) was not rejected there" % hit)
    return "a payload delivery that sends one datagram at trace line %d rejected by TLC" % hit
