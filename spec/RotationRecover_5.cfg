SPECIFICATION RSpec
CONSTANTS LossyMaxId = 3
          MaxNet = 3
          MaxRounds = 6
          RecoverRounds = 5
INVARIANT Recovers
INVARIANT Safe
CONSTRAINT Bound
VIEW View
CHECK_DEADLOCK FALSE
