SPECIFICATION TraceSpec
CONSTANTS Options <- VpnCloudOptions
POSTCONDITION Accepted
CHECK_DEADLOCK FALSE
