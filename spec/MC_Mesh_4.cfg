SPECIFICATION Spec
CONSTANTS N = 4
          MaxRounds = 5
INVARIANT FullMeshBy
INVARIANT NoSelfLink
INVARIANT EmitCfg
CHECK_DEADLOCK FALSE
