--------------------------- MODULE Trace_Envelope ---------------------------
(***************************************************************************)
(* Trace validation for C02 (object level).  The driver records, for real  *)
(* CryptoCore pairs and real PeerCrypto connections of a 3-node mesh, what *)
(* happened to datagrams presented to an end; every event carries the      *)
(* facts the rule of Envelope.tla speaks about (connection it was sealed   *)
(* for, sealing end, connection and end it is presented to, alteration).   *)
(* TLC builds the presentation record from these facts and evaluates       *)
(* Envelope!Open on it (in a state where slot 0 of every connection holds  *)
(* the handshake's key):                                                   *)
(*                                                                         *)
(*   roundtrip  Open holds      => opened, byte-identical (`same`)         *)
(*   family     Open is FALSE   => none of the members opened, none        *)
(*                                 panicked; (Open TRUE => all opened)     *)
(*   cleartext  CleartextOK(found, plain)                                  *)
(*   session    an unencrypted session only when both ends enabled it      *)
(*                                                                         *)
(* Families on unencrypted sessions are outside the property.  An event    *)
(* the specification cannot explain is printed as <<"BAD", line>> and      *)
(* counted; the run goes on.                                               *)
(***************************************************************************)
EXTENDS Naturals, Sequences, FiniteSets, TLC, Json, IOUtils

Rec == ndJsonDeserialize(IOEnv.TRACE)
N == Len(Rec)

TEnds == {1, 2, 3}
TSlots == 0..3
TConns == {c \in SUBSET TEnds : Cardinality(c) = 2}

\* Envelope.tla in the state right after the handshakes: slot 0 of every connection holds the session key
E == INSTANCE Envelope WITH
       Ends <- TEnds, Slots <- TSlots, KeyIds <- 0..255, Payloads <- {0}, MaxGen <- 1, HalfForced <- TRUE, KeyIdAliased <- FALSE,
       plain <- [c \in TConns |-> FALSE],
       gen <- [c \in TConns |-> [k \in TSlots |-> IF k = 0 THEN 1 ELSE 0]],
       fresh <- [c \in TConns |-> 2],
       cur <- [c \in TConns |-> 0],
       nseal <- [c \in TConns |-> [x \in c |-> 0]],
       wire <- {}, pending <- {}, delivered <- {}

VARIABLES l, bad
tvars == <<l, bad>>

ConnOf(s) == {s[1], s[2]}

\* the datagram the event speaks about and its presentation, as records of Envelope.tla
\* class "forged": sealed by an outsider (from = 0) under a key he can know without any secret, any key id / half
IsForged(e) == "class" \in DOMAIN e /\ e.class = "forged"
Dgram(e) == LET c == ConnOf(e.conn) IN
  [conn |-> c, from |-> e.from, seq |-> 1, slot |-> 0,
   key |-> IF IsForged(e) THEN <<"known-to-everybody">> ELSE E!KeyAt(e.from, c, 0), half |-> E!Half(c, e.from),
   payload |-> 0, sealed |-> TRUE]
Pres(e) == [d |-> Dgram(e), at |-> e.at, on |-> ConnOf(e.on), alt |-> e.alt,
            kid |-> IF e.alt = "keyid" THEN 4 ELSE 0]        \* any other key id; the family holds every single-bit change

WellFormed(e) == /\ ConnOf(e.conn) \in TConns /\ ConnOf(e.on) \in TConns
                 /\ (e.from \in ConnOf(e.conn) \/ (IsForged(e) /\ e.from = 0)) /\ e.at \in ConnOf(e.on)
                 /\ e.alt \in E!TamperClasses \cup {E!Intact}

Judge(e) ==
  CASE e.op = "roundtrip" ->
         /\ WellFormed(e)
         /\ E!Open(Pres(e)) => (e.same /\ e.res = "ok")
         /\ E!Open(Pres(e))                                   \* the driver calls only rightful deliveries a round trip
    [] e.op = "family" ->
         /\ WellFormed(e)
         /\ e.members > 0
         /\ e.plain \/ /\ e.panics = 0
                       /\ e.opened = (IF E!Open(Pres(e)) THEN e.members ELSE 0)
                       /\ E!MechOpen(Pres(e)) = E!Open(Pres(e))        \* (design: the mechanism agrees with the rule)
    [] e.op = "slots" ->      \* what the key slots of the ends hold: equal material exactly where Envelope!KeyAt is equal
         /\ Len(e.entries) >= 2
         \* (the unused slots of ONE end may hold the same private dummy: the code draws one random dummy per end)
         /\ \A i, j \in 1..Len(e.entries) : \A a, b \in 1..4 :
               LET ka == E!KeyAt(e.entries[i].end, ConnOf(e.entries[i].conn), a - 1)
                   kb == E!KeyAt(e.entries[j].end, ConnOf(e.entries[j].conn), b - 1) IN
               /\ (ka = kb) => (e.entries[i].fps[a] = e.entries[j].fps[b])
               /\ (e.entries[i].fps[a] = e.entries[j].fps[b]) => (ka = kb \/ (i = j /\ ka[1] = "dummy" /\ kb[1] = "dummy"))
    [] e.op = "cleartext" -> E!CleartextOK(e.found, e.plain) /\ e.windows > 0
    [] e.op = "session" -> (e.plain => e.want_plain) /\ e.cipher = e.cipher_b
    [] OTHER -> FALSE

TraceInit == l = 1 /\ bad = 0 /\ TLCSet(1, 0) /\ TLCSet(2, 0)
TraceNext == /\ l <= N /\ l' = l + 1
             /\ IF Judge(Rec[l]) THEN bad' = bad
                ELSE /\ bad' = bad + 1 /\ PrintT(<<"BAD", l>>)
                     /\ TLCSet(1, bad') /\ (IF bad = 0 THEN TLCSet(2, l) ELSE TRUE)
TraceSpec == TraceInit /\ [][TraceNext]_tvars

Accepted == IF TLCGet(1) = 0 /\ TLCGet("stats").diameter - 1 = N THEN TRUE
            ELSE LET first == IF TLCGet(1) = 0 THEN TLCGet("stats").diameter ELSE TLCGet(2)
                 IN Print(<<"REJECTED", first, Rec[first], "BADCOUNT", TLCGet(1)>>, FALSE)
=============================================================================
