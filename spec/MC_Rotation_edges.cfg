SPECIFICATION MCSpec
CONSTANTS MaxId = 5
          MaxNet = 3
INVARIANT SealKeyHeldByPeer
CONSTRAINT Bound
VIEW View
ACTION_CONSTRAINT Emit
CHECK_DEADLOCK FALSE
