"""Validation of node-level run records (Trace_NodeRuns.tla): continues behind a rejected record so that every
distinct violation of a run is reported (bounded number of rounds)."""
import os
import vplib as V


def validate_records(pid, out, path, classify, name, max_rounds=12):
    """Returns number of accepted records.  `classify(record) -> signature`."""
    evs = V.read_ndjson(path)
    accepted = 0
    offset = 0
    rounds = 0
    seen = set()
    cur = path
    while offset < len(evs) and rounds < max_rounds:
        rounds += 1
        part = evs[offset:]
        if rounds > 1:
            cur = os.path.join(V.workdir(pid), "records_part%d.ndjson" % rounds)
            V.write_ndjson(cur, part)
        v = V.tlc_trace("Trace_NodeRuns.tla", "Trace_NodeRuns.cfg", pid, cur, len(part), sub="runs%d" % rounds)
        if v.accepted:
            accepted += len(part)
            offset = len(evs)
            break
        accepted += v.matched
        bad = part[v.matched]
        sig = classify(bad)
        if sig not in seen:
            seen.add(sig)
            out.violation(sig, "%s: record not admitted by the specification: %s" % (name, V.json.dumps(bad)[:1200]), {"record": bad})
        # skip further records of the same signature
        offset += v.matched + 1
        while offset < len(evs) and classify(evs[offset]) in seen and evs[offset].get("op") == bad.get("op") and not _ok_fast(evs[offset]):
            offset += 1
    return accepted


def _ok_fast(e):
    return False
