SPECIFICATION MCSpec
CONSTANTS Ends = {1, 2, 3}
          Slots = {0, 1}
          KeyIds = {0, 1, 2}
          Payloads = {"p", "q"}
          MaxGen = 3
          MaxSeals = 3
          HalfForced = TRUE
          KeyIdAliased = FALSE
          MaxRot = 2
INVARIANT TypeOK
INVARIANT MechanismMeetsRule
INVARIANT NothingDeliveredFromBad
INVARIANT DeliveredIdentical
INVARIANT PendingOpens
INVARIANT WireHidesCleartext
CHECK_DEADLOCK FALSE
