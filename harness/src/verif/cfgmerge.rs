//! C20: configuration sources (defaults, file, command line) and interface-address parsing on the real code.
//!
//! `cfgmerge cases <cases.ndjson> <trace.ndjson> <variants> <stride> <offset> [allfe]`  executes the source combinations exported by TLC (MC_ConfigMerge,
//!        symbolic values) on real `ConfigFile` / `Args` values - built directly as structs and through the real front
//!        ends (serde_yaml on generated YAML, structopt on a generated argument vector, the version-1 file format) -
//!        then `Config::default()`, `merge_file`, `merge_args`, and records what every option ended up as.
//! `cfgmerge concrete <cases.ndjson> <trace.ndjson>`  replay of recorded cases (concrete values) on all front ends.
//! `cfgmerge pairs <trace.ndjson> <stride> <offset>`  all option pairs x {file, args, both}^2 (natively enumerated).
//! `cfgmerge random <n> <trace.ndjson>`            seeded random full combinations + round trip through the file form.
//! `cfgmerge netmask <netcases.ndjson|-> <nrandom> <trace.ndjson>`  parse_ip_netmask on TLC's inputs, every prefix
//!        0..=40, the malformed-string list and seeded mutations.
//!
//! The driver never judges: every event carries the inputs and the observed result, TLC (Trace_ConfigMerge) decides.
use super::util::*;
use crate::config::{Args, Config, ConfigFile, ConfigFileBeacon, ConfigFileDevice, ConfigFileStatsd, CryptoConfig};
use crate::device::Type;
use crate::oldconfig::OldConfigFile;
use crate::types::Mode;
use rand::seq::SliceRandom;
use rand::Rng;
use serde_json::{json, Value};
use std::collections::{BTreeMap, HashMap};
use std::str::FromStr;
use structopt::StructOpt;

#[derive(Clone, Copy, PartialEq, Debug)]
enum Ty {
    Str,
    Num,
    DevType,
    Mode,
    Algo,
    Bool,
    Map,
}

/// Binding of option names (as in spec/ConfigMerge.tla) to the code: value syntax, position in the YAML file,
/// command-line switch (alternatives are exercised by the variants), key in the version-1 file format.
struct Opt {
    name: &'static str,
    kind: &'static str,
    ty: Ty,
    yaml: &'static [&'static str],
    flags: &'static [&'static str],
    flagval: &'static str,
    old: &'static [&'static str],
}

const OPTS: &[Opt] = &[
    Opt { name: "device_type", kind: "scalar", ty: Ty::DevType, yaml: &["device", "type"], flags: &["--type", "-t"], flagval: "", old: &["device_type", "device-type"] },
    Opt { name: "device_name", kind: "scalar", ty: Ty::Str, yaml: &["device", "name"], flags: &["--device", "-d"], flagval: "", old: &["device_name", "device-name"] },
    Opt { name: "device_path", kind: "optional", ty: Ty::Str, yaml: &["device", "path"], flags: &["--device-path"], flagval: "", old: &["device_path", "device-path"] },
    Opt { name: "fix_rp_filter", kind: "flag", ty: Ty::Bool, yaml: &["device", "fix-rp-filter"], flags: &["--fix-rp-filter"], flagval: "true", old: &[] },
    Opt { name: "ip", kind: "optional", ty: Ty::Str, yaml: &["ip"], flags: &["--ip"], flagval: "", old: &[] },
    Opt { name: "advertise_addresses", kind: "list", ty: Ty::Str, yaml: &["advertise-addresses"], flags: &["--advertise_addresses"], flagval: "", old: &[] },
    Opt { name: "ifup", kind: "optional", ty: Ty::Str, yaml: &["ifup"], flags: &["--ifup"], flagval: "", old: &["ifup"] },
    Opt { name: "ifdown", kind: "optional", ty: Ty::Str, yaml: &["ifdown"], flags: &["--ifdown"], flagval: "", old: &["ifdown"] },
    Opt { name: "password", kind: "optional", ty: Ty::Str, yaml: &["crypto", "password"], flags: &["--password", "-p"], flagval: "", old: &["shared_key", "shared-key"] },
    Opt { name: "private_key", kind: "optional", ty: Ty::Str, yaml: &["crypto", "private-key"], flags: &["--private-key", "--key"], flagval: "", old: &[] },
    Opt { name: "public_key", kind: "optional", ty: Ty::Str, yaml: &["crypto", "public-key"], flags: &["--public-key"], flagval: "", old: &[] },
    Opt { name: "trusted_keys", kind: "list", ty: Ty::Str, yaml: &["crypto", "trusted-keys"], flags: &["--trusted-key", "--trust"], flagval: "", old: &[] },
    Opt { name: "algorithms", kind: "listval", ty: Ty::Algo, yaml: &["crypto", "algorithms"], flags: &["--algorithm", "--algo"], flagval: "", old: &[] },
    Opt { name: "listen", kind: "scalar", ty: Ty::Str, yaml: &["listen"], flags: &["--listen", "-l"], flagval: "", old: &["listen"] },
    Opt { name: "peers", kind: "list", ty: Ty::Str, yaml: &["peers"], flags: &["--peer", "-c", "--connect"], flagval: "", old: &["peers"] },
    Opt { name: "peer_timeout", kind: "scalar", ty: Ty::Num, yaml: &["peer-timeout"], flags: &["--peer-timeout"], flagval: "", old: &["peer_timeout", "peer-timeout"] },
    Opt { name: "keepalive", kind: "optional", ty: Ty::Num, yaml: &["keepalive"], flags: &["--keepalive"], flagval: "", old: &["keepalive"] },
    Opt { name: "beacon_store", kind: "optional", ty: Ty::Str, yaml: &["beacon", "store"], flags: &["--beacon-store"], flagval: "", old: &["beacon_store", "beacon-store"] },
    Opt { name: "beacon_load", kind: "optional", ty: Ty::Str, yaml: &["beacon", "load"], flags: &["--beacon-load"], flagval: "", old: &["beacon_load", "beacon-load"] },
    Opt { name: "beacon_interval", kind: "scalar", ty: Ty::Num, yaml: &["beacon", "interval"], flags: &["--beacon-interval"], flagval: "", old: &["beacon_interval", "beacon-interval"] },
    Opt { name: "beacon_password", kind: "optional", ty: Ty::Str, yaml: &["beacon", "password"], flags: &["--beacon-password"], flagval: "", old: &[] },
    Opt { name: "mode", kind: "scalar", ty: Ty::Mode, yaml: &["mode"], flags: &["--mode", "-m"], flagval: "", old: &["mode"] },
    Opt { name: "switch_timeout", kind: "scalar", ty: Ty::Num, yaml: &["switch-timeout"], flags: &["--switch-timeout"], flagval: "", old: &["dst_timeout", "dst-timeout"] },
    Opt { name: "claims", kind: "list", ty: Ty::Str, yaml: &["claims"], flags: &["--claim"], flagval: "", old: &["subnets"] },
    Opt { name: "auto_claim", kind: "flag", ty: Ty::Bool, yaml: &["auto-claim"], flags: &["--no-auto-claim"], flagval: "false", old: &[] },
    Opt { name: "port_forwarding", kind: "flag", ty: Ty::Bool, yaml: &["port-forwarding"], flags: &["--no-port-forwarding"], flagval: "false", old: &["port_forwarding", "port-forwarding"] },
    Opt { name: "daemonize", kind: "flag", ty: Ty::Bool, yaml: &[], flags: &["--daemon"], flagval: "true", old: &[] },
    Opt { name: "pid_file", kind: "optional", ty: Ty::Str, yaml: &["pid-file"], flags: &["--pid-file"], flagval: "", old: &["pid_file", "pid-file"] },
    Opt { name: "stats_file", kind: "optional", ty: Ty::Str, yaml: &["stats-file"], flags: &["--stats-file"], flagval: "", old: &["stats_file", "stats-file"] },
    Opt { name: "statsd_server", kind: "optional", ty: Ty::Str, yaml: &["statsd", "server"], flags: &["--statsd-server"], flagval: "", old: &["statsd_server", "statsd-server"] },
    Opt { name: "statsd_prefix", kind: "optional", ty: Ty::Str, yaml: &["statsd", "prefix"], flags: &["--statsd-prefix"], flagval: "", old: &["statsd_prefix", "statsd-prefix"] },
    Opt { name: "user", kind: "optional", ty: Ty::Str, yaml: &["user"], flags: &["--user"], flagval: "", old: &["user"] },
    Opt { name: "group", kind: "optional", ty: Ty::Str, yaml: &["group"], flags: &["--group"], flagval: "", old: &["group"] },
    Opt { name: "hook", kind: "optional", ty: Ty::Str, yaml: &["hook"], flags: &["--hook"], flagval: "", old: &[] },
    Opt { name: "hooks", kind: "map", ty: Ty::Map, yaml: &["hooks"], flags: &["--hook"], flagval: "", old: &[] },
];

fn opt(name: &str) -> &'static Opt {
    OPTS.iter().find(|o| o.name == name).unwrap_or_else(|| panic!("unknown option {}", name))
}

/// A value of a setting or of a source: sequence of strings, or sequence of (key, value) for the hooks map.
#[derive(Clone, Debug, PartialEq)]
enum Val {
    S(Vec<String>),
    M(Vec<(String, String)>),
}

impl Val {
    fn json(&self) -> Value {
        match self {
            Val::S(v) => json!(v),
            Val::M(m) => Value::Array(m.iter().map(|(k, v)| json!([k, v])).collect()),
        }
    }
    fn s(&self) -> &Vec<String> {
        match self {
            Val::S(v) => v,
            _ => panic!("driver: map where list expected"),
        }
    }
    fn m(&self) -> &Vec<(String, String)> {
        match self {
            Val::M(v) => v,
            _ => panic!("driver: list where map expected"),
        }
    }
    fn one(&self) -> &str {
        &self.s()[0]
    }
}

type Src = BTreeMap<&'static str, Val>;

#[derive(Clone, Debug, Default)]
struct Case {
    file: Src,
    args: Src,
}

fn empty_of(o: &Opt) -> Val {
    if o.ty == Ty::Map {
        Val::M(vec![])
    } else {
        Val::S(vec![])
    }
}

// ---------------------------------------------------------------------------------------------- observation

fn ostr(v: &Option<String>) -> Val {
    Val::S(v.iter().cloned().collect())
}

/// What every option is in an effective configuration (plain read-out of the struct fields).
fn observe(c: &Config) -> BTreeMap<&'static str, Val> {
    let mut m = BTreeMap::new();
    let one = |s: String| Val::S(vec![s]);
    m.insert("device_type", one(format!("{}", c.device_type)));
    m.insert("device_name", one(c.device_name.clone()));
    m.insert("device_path", ostr(&c.device_path));
    m.insert("fix_rp_filter", one(c.fix_rp_filter.to_string()));
    m.insert("ip", ostr(&c.ip));
    m.insert("advertise_addresses", Val::S(c.advertise_addresses.clone()));
    m.insert("ifup", ostr(&c.ifup));
    m.insert("ifdown", ostr(&c.ifdown));
    m.insert("password", ostr(&c.crypto.password));
    m.insert("private_key", ostr(&c.crypto.private_key));
    m.insert("public_key", ostr(&c.crypto.public_key));
    m.insert("trusted_keys", Val::S(c.crypto.trusted_keys.clone()));
    m.insert("algorithms", Val::S(c.crypto.algorithms.clone()));
    m.insert("listen", one(c.listen.clone()));
    m.insert("peers", Val::S(c.peers.clone()));
    m.insert("peer_timeout", one(c.peer_timeout.to_string()));
    m.insert("keepalive", Val::S(c.keepalive.iter().map(|v| v.to_string()).collect()));
    m.insert("beacon_store", ostr(&c.beacon_store));
    m.insert("beacon_load", ostr(&c.beacon_load));
    m.insert("beacon_interval", one(c.beacon_interval.to_string()));
    m.insert("beacon_password", ostr(&c.beacon_password));
    m.insert("mode", one(format!("{}", c.mode)));
    m.insert("switch_timeout", one(c.switch_timeout.to_string()));
    m.insert("claims", Val::S(c.claims.clone()));
    m.insert("auto_claim", one(c.auto_claim.to_string()));
    m.insert("port_forwarding", one(c.port_forwarding.to_string()));
    m.insert("daemonize", one(c.daemonize.to_string()));
    m.insert("pid_file", ostr(&c.pid_file));
    m.insert("stats_file", ostr(&c.stats_file));
    m.insert("statsd_server", ostr(&c.statsd_server));
    m.insert("statsd_prefix", ostr(&c.statsd_prefix));
    m.insert("user", ostr(&c.user));
    m.insert("group", ostr(&c.group));
    m.insert("hook", ostr(&c.hook));
    let mut hooks: Vec<(String, String)> = c.hooks.iter().map(|(k, v)| (k.clone(), v.clone())).collect();
    hooks.sort();
    m.insert("hooks", Val::M(hooks));
    m
}

// ---------------------------------------------------------------------------------------------- front ends

fn get1(src: &Src, name: &str) -> Option<String> {
    src.get(name).and_then(|v| v.s().first().cloned())
}
fn getn(src: &Src, name: &str) -> Option<u32> {
    get1(src, name).map(|s| s.parse::<u32>().expect("driver: numeric value"))
}
fn getb(src: &Src, name: &str) -> Option<bool> {
    get1(src, name).map(|s| s == "true")
}
fn getl(src: &Src, name: &str) -> Option<Vec<String>> {
    src.get(name).map(|v| v.s().clone())
}

/// The file as the struct the YAML reader produces. `variant` decides how absent sub-structures are written.
fn file_struct(src: &Src, variant: u64) -> ConfigFile {
    let any = |names: &[&str]| names.iter().any(|n| src.contains_key(n));
    let device = if any(&["device_type", "device_name", "device_path", "fix_rp_filter"]) || variant % 2 == 1 {
        Some(ConfigFileDevice {
            type_: get1(src, "device_type").map(|s| Type::from_str(&s).unwrap()),
            name: get1(src, "device_name"),
            path: get1(src, "device_path"),
            fix_rp_filter: getb(src, "fix_rp_filter"),
        })
    } else {
        None
    };
    let beacon = if any(&["beacon_store", "beacon_load", "beacon_interval", "beacon_password"]) || variant % 2 == 1 {
        Some(ConfigFileBeacon {
            store: get1(src, "beacon_store"),
            load: get1(src, "beacon_load"),
            interval: getn(src, "beacon_interval"),
            password: get1(src, "beacon_password"),
        })
    } else {
        None
    };
    let statsd = if any(&["statsd_server", "statsd_prefix"]) || variant % 2 == 1 {
        Some(ConfigFileStatsd { server: get1(src, "statsd_server"), prefix: get1(src, "statsd_prefix") })
    } else {
        None
    };
    let mut hooks = HashMap::new();
    if let Some(v) = src.get("hooks") {
        for (k, s) in v.m() {
            hooks.insert(k.clone(), s.clone());
        }
    }
    ConfigFile {
        device,
        ip: get1(src, "ip"),
        advertise_addresses: getl(src, "advertise_addresses"),
        ifup: get1(src, "ifup"),
        ifdown: get1(src, "ifdown"),
        crypto: CryptoConfig {
            password: get1(src, "password"),
            private_key: get1(src, "private_key"),
            public_key: get1(src, "public_key"),
            trusted_keys: getl(src, "trusted_keys").unwrap_or_default(),
            algorithms: getl(src, "algorithms").unwrap_or_default(),
        },
        listen: get1(src, "listen"),
        peers: getl(src, "peers"),
        peer_timeout: getn(src, "peer_timeout"),
        keepalive: getn(src, "keepalive"),
        beacon,
        mode: get1(src, "mode").map(|s| Mode::from_str(&s).unwrap()),
        switch_timeout: getn(src, "switch_timeout"),
        claims: getl(src, "claims"),
        auto_claim: getb(src, "auto_claim"),
        port_forwarding: getb(src, "port_forwarding"),
        pid_file: get1(src, "pid_file"),
        stats_file: get1(src, "stats_file"),
        statsd,
        user: get1(src, "user"),
        group: get1(src, "group"),
        hook: get1(src, "hook"),
        hooks,
    }
}

fn yaml_scalar(o: &Opt, s: &str) -> String {
    match o.ty {
        Ty::Num | Ty::Bool | Ty::DevType | Ty::Mode => s.to_string(),
        _ => serde_json::to_string(s).unwrap(), // a JSON string is a YAML double-quoted scalar
    }
}

/// The file as YAML text in the documented layout (CONFIG FILES / example.net). Absent options are left out or
/// written as `~` ("no value", as in the example file) depending on `variant`.
fn file_yaml(src: &Src, variant: u64) -> String {
    let mut top: Vec<(String, Vec<String>)> = vec![]; // section -> lines
    let mut section = |name: &str| -> usize {
        if let Some(i) = top.iter().position(|(n, _)| n == name) {
            i
        } else {
            top.push((name.to_string(), vec![]));
            top.len() - 1
        }
    };
    let mut lines: Vec<(usize, String)> = vec![];
    for o in OPTS {
        if o.yaml.is_empty() {
            continue;
        }
        let key = o.yaml[o.yaml.len() - 1];
        let sec = if o.yaml.len() == 2 { o.yaml[0] } else { "" };
        let ind = if sec.is_empty() { "" } else { "  " };
        let body: Option<String> = match src.get(o.name) {
            None => {
                if variant % 3 == 2 {
                    // explicit "no value"
                    Some(match (o.kind, o.name) {
                        ("map", _) => format!("{}{}: {{}}", ind, key),
                        (_, "trusted_keys") | (_, "algorithms") => format!("{}{}: []", ind, key),
                        _ => format!("{}{}: ~", ind, key),
                    })
                } else {
                    None
                }
            }
            Some(Val::M(m)) => {
                let mut s = format!("{}{}:", ind, key);
                if m.is_empty() {
                    s.push_str(" {}");
                }
                for (k, v) in m {
                    s.push_str(&format!("\n{}  {}: {}", ind, k, serde_json::to_string(v).unwrap()));
                }
                Some(s)
            }
            Some(Val::S(v)) => {
                if matches!(o.kind, "list" | "listval") {
                    let mut s = format!("{}{}:", ind, key);
                    if v.is_empty() {
                        s.push_str(" []");
                    }
                    for x in v {
                        s.push_str(&format!("\n{}  - {}", ind, yaml_scalar(o, x)));
                    }
                    Some(s)
                } else {
                    Some(format!("{}{}: {}", ind, key, yaml_scalar(o, &v[0])))
                }
            }
        };
        if let Some(b) = body {
            let i = section(sec);
            lines.push((i, b));
        }
    }
    let mut out = String::new();
    // sections in a variant-dependent order (the file is a map: order must not matter)
    let mut order: Vec<usize> = (0..top.len()).collect();
    if variant % 2 == 1 {
        order.reverse();
    }
    for i in order {
        let name = top[i].0.clone();
        if !name.is_empty() {
            out.push_str(&format!("{}:\n", name));
        }
        for (j, l) in &lines {
            if *j == i {
                out.push_str(l);
                out.push('\n');
            }
        }
    }
    if out.trim().is_empty() {
        out.push_str("{}\n");
    }
    out
}

/// Version-1 file (oldconfig.rs): flat keys with underscore or dash spelling. None when the source says something the
/// old format has no word for.
fn file_old_yaml(src: &Src, variant: u64) -> Option<String> {
    let mut out = String::new();
    for (name, v) in src {
        let o = opt(name);
        if o.old.is_empty() {
            return None;
        }
        let key = o.old[(variant as usize) % o.old.len()];
        match v {
            Val::M(_) => return None,
            Val::S(list) => {
                if matches!(o.kind, "list") {
                    out.push_str(&format!("{}:", key));
                    if list.is_empty() {
                        out.push_str(" []");
                    }
                    for x in list {
                        out.push_str(&format!("\n  - {}", yaml_scalar(o, x)));
                    }
                    out.push('\n');
                } else {
                    out.push_str(&format!("{}: {}\n", key, yaml_scalar(o, &list[0])));
                }
            }
        }
    }
    if out.is_empty() {
        out.push_str("{}\n");
    }
    Some(out)
}

fn args_struct(src: &Src) -> Args {
    let mut hook: Vec<String> = vec![];
    if let Some(s) = get1(src, "hook") {
        hook.push(s);
    }
    if let Some(v) = src.get("hooks") {
        for (k, s) in v.m() {
            hook.push(format!("{}:{}", k, s));
        }
    }
    Args {
        type_: get1(src, "device_type").map(|s| Type::from_str(&s).unwrap()),
        device: get1(src, "device_name"),
        device_path: get1(src, "device_path"),
        fix_rp_filter: src.contains_key("fix_rp_filter"),
        ip: get1(src, "ip"),
        advertise_addresses: getl(src, "advertise_addresses").unwrap_or_default(),
        ifup: get1(src, "ifup"),
        ifdown: get1(src, "ifdown"),
        password: get1(src, "password"),
        private_key: get1(src, "private_key"),
        public_key: get1(src, "public_key"),
        trusted_keys: getl(src, "trusted_keys").unwrap_or_default(),
        algorithms: getl(src, "algorithms").unwrap_or_default(),
        listen: get1(src, "listen"),
        peers: getl(src, "peers").unwrap_or_default(),
        peer_timeout: getn(src, "peer_timeout"),
        keepalive: getn(src, "keepalive"),
        beacon_store: get1(src, "beacon_store"),
        beacon_load: get1(src, "beacon_load"),
        beacon_interval: getn(src, "beacon_interval"),
        beacon_password: get1(src, "beacon_password"),
        mode: get1(src, "mode").map(|s| Mode::from_str(&s).unwrap()),
        switch_timeout: getn(src, "switch_timeout"),
        claims: getl(src, "claims").unwrap_or_default(),
        no_auto_claim: src.contains_key("auto_claim"),
        no_port_forwarding: src.contains_key("port_forwarding"),
        daemon: src.contains_key("daemonize"),
        pid_file: get1(src, "pid_file"),
        stats_file: get1(src, "stats_file"),
        statsd_server: get1(src, "statsd_server"),
        statsd_prefix: get1(src, "statsd_prefix"),
        user: get1(src, "user"),
        group: get1(src, "group"),
        hook,
        ..Default::default()
    }
}

/// Does the command line itself refuse this combination (documented conflicts / requirements)?
fn argv_refused(src: &Src) -> bool {
    (src.contains_key("password") && src.contains_key("private_key"))
        || (src.contains_key("statsd_prefix") && !src.contains_key("statsd_server"))
}

/// The command line as an argument vector; `variant` chooses among documented spellings (-t / --type, --opt=value).
fn argv(src: &Src, variant: u64) -> Vec<String> {
    let mut v = vec!["vpncloud".to_string()];
    if variant % 2 == 1 {
        // options without influence on the configuration
        v.push("--verbose".to_string());
        v.push("--log-file".to_string());
        v.push("/nonexistent/verif.log".to_string());
    }
    let mut names: Vec<&&'static str> = src.keys().collect();
    if variant % 2 == 1 {
        names.reverse();
    }
    for name in names {
        let o = opt(name);
        let flag = o.flags[(variant as usize) % o.flags.len()];
        let push = |v: &mut Vec<String>, val: &str| {
            if flag.starts_with("--") && variant % 4 >= 2 {
                v.push(format!("{}={}", flag, val));
            } else {
                v.push(flag.to_string());
                v.push(val.to_string());
            }
        };
        match (&src[*name], o.kind) {
            (_, "flag") => v.push(flag.to_string()),
            (Val::M(m), _) => {
                for (k, s) in m {
                    push(&mut v, &format!("{}:{}", k, s));
                }
            }
            (Val::S(list), _) => {
                for x in list {
                    push(&mut v, x);
                }
            }
        }
    }
    v
}

fn clear_env() {
    for k in ["PASSWORD", "PRIVATE_KEY", "VPNCLOUD_PASSWORD", "VPNCLOUD_PRIVATE_KEY"] {
        std::env::remove_var(k);
    }
}

// ---------------------------------------------------------------------------------------------- running one case

struct Runner {
    t: Trace,
    cases: u64,
    runs: u64,
    skipped_argv: u64,
    skipped_old: u64,
    failures: u64,
}

impl Runner {
    fn call_failed(&mut self, case: u64, fe: &str, what: &str, res: &str, msg: &str, input: Value) {
        self.failures += 1;
        let mut msg = msg.to_string();
        msg.truncate(300);
        self.t.ev(json!({"op":"call","case":case,"fe":fe,"what":what,"res":res,"msg":msg,"input":input}));
    }

    /// defaults -> merge_file -> merge_args on real values; returns the effective configuration
    fn merge(&mut self, case: u64, fe: &str, file: Option<ConfigFile>, args: Args) -> Option<Config> {
        let mut cfg = match guarded(Config::default) {
            Ok(c) => c,
            Err(m) => {
                self.call_failed(case, fe, "Config::default", "panic", &m, json!(null));
                return None;
            }
        };
        if let Some(f) = file {
            if let Err(m) = guarded(|| cfg.merge_file(f)) {
                self.call_failed(case, fe, "merge_file", "panic", &m, json!(null));
                return None;
            }
        }
        if let Err(m) = guarded(|| cfg.merge_args(args)) {
            self.call_failed(case, fe, "merge_args", "panic", &m, json!(null));
            return None;
        }
        Some(cfg)
    }

    fn log_merge(&mut self, case: u64, fe: &str, c: &Case, cfg: &Config, skip: &[&str]) {
        let obs = observe(cfg);
        for o in OPTS {
            if skip.contains(&o.name) {
                continue;
            }
            let f = c.file.get(o.name).cloned().unwrap_or_else(|| empty_of(o));
            let a = c.args.get(o.name).cloned().unwrap_or_else(|| empty_of(o));
            self.t.ev(json!({"op":"merge","case":case,"fe":fe,"opt":o.name,"kind":o.kind,
                             "file":f.json(),"args":a.json(),"got":obs[o.name].json()}));
        }
    }

    fn log_keepalive(&mut self, case: u64, cfg: &Config) {
        let ka: Vec<u32> = cfg.keepalive.iter().cloned().collect();
        match guarded(|| cfg.get_keepalive()) {
            Ok(v) => self.t.ev(json!({"op":"keepalive","case":case,"keepalive":ka,"peer_timeout":cfg.peer_timeout,"res":"ok","got":v})),
            Err(_) => self.t.ev(json!({"op":"keepalive","case":case,"keepalive":ka,"peer_timeout":cfg.peer_timeout,"res":"panic","got":0})),
        }
    }

    /// effective configuration -> file form -> merged into fresh defaults (directly and through YAML text)
    fn roundtrip(&mut self, case: u64, cfg: &Config) {
        let orig = observe(cfg);
        for via in ["struct", "yaml"] {
            let cf = match guarded(|| cfg.clone().into_config_file()) {
                Ok(cf) => cf,
                Err(m) => {
                    self.call_failed(case, via, "into_config_file", "panic", &m, json!(null));
                    return;
                }
            };
            let cf = if via == "yaml" {
                let text = match guarded(|| serde_yaml::to_string(&cf)) {
                    Ok(Ok(t)) => t,
                    Ok(Err(e)) => {
                        self.call_failed(case, via, "serialize file form", "err", &e.to_string(), json!(null));
                        continue;
                    }
                    Err(m) => {
                        self.call_failed(case, via, "serialize file form", "panic", &m, json!(null));
                        continue;
                    }
                };
                match guarded(|| serde_yaml::from_str::<ConfigFile>(&text)) {
                    Ok(Ok(cf)) => cf,
                    Ok(Err(e)) => {
                        self.call_failed(case, via, "read back file form", "err", &e.to_string(), json!(text));
                        continue;
                    }
                    Err(m) => {
                        self.call_failed(case, via, "read back file form", "panic", &m, json!(text));
                        continue;
                    }
                }
            } else {
                cf
            };
            let back = match self.merge(case, via, Some(cf), Args::default()) {
                Some(b) => b,
                None => continue,
            };
            let got = observe(&back);
            for o in OPTS {
                self.t.ev(json!({"op":"roundtrip","case":case,"via":via,"opt":o.name,"orig":orig[o.name].json(),"got":got[o.name].json()}));
            }
        }
    }

    /// One source combination on the front ends selected by `fes` ("struct", "text", "old").
    fn run_case(&mut self, c: &Case, variant: u64, fes: &[&str], roundtrip: bool) {
        self.cases += 1;
        let case = self.cases;
        for fe in fes {
            match *fe {
                "struct" => {
                    let file = if c.file.is_empty() && variant % 2 == 0 { None } else { Some(file_struct(&c.file, variant)) };
                    let args = args_struct(&c.args);
                    self.runs += 1;
                    if let Some(cfg) = self.merge(case, fe, file, args) {
                        self.log_merge(case, fe, c, &cfg, &[]);
                        self.log_keepalive(case, &cfg);
                        if roundtrip {
                            self.roundtrip(case, &cfg);
                        }
                    }
                }
                "text" => {
                    if argv_refused(&c.args) {
                        self.skipped_argv += 1;
                        continue;
                    }
                    let text = file_yaml(&c.file, variant);
                    let file = match guarded(|| serde_yaml::from_str::<ConfigFile>(&text)) {
                        Ok(Ok(f)) => f,
                        Ok(Err(e)) => {
                            self.call_failed(case, fe, "read config file", "err", &e.to_string(), json!(text));
                            continue;
                        }
                        Err(m) => {
                            self.call_failed(case, fe, "read config file", "panic", &m, json!(text));
                            continue;
                        }
                    };
                    let av = argv(&c.args, variant);
                    clear_env();
                    let args = match guarded(|| Args::from_iter_safe(av.iter())) {
                        Ok(Ok(a)) => a,
                        Ok(Err(e)) => {
                            self.call_failed(case, fe, "parse command line", "err", &e.message, json!(av));
                            continue;
                        }
                        Err(m) => {
                            self.call_failed(case, fe, "parse command line", "panic", &m, json!(av));
                            continue;
                        }
                    };
                    self.runs += 1;
                    if let Some(cfg) = self.merge(case, fe, Some(file), args) {
                        self.log_merge(case, fe, c, &cfg, &[]);
                    }
                }
                "old" => {
                    // version-1 file: the shared key doubles as beacon password and a missing key becomes "none"
                    // (documented by the converter's own warnings) - those two options are not bound here
                    let text = match file_old_yaml(&c.file, variant) {
                        Some(t) => t,
                        None => {
                            self.skipped_old += 1;
                            continue;
                        }
                    };
                    let old = match guarded(|| serde_yaml::from_str::<OldConfigFile>(&text)) {
                        Ok(Ok(f)) => f,
                        Ok(Err(e)) => {
                            self.call_failed(case, fe, "read version-1 file", "err", &e.to_string(), json!(text));
                            continue;
                        }
                        Err(m) => {
                            self.call_failed(case, fe, "read version-1 file", "panic", &m, json!(text));
                            continue;
                        }
                    };
                    let file = match guarded(|| old.convert()) {
                        Ok(f) => f,
                        Err(m) => {
                            self.call_failed(case, fe, "convert version-1 file", "panic", &m, json!(text));
                            continue;
                        }
                    };
                    self.runs += 1;
                    if let Some(cfg) = self.merge(case, fe, Some(file), args_struct(&c.args)) {
                        self.log_merge(case, fe, c, &cfg, &["password", "beacon_password"]);
                    }
                }
                other => panic!("unknown front end {}", other),
            }
        }
    }

    /// version-1 `listen` / `port`
    fn old_listen(&mut self) {
        for (listen, port) in [(None, None), (Some("[::]:4000"), None), (None, Some(4001u16)), (Some("10.1.1.1:4002"), Some(4003u16))] {
            let mut text = String::new();
            if let Some(l) = listen {
                text.push_str(&format!("listen: \"{}\"\n", l));
            }
            if let Some(p) = port {
                text.push_str(&format!("port: {}\n", p));
            }
            if text.is_empty() {
                text.push_str("{}\n");
            }
            let res = guarded(|| serde_yaml::from_str::<OldConfigFile>(&text).map(|o| o.convert()));
            match res {
                Ok(Ok(cf)) => {
                    let l: Vec<String> = listen.iter().map(|s| s.to_string()).collect();
                    let p: Vec<String> = port.iter().map(|s| s.to_string()).collect();
                    let g: Vec<String> = cf.listen.iter().cloned().collect();
                    self.t.ev(json!({"op":"oldlisten","listen":l,"port":p,"got":g}));
                }
                Ok(Err(e)) => self.call_failed(0, "old", "read version-1 file", "err", &e.to_string(), json!(text)),
                Err(m) => self.call_failed(0, "old", "convert version-1 file", "panic", &m, json!(text)),
            }
        }
    }

    fn summary(self) -> Value {
        let (cases, runs, sa, so, fl) = (self.cases, self.runs, self.skipped_argv, self.skipped_old, self.failures);
        let events = self.t.finish();
        json!({"runs": runs, "steps": cases, "events": events, "skipped_argv": sa, "skipped_old": so, "call_failures": fl})
    }
}

// ---------------------------------------------------------------------------------------------- values

const EVENTS: [&str; 6] = ["peer_connected", "peer_disconnected", "device_setup", "device_configured", "vpn_started", "peer_connecting"];
const MODES: [&str; 4] = ["normal", "hub", "switch", "router"];
const ALGOS4: [&str; 4] = ["aes128", "aes256", "chacha20", "plain"];

/// A concrete value for a symbolic one ("f1", "f2", "a1", "a2", ...): distinct per (option, symbol, variant).
fn concrete(o: &Opt, sym: &str, variant: u64) -> String {
    let from_args = sym.starts_with('a');
    let idx: u64 = sym[1..].parse().unwrap_or(1);
    let oi = OPTS.iter().position(|x| x.name == o.name).unwrap() as u64;
    match o.ty {
        Ty::Str | Ty::Map => format!("{}.{}.v{}", sym, o.name, variant),
        Ty::Num => ((if from_args { 2000 } else { 1000 }) + 100 * idx + 2 * oi + 200 * (variant % 4)).to_string(),
        Ty::DevType => (if from_args ^ (variant % 2 == 1) { "tun" } else { "tap" }).to_string(),
        Ty::Mode => MODES[((if from_args { 2 } else { 1 }) + variant as usize) % 4].to_string(),
        Ty::Algo => ALGOS4[((if from_args { 2 } else { 0 }) + idx as usize - 1 + variant as usize) % 4].to_string(),
        Ty::Bool => sym.to_string(),
    }
}

fn concretize_src(v: &Value, variant: u64) -> Src {
    let mut src = Src::new();
    if let Some(obj) = v.as_object() {
        for (name, val) in obj {
            let o = opt(name);
            let arr = val.as_array().expect("driver: source value must be an array");
            let cv = if o.ty == Ty::Map {
                Val::M(arr
                    .iter()
                    .map(|p| {
                        let k = p[0].as_str().unwrap();
                        let ki: usize = k[1..].parse().unwrap_or(1);
                        (EVENTS[(ki + variant as usize) % EVENTS.len()].to_string(), concrete(o, p[1].as_str().unwrap(), variant))
                    })
                    .collect())
            } else {
                Val::S(arr.iter().map(|s| concrete(o, s.as_str().unwrap(), variant)).collect())
            };
            src.insert(o.name, cv);
        }
    }
    src
}

/// TLC's cases. Cases about one option and the all-at-once cases run on every front end and `variants` value
/// assignments; the (many) two-option cases rotate over the front ends and are thinned by stride/offset.
pub fn run_cases(cases_path: &str, out_path: &str, variants: u64, stride: u64, offset: u64, allfe: bool) -> Value {
    let cases = read_ndjson(cases_path);
    let mut r = Runner { t: Trace::create(out_path), cases: 0, runs: 0, skipped_argv: 0, skipped_old: 0, failures: 0 };
    let mut npair = 0u64;
    for (i, c) in cases.iter().enumerate() {
        let mut names: Vec<String> = vec![];
        for side in ["file", "args"] {
            if let Some(o) = c[side].as_object() {
                for k in o.keys() {
                    if !names.contains(k) {
                        names.push(k.clone());
                    }
                }
            }
        }
        if names.len() == 2 {
            npair += 1;
            if npair % stride != offset % stride {
                continue;
            }
            let variant = (npair / stride) % 4;
            let case = Case { file: concretize_src(&c["file"], variant), args: concretize_src(&c["args"], variant) };
            let old_ok = file_old_yaml(&case.file, variant).is_some() && !case.file.is_empty();
            let fe = match (npair / stride) % 3 {
                0 => "struct",
                1 => "text",
                _ => if old_ok { "old" } else { "text" },
            };
            let fe = if fe == "text" && argv_refused(&case.args) { "struct" } else { fe };
            if allfe {
                r.run_case(&case, variant, &["struct", "text", "old"], false);
            } else {
                r.run_case(&case, variant, &[fe], false);
            }
        } else {
            for variant in 0..variants {
                let case = Case { file: concretize_src(&c["file"], variant), args: concretize_src(&c["args"], variant) };
                r.run_case(&case, variant, &["struct", "text", "old"], (i as u64 + variant) % 5 == 0);
            }
        }
    }
    r.old_listen();
    r.summary()
}

/// Replay of recorded cases with concrete values: ndjson lines {"file": {opt: value}, "args": {opt: value}}.
pub fn run_concrete(cases_path: &str, out_path: &str) -> Value {
    let mut r = Runner { t: Trace::create(out_path), cases: 0, runs: 0, skipped_argv: 0, skipped_old: 0, failures: 0 };
    let to_src = |v: &Value| -> Src {
        let mut src = Src::new();
        if let Some(obj) = v.as_object() {
            for (name, val) in obj {
                let o = opt(name);
                let arr = val.as_array().expect("value must be an array");
                let cv = if o.ty == Ty::Map {
                    Val::M(arr.iter().map(|p| (p[0].as_str().unwrap().to_string(), p[1].as_str().unwrap().to_string())).collect())
                } else {
                    Val::S(arr.iter().map(|x| x.as_str().unwrap().to_string()).collect())
                };
                src.insert(o.name, cv);
            }
        }
        src
    };
    for c in read_ndjson(cases_path) {
        let case = Case { file: to_src(&c["file"]), args: to_src(&c["args"]) };
        for variant in 0..4 {
            r.run_case(&case, variant, &["struct", "text", "old"], true);
        }
    }
    r.old_listen();
    r.summary()
}

/// Reads a configuration file the way main() does (current format, else version 1) - used for the documentation's
/// own example files (non-gating notes).
pub fn run_parsefile(path: &str) -> Value {
    let text = std::fs::read_to_string(path).expect("read file");
    let new = guarded(|| serde_yaml::from_str::<ConfigFile>(&text).map(|_| ()).map_err(|e| e.to_string()));
    let old = guarded(|| serde_yaml::from_str::<OldConfigFile>(&text).map(|_| ()).map_err(|e| e.to_string()));
    let show = |r: Result<Result<(), String>, String>| match r {
        Ok(Ok(())) => json!({"res": "ok", "msg": ""}),
        Ok(Err(e)) => json!({"res": "err", "msg": e}),
        Err(m) => json!({"res": "panic", "msg": m}),
    };
    json!({"runs": 1, "steps": 1, "events": 0, "current_format": show(new), "version1_format": show(old)})
}

/// values for presence p in {1: file, 2: args, 3: both}
fn pair_vals(o: &Opt, p: u64, variant: u64, c: &mut Case) {
    let mk = |syms: &[&str], keys: &[usize]| -> Val {
        if o.ty == Ty::Map {
            Val::M(syms.iter().zip(keys).map(|(s, k)| (EVENTS[(*k + variant as usize) % EVENTS.len()].to_string(), concrete(o, s, variant))).collect())
        } else if matches!(o.kind, "list" | "listval") {
            Val::S(syms.iter().map(|s| concrete(o, s, variant)).collect())
        } else {
            Val::S(vec![concrete(o, syms[0], variant)])
        }
    };
    if p & 1 != 0 && !o.yaml.is_empty() {
        let v = if o.kind == "flag" { Val::S(vec![(if o.flagval == "true" { "false" } else { "true" }).to_string()]) } else { mk(&["f1", "f2"], &[1, 2]) };
        c.file.insert(o.name, v);
    }
    if p & 2 != 0 {
        let v = if o.kind == "flag" { Val::S(vec![o.flagval.to_string()]) } else { mk(&["a1", "a2"], &[1, 3]) };
        c.args.insert(o.name, v);
    }
}

pub fn run_pairs(out_path: &str, stride: u64, offset: u64) -> Value {
    let mut r = Runner { t: Trace::create(out_path), cases: 0, runs: 0, skipped_argv: 0, skipped_old: 0, failures: 0 };
    let mut n = 0u64;
    for i in 0..OPTS.len() {
        for j in (i + 1)..OPTS.len() {
            for pi in 1..4u64 {
                for pj in 1..4u64 {
                    n += 1;
                    if n % stride != offset % stride {
                        continue;
                    }
                    let variant = n % 4;
                    let mut c = Case::default();
                    pair_vals(&OPTS[i], pi, variant, &mut c);
                    pair_vals(&OPTS[j], pj, variant, &mut c);
                    // alternate the front end; combinations the command line refuses run on structs
                    let fe = if (n / stride) % 2 == 0 || argv_refused(&c.args) { "struct" } else { "text" };
                    r.run_case(&c, variant, &[fe], false);
                }
            }
        }
    }
    r.summary()
}

pub fn run_random(n: u64, out_path: &str) -> Value {
    let mut rng = rng(20);
    let mut r = Runner { t: Trace::create(out_path), cases: 0, runs: 0, skipped_argv: 0, skipped_old: 0, failures: 0 };
    for k in 0..n {
        let variant = rng.gen_range(0..12u64);
        // density of mentioned options varies from sparse to (almost) everything
        let dens = [0.15, 0.4, 0.7, 0.95][(k % 4) as usize];
        let mut c = Case::default();
        for o in OPTS {
            let uniq: u32 = rng.gen_range(0..1000);
            let mut val = |src: &str, rng: &mut rand::rngs::StdRng| -> Val {
                let len = if matches!(o.kind, "list" | "listval" | "map") { rng.gen_range(1..4) } else { 1 };
                match o.ty {
                    Ty::Map => {
                        let mut ks: Vec<&str> = EVENTS.to_vec();
                        ks.shuffle(rng);
                        Val::M(ks[..len].iter().map(|k| (k.to_string(), format!("{}{}.{}.{}", src, uniq, o.name, k))).collect())
                    }
                    Ty::Str => Val::S((0..len).map(|i| format!("{}{}.{}.{}", src, uniq, o.name, i)).collect()),
                    Ty::Num => Val::S(vec![(2 * rng.gen_range(100..40000u32) + if src == "a" { 1 } else { 0 }).to_string()]),
                    Ty::DevType => Val::S(vec![["tun", "tap"][rng.gen_range(0..2)].to_string()]),
                    Ty::Mode => Val::S(vec![MODES[rng.gen_range(0..4)].to_string()]),
                    Ty::Algo => {
                        let mut a: Vec<&str> = ALGOS4.to_vec();
                        a.shuffle(rng);
                        Val::S(a[..len].iter().map(|s| s.to_string()).collect())
                    }
                    Ty::Bool => Val::S(vec![rng.gen_bool(0.5).to_string()]),
                }
            };
            if !o.yaml.is_empty() && rng.gen_bool(dens) {
                let v = val("f", &mut rng);
                c.file.insert(o.name, v);
            }
            if rng.gen_bool(dens * 0.8) {
                let v = if o.kind == "flag" { Val::S(vec![o.flagval.to_string()]) } else { val("a", &mut rng) };
                c.args.insert(o.name, v);
            }
        }
        // algorithms: file and command line name different ciphers (no duplicates across sources)
        if let (Some(Val::S(f)), Some(Val::S(a))) = (c.file.get("algorithms").cloned(), c.args.get("algorithms").cloned()) {
            let a2: Vec<String> = a.into_iter().filter(|x| !f.contains(x)).collect();
            if a2.is_empty() {
                c.args.remove("algorithms");
            } else {
                c.args.insert("algorithms", Val::S(a2));
            }
        }
        // what the command line refuses is not generated
        if c.args.contains_key("password") && c.args.contains_key("private_key") {
            if rng.gen_bool(0.5) {
                c.args.remove("password");
            } else {
                c.args.remove("private_key");
            }
        }
        if c.args.contains_key("statsd_prefix") && !c.args.contains_key("statsd_server") {
            c.args.insert("statsd_server", Val::S(vec![format!("a.statsd_server.{}", k)]));
        }
        r.run_case(&c, variant, &["struct", "text", "old"], true);
    }
    r.summary()
}

// ---------------------------------------------------------------------------------------------- interface address

fn netmask_event(t: &mut Trace, input: &str, origin: &str) {
    let chars: Vec<u32> = input.chars().map(|c| (c as u32).min(1_000_000)).collect();
    // the prefix the input *says* (for the violation signature only; TLC reads the characters itself)
    let prefix: i64 = match input.find('/') {
        None => -1,
        Some(p) => input[p + 1..].parse::<i64>().ok().filter(|v| *v >= 0 && *v < 1_000_000).unwrap_or(-2),
    };
    let ev = match guarded(|| crate::parse_ip_netmask(input)) {
        Ok(Ok((ip, mask))) => json!({"op":"netmask","origin":origin,"input":input,"chars":chars,"prefix":prefix,"res":"ok",
                                      "ip":ip.octets().to_vec(),"mask":mask.octets().to_vec(),"msg":""}),
        Ok(Err(e)) => json!({"op":"netmask","origin":origin,"input":input,"chars":chars,"prefix":prefix,"res":"err","ip":[],"mask":[],"msg":e}),
        Err(m) => json!({"op":"netmask","origin":origin,"input":input,"chars":chars,"prefix":prefix,"res":"panic","ip":[],"mask":[],"msg":m}),
    };
    t.ev(ev);
}

pub fn run_netmask(cases_path: &str, nrandom: u64, out_path: &str) -> Value {
    let mut t = Trace::create(out_path);
    let mut inputs: Vec<(String, &str)> = vec![];
    if cases_path != "-" {
        for c in read_ndjson(cases_path) {
            let s: String = c["chars"].as_array().unwrap().iter().map(|x| char::from_u32(x.as_u64().unwrap() as u32).unwrap()).collect();
            inputs.push((s, "tlc"));
        }
    }
    // every prefix length 0..=40 on several addresses, and omitted
    for ip in ["10.0.0.1", "172.16.254.3", "0.0.0.0", "255.255.255.255", "1.2.3.4"] {
        for p in 0..=40 {
            inputs.push((format!("{}/{}", ip, p), "prefix"));
        }
        inputs.push((ip.to_string(), "omitted"));
    }
    for s in [
        "", "/", "a/b", "1.2.3.4/", "1.2.3.4/-1", "1.2.3.4/33", "300.1.1.1/8", "1.2.3.4/24x", "1.2.3.4/24/", "1.2.3.4//24", "1.2.3.4/ 24",
        " 1.2.3.4/24", "1.2.3.4 /24", "1.2.3/24", "1.2.3.4.5/24", "1.2.3.4/255", "1.2.3.4/256", "1.2.3.4/1000", "1.2.3.4/99999999999999999999",
        "1.2.3.4/+8", "1.2.3.4/08", "1.2.3.4/000", "1.2.3.4/0x10", "1.2.3.4/1e1", "1.2.3.4/٣", "::1/64", "fe80::1", "1.2.3.4/\u{0}", "/24", "/0",
        "1.2.3.4/32 ", "01.02.03.04/8", "1.2.3.4\n/8", "1,2,3,4/8", "1.2.3.4\\8", "-1.2.3.4/8", "1.2.3.256", "999999999999.1.1.1/0", "1.2.3.4/00000000000000000000000",
        "0/0", "0.0.0.0/00", "1.2.3.4/0.0", "4294967296/0",
    ] {
        inputs.push((s.to_string(), "malformed"));
    }
    // seeded mutations of well-formed inputs
    let mut rng = rng(21);
    let alphabet: Vec<char> = "0123456789./+-a: ".chars().collect();
    for _ in 0..nrandom {
        let mut s: Vec<char> = format!("{}.{}.{}.{}/{}", rng.gen_range(0..256), rng.gen_range(0..256), rng.gen_range(0..256), rng.gen_range(0..256), rng.gen_range(0..41)).chars().collect();
        for _ in 0..rng.gen_range(0..3) {
            let pos = rng.gen_range(0..=s.len());
            match rng.gen_range(0..3) {
                0 if pos < s.len() => {
                    s.remove(pos);
                }
                1 if pos < s.len() => s[pos] = *alphabet.choose(&mut rng).unwrap(),
                _ => s.insert(pos, *alphabet.choose(&mut rng).unwrap()),
            }
        }
        inputs.push((s.into_iter().collect(), "random"));
    }
    let n = inputs.len();
    for (s, origin) in &inputs {
        netmask_event(&mut t, s, origin);
    }
    let events = t.finish();
    json!({"runs": 1, "steps": n, "events": events})
}

pub fn run(args: &[String]) -> Value {
    let a = |i: usize| args.get(i).map(|s| s.as_str()).unwrap_or("");
    let n = |i: usize| a(i).parse::<u64>().expect("numeric argument");
    match a(0) {
        "cases" => run_cases(a(1), a(2), n(3), n(4), n(5), a(6) == "allfe"),
        "concrete" => run_concrete(a(1), a(2)),
        "parsefile" => run_parsefile(a(1)),
        "pairs" => run_pairs(a(1), n(2), n(3)),
        "random" => run_random(n(1), a(2)),
        "netmask" => run_netmask(a(1), n(2), a(3)),
        _ => panic!("usage: cfgmerge cases|pairs|random|netmask ..."),
    }
}
