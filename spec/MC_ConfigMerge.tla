---------------------------- MODULE MC_ConfigMerge ----------------------------
(* Design run for ConfigMerge (C20).  The merge is run as the three overlay steps the code performs
   (defaults -> + file -> + command line -> file form merged into fresh defaults) over an exhaustively enumerated
   universe of source combinations with symbolic values, and the declarative property formulas of ConfigMerge are
   checked on the result.  Interface-address inputs are enumerated as a second family of initial states.
   Every case is exported (CASE / NET lines) and executed on the real code by harness/src/verif/cfgmerge.rs. *)
EXTENDS ConfigMerge, TLC, Json

CONSTANTS PairNames      \* options that take part in the pairwise enumeration (Names = all)

VARIABLES stage,   \* "defaults" -> "file" -> "args" -> "roundtrip" | "netmask"
          file,    \* what the file says: option name -> value (<<>> = not mentioned)
          args,    \* what the command line says
          cfg,     \* the configuration being built
          eff,     \* history: the effective configuration (after the command line)
          nm       \* interface-address case [s, d, p] (stage "netmask")
vars == <<stage, file, args, cfg, eff, nm>>

None == [n \in Names |-> <<>>]
Neg(b) == IF b = "true" THEN "false" ELSE "true"

\* symbolic values a source can give for an option: all presence combinations with distinct values per source
FileDom(o) ==
  IF ~o.infile THEN {<<>>} ELSE
  CASE o.kind \in {"scalar", "optional"} -> {<<>>, <<"f1">>}
    [] o.kind = "flag"                   -> {<<>>, <<"true">>, <<"false">>}
    [] o.kind \in {"list", "listval"}    -> {<<>>, <<"f1">>, <<"f1", "f2">>}
    [] o.kind = "map"                    -> {<<>>, << <<"k1", "f1">> >>, << <<"k1", "f1">>, <<"k2", "f2">> >>}
ArgsDom(o) ==
  IF ~o.inargs THEN {<<>>} ELSE
  CASE o.kind \in {"scalar", "optional"} -> {<<>>, <<"a1">>}
    [] o.kind = "flag"                   -> {<<>>, <<o.flagval>>}
    [] o.kind \in {"list", "listval"}    -> {<<>>, <<"a1">>, <<"a1", "a2">>}
    [] o.kind = "map"                    -> {<<>>, << <<"k1", "a1">> >>, << <<"k3", "a3">> >>,
                                             << <<"k1", "a1">>, <<"k3", "a3">> >>}
\* reduced domains for the pairwise enumeration: absent or the most telling value
FileDom2(o) ==
  IF ~o.infile THEN {<<>>} ELSE
  CASE o.kind \in {"scalar", "optional"} -> {<<>>, <<"f1">>}
    [] o.kind = "flag"                   -> {<<>>, <<Neg(o.flagval)>>}
    [] o.kind \in {"list", "listval"}    -> {<<>>, <<"f1", "f2">>}
    [] o.kind = "map"                    -> {<<>>, << <<"k1", "f1">>, <<"k2", "f2">> >>}
ArgsDom2(o) ==
  IF ~o.inargs THEN {<<>>} ELSE
  CASE o.kind \in {"scalar", "optional"} -> {<<>>, <<"a1">>}
    [] o.kind = "flag"                   -> {<<>>, <<o.flagval>>}
    [] o.kind \in {"list", "listval"}    -> {<<>>, <<"a1", "a2">>}
    [] o.kind = "map"                    -> {<<>>, << <<"k1", "a1">>, <<"k3", "a3">> >>}
Max1(S) == CHOOSE x \in S : \A y \in S : Len(y) <= Len(x)

\* source combinations: (1) one option, every combination of what the two sources can say; (2) two options, every
\* presence combination of both; (3) everything at once.  (Written as predicates on <<file, args>>: TLC enumerates
\* them as initial states; a pair is generated in both orders and kept once.)
PairOpts == {r \in Options : r.name \in PairNames}
IsSingle(f, a) == \E o \in Options : \E fv \in FileDom(o), av \in ArgsDom(o) :
                     f = [None EXCEPT ![o.name] = fv] /\ a = [None EXCEPT ![o.name] = av]
IsPair(f, a) == \E o \in PairOpts : \E q \in PairOpts \ {o} :
                  \E fv \in FileDom2(o), av \in ArgsDom2(o), gv \in FileDom2(q), bv \in ArgsDom2(q) :
                     /\ f = [None EXCEPT ![o.name] = fv, ![q.name] = gv]
                     /\ a = [None EXCEPT ![o.name] = av, ![q.name] = bv]
AllFile == [n \in Names |-> Max1(FileDom2(OptOf[n]))]
AllArgs == [n \in Names |-> Max1(ArgsDom2(OptOf[n]))]
IsFull(f, a) == \/ f = AllFile /\ a = None
                \/ f = None /\ a = AllArgs
                \/ f = AllFile /\ a = AllArgs

-----------------------------------------------------------------------------
(* interface-address inputs with the demand the construction implies *)
RECURSIVE D(_)
D(n) == IF n < 10 THEN <<48 + n>> ELSE D(n \div 10) \o <<48 + (n % 10)>>
Ip(a, b, c, d) == D(a) \o <<46>> \o D(b) \o <<46>> \o D(c) \o <<46>> \o D(d)
GoodIps == {Ip(10, 0, 0, 1), Ip(255, 255, 255, 255), Ip(0, 0, 0, 0), Ip(192, 168, 100, 254)}
LooseIps == {<<48, 49, 46, 50, 46, 51, 46, 52>>,                 \* "01.2.3.4"
             <<49, 46, 50, 46, 51, 46, 48, 48, 52>>}             \* "1.2.3.004"
BadIps == {<<>>, Ip(300, 1, 1, 1), Ip(1, 2, 3, 256), <<49, 46, 50, 46, 51>>, Ip(1, 2, 3, 4) \o <<46, 53>>,
           <<97, 46, 98, 46, 99, 46, 100>>, <<49, 46, 46, 51, 46, 52>>, <<32>> \o Ip(1, 2, 3, 4),
           <<58, 58, 49>>, <<49, 46, 50, 46, 51, 46, 45, 52>>}    \* "", 300.1.1.1, 1.2.3.256, 1.2.3, 1.2.3.4.5, a.b.c.d, 1..3.4, " 1.2.3.4", ::1, 1.2.3.-4
BadPrefixes == {<<47>>, <<47, 45, 49>>, <<47, 97>>, <<47, 50, 52, 32>>, <<47, 50, 52, 47, 56>>, <<47, 47>>,
                <<47, 49, 46, 53>>, <<47, 48, 120, 56>>}          \* "/", "/-1", "/a", "/24 ", "/24/8", "//", "/1.5", "/0x8"
LoosePrefixes == {<<47, 43, 53>>, <<47, 48, 50, 52>>, <<47, 48, 48>>}   \* "/+5" (5), "/024" (24), "/00" (0)
LoosePVal(t) == LooseVal(Tail(t))

NetCases ==
  {[s |-> ip \o <<47>> \o D(p), d |-> IF p = 0 THEN "okerr" ELSE IF p <= 32 THEN "ok" ELSE "err", p |-> p] :
      ip \in GoodIps, p \in 0..40}
  \cup {[s |-> ip, d |-> "ok", p |-> 24] : ip \in GoodIps}
  \cup {[s |-> ip \o <<47>> \o D(p), d |-> "err", p |-> p] : ip \in GoodIps, p \in {99, 255, 256, 300, 999}}
  \cup {[s |-> ip \o <<47>> \o D(p), d |-> IF p <= 32 THEN "okerr" ELSE "err", p |-> p] : ip \in LooseIps, p \in {0, 8, 32, 33}}
  \cup {[s |-> ip \o t, d |-> "okerr", p |-> LoosePVal(t)] : ip \in GoodIps, t \in LoosePrefixes}
  \cup {[s |-> ip \o <<47>> \o D(p), d |-> "err", p |-> 0] : ip \in BadIps, p \in {0, 24, 32, 33}}
  \cup {[s |-> ip, d |-> "err", p |-> 0] : ip \in BadIps}
  \cup {[s |-> ip \o t, d |-> "err", p |-> 0] : ip \in GoodIps \cup BadIps, t \in BadPrefixes}

-----------------------------------------------------------------------------
NoCase == [s |-> <<>>, d |-> "", p |-> 0]
Init == \/ /\ stage = "defaults" /\ cfg = Defaults /\ eff = Defaults /\ nm = NoCase
           /\ (IsSingle(file, args) \/ IsPair(file, args) \/ IsFull(file, args))
        \/ /\ stage = "netmask" /\ cfg = Defaults /\ eff = Defaults /\ file = None /\ args = None
           /\ nm \in NetCases

\* Config::merge_file
MergeFile == /\ stage = "defaults" /\ stage' = "file"
             /\ cfg' = MergeSource(cfg, file) /\ UNCHANGED <<file, args, eff, nm>>
\* Config::merge_args
MergeArgs == /\ stage = "file" /\ stage' = "args"
             /\ cfg' = MergeSource(cfg, args) /\ eff' = cfg' /\ UNCHANGED <<file, args, nm>>
\* Config::into_config_file, merged into Config::default()
FileFormAndBack == /\ stage = "args" /\ stage' = "roundtrip"
                   /\ cfg' = MergeSource(Defaults, ToFile(cfg)) /\ UNCHANGED <<file, args, eff, nm>>
\* parse_ip_netmask: one step per input (the result is judged by the invariants; the step only exports the case)
ParseAddr == /\ stage = "netmask" /\ stage' = "netdone" /\ UNCHANGED <<file, args, cfg, eff, nm>>
Next == MergeFile \/ MergeArgs \/ FileFormAndBack \/ ParseAddr
Spec == Init /\ [][Next]_vars

-----------------------------------------------------------------------------
(* invariants *)
SourcesOK == \A n \in Names : ArgOK(OptOf[n], args[n]) /\ FileOK(OptOf[n], file[n])
\* after the file: the file value where given, else the default (the property with an empty command line)
FileStageOK == stage = "file" => (EffectiveOK(file, None, cfg) /\ DefaultsSurvive(file, None, cfg))
ArgsStageOK == stage = "args" => (EffectiveOK(file, args, cfg) /\ DefaultsSurvive(file, args, cfg))
\* the operational overlay agrees with the per-option operator used for judging the code
OperatorOK == stage = "args" => \A n \in Names : LET o == OptOf[n] IN
                  cfg[n] = Effective(o.kind, o.default, file[n], args[n])
RoundTripStageOK == stage = "roundtrip" =>
                      /\ RoundTripOK(eff, cfg)
                      /\ \A n \in Names : cfg[n] = RoundTripValue(OptOf[n], eff[n])
                      /\ \A n \in Names : (~OptOf[n].infile => cfg[n] = OptOf[n].default)
\* prefix length -> netmask: exactly p leading one bits, for every p, and no other p fits the same mask
ASSUME TableOK
ASSUME MaskOK ==
  /\ \A p \in 0..32 : Netmask(p).res = "ok" /\ LeadingOnes(Netmask(p).mask, p)
  /\ \A p \in 0..32 : \A q \in 0..32 : Netmask(p).mask = Netmask(q).mask => p = q
  /\ \A p \in 33..40 : Netmask(p).res = "err"
NetCaseOK == stage \in {"netmask", "netdone"} =>
               LET dm == Demand(nm.s) IN
               /\ dm.d = nm.d
               /\ (nm.d \in {"ok", "okerr"} => (dm.p = nm.p /\ dm.p \in 0..32 /\ LeadingOnes(Netmask(dm.p).mask, dm.p)))
               /\ ((nm.d = "err" /\ nm.p > 0) => dm.p = nm.p)

\* export of the cases for the harness
Given(f) == [n \in {m \in Names : f[m] # <<>>} |-> f[n]]
Emit == /\ (stage = "defaults") => PrintT(<<"CASE", ToJson([file |-> Given(file), args |-> Given(args)])>>)
        /\ (stage = "netmask") => PrintT(<<"NET", ToJson([chars |-> nm.s, d |-> nm.d, p |-> nm.p])>>)
=============================================================================
