//! Mock-backed nodes (real GenericCloud with MockSocket / MockDevice / MockTimeSource) under a network that the
//! harness owns: every datagram gets an id when it leaves a mock socket and the fault plan decides its fate
//! (deliver, drop, duplicate, delay).  Every driver call runs under catch_unwind; after each call the socket and
//! interface queues of the node are drained.  One receive buffer per node is reused for all events, as in
//! GenericCloud::run.  Simulated time starts at T0 (see DESIGN.md Appendix A: clock origin).
use super::util::*;
use crate::cloud::{verif_events_start, verif_events_stop, verif_events_take, GenericCloud, VerifEvent, VerifInfo};
use crate::config::Config;
use crate::crypto::VERIF_SPEEDS;
use crate::device::MockDevice;
use crate::net::MockSocket;
use crate::payload::Protocol;
use crate::types::Mode;
use crate::util::{MockTimeSource, MsgBuffer, Time};
use rand::rngs::StdRng;
use rand::Rng;
use serde_json::{json, Value};
use std::collections::{HashMap, HashSet};
use std::net::SocketAddr;

pub const T0: Time = 10_000;
pub type Node<P> = GenericCloud<MockDevice, P, MockSocket, MockTimeSource>;

pub fn addr_of(port: u16) -> SocketAddr {
    format!("[::]:{}", port).parse().unwrap()
}

/// port number of a simulator address (0 for anything else)
pub fn port_of(a: &SocketAddr) -> u16 {
    a.port()
}

/// address as a small number for the event trace: the port for simulator addresses ([::]:port), otherwise a number
/// above 20000 derived from all its bytes (so that a foreign address is never mistaken for a simulator address)
pub fn tport(a: &SocketAddr) -> u32 {
    // (an IPv4 address and its IPv4-mapped IPv6 form are the same address to the node: it maps every address it dials)
    let a = &crate::net::mapped_addr(*a);
    if *a == addr_of(a.port()) {
        a.port() as u32
    } else {
        let s = format!("{}", a);
        20000 + (s.bytes().fold(7u32, |h, b| h.wrapping_mul(31).wrapping_add(b as u32)) % 40000)
    }
}

pub struct SimNode<P: Protocol> {
    pub addr: SocketAddr,
    pub node: Node<P>,
    pub buf: Box<MsgBuffer>,
    pub inc: u32,
    pub cfg: Config,
    pub nat: bool,
    pub panics: u64,
}

#[derive(Clone)]
pub struct Dgram {
    pub id: u64,
    pub t: Time,
    pub from: u16,
    pub to: SocketAddr,
    pub bytes: Vec<u8>,
    /// instance counter of the sending node and the kind of message as reported by the send hook (only when tracing)
    pub inc: u32,
    pub tag: &'static str,
}

pub struct InFlight {
    pub due: Time,
    pub seq: u64,
    pub src: SocketAddr, // claimed source
    pub to: u16,
    pub id: u64,
    pub bytes: Vec<u8>,
    /// origin of a genuine datagram (sending node, its instance, kind of message); (0, 0, "forged") for fabricated bytes
    pub orig: (u16, u32, &'static str),
    /// address the datagram was originally sent to (as a trace address; 0 = unknown / fabricated)
    pub odst: u32,
    /// wire id of the datagram this is (a copy of); 0 for fabricated bytes
    pub oid: u64,
}

pub struct Faults {
    pub p_drop: f64,
    pub p_dup: f64,
    pub p_delay: f64,
    pub max_delay: i64,
    pub silent: HashSet<u16>,         // nothing these nodes send is delivered
    pub cut: HashSet<(u16, u16)>,     // directed pairs whose datagrams are dropped
}

impl Faults {
    pub fn none() -> Self {
        Faults { p_drop: 0.0, p_dup: 0.0, p_delay: 0.0, max_delay: 0, silent: HashSet::new(), cut: HashSet::new() }
    }
    pub fn chaos(p_drop: f64, p_dup: f64, p_delay: f64, max_delay: i64) -> Self {
        Faults { p_drop, p_dup, p_delay, max_delay, silent: HashSet::new(), cut: HashSet::new() }
    }
    pub fn is_reliable(&self) -> bool {
        self.p_drop == 0.0 && self.p_dup == 0.0 && self.p_delay == 0.0 && self.silent.is_empty() && self.cut.is_empty()
    }
}

#[derive(Default)]
pub struct CallResult {
    pub panicked: bool,
    pub sent: Vec<Dgram>,
    pub iface: Vec<Vec<u8>>,
    pub evs: Vec<VerifEvent>,
}

pub struct Sim<P: Protocol> {
    pub now: Time,
    pub nodes: Vec<SimNode<P>>,
    pub queue: Vec<InFlight>,
    pub seq: u64,
    pub next_id: u64,
    pub wire: Vec<Dgram>,
    pub capture: bool,
    pub faults: Faults,
    pub rng: StdRng,
    pub budget: usize,
    pub storm_ticks: u64,
    pub delivered: Vec<(Time, u16, Vec<u8>)>, // frames written to interfaces (time, node port, bytes)
    pub node_ids: HashMap<[u8; 16], (u16, u32)>,
    pub dropped_by_net: u64,
    /// extra addresses that lead to a node (port forwarding, hair-pinning): address -> node port
    pub alias: HashMap<SocketAddr, u16>,
    /// address translation: datagrams of this node arrive with another source address
    pub seen_as: HashMap<u16, SocketAddr>,
    /// destination-dependent translation (hair-pinning): what node `from` sends to `dst` arrives with this source
    pub hairpin: HashMap<(u16, SocketAddr), SocketAddr>,
    /// event-by-event trace for Cloud.tla (None = off)
    pub trace: Option<Vec<String>>,
    pub flush_on_drop: bool,
    /// wire id of a payload datagram -> (source, destination) address of the frame it carries, dissected by the harness
    pub frames: HashMap<u64, (Vec<u8>, Vec<u8>, Vec<u8>)>,
    /// public key text -> label of a key (filled by the drivers that generate keys)
    pub max_trace: usize,
}

pub fn base_config(mode: Mode) -> Config {
    let mut c = Config::default();
    c.port_forwarding = false;
    c.mode = mode;
    c
}

impl<P: Protocol> Sim<P> {
    pub fn new(stream: u64) -> Self {
        MockTimeSource::set_time(T0);
        VERIF_SPEEDS.with(|s| *s.borrow_mut() = Some([600.0, 500.0, 400.0]));
        Sim {
            now: T0,
            nodes: vec![],
            queue: vec![],
            seq: 0,
            next_id: 0,
            wire: vec![],
            capture: true,
            faults: Faults::none(),
            rng: rng(stream),
            budget: 2000,
            storm_ticks: 0,
            delivered: vec![],
            node_ids: HashMap::new(),
            dropped_by_net: 0,
            alias: HashMap::new(),
            seen_as: HashMap::new(),
            hairpin: HashMap::new(),
            trace: None,
            flush_on_drop: false,
            frames: HashMap::new(),
            max_trace: 400_000,
        }
    }

    // ------------------------------------------------------------------------------------------ event trace (Cloud.tla)

    /// starts recording one event per driver call (state projection of the acting node after the call, classified
    /// result and emissions from the guarded event log of src/cloud.rs)
    pub fn trace_on(&mut self) {
        verif_events_start();
        self.trace = Some(vec![]);
        self.tev(json!({"op": "reset", "now": self.now}));
        for i in 0..self.nodes.len() {
            self.trace_boot(i);
        }
    }

    /// event tracing for a sample of the runs of a driver: run numbers divisible by `stride`; the block is handed to
    /// the process-wide collection when the simulation is dropped (see `write_cloud_blocks`)
    pub fn trace_sample(&mut self, run: u64, stride: u64, max_events: usize) {
        if stride > 0 && run % stride == 0 {
            self.max_trace = max_events;
            self.trace_on();
            self.flush_on_drop = true;
        }
    }

    /// the clock was set by the driver itself
    pub fn note_time(&mut self) {
        if self.trace.is_some() {
            self.tev(json!({"op": "time", "now": self.now}));
        }
    }

    pub fn trace_take(&mut self) -> Vec<String> {
        verif_events_stop();
        self.trace.take().unwrap_or_default()
    }

    fn tev(&mut self, v: Value) {
        let max = self.max_trace;
        if let Some(t) = self.trace.as_mut() {
            if t.len() < max {
                t.push(v.to_string());
            }
        }
    }

    fn tracing(&self) -> bool {
        self.trace.as_ref().map(|t| t.len() < self.max_trace).unwrap_or(false)
    }

    fn key_labels(cfg: &Config) -> (String, Vec<String>) {
        use crate::crypto::Crypto;
        let own = if let Some(pk) = &cfg.crypto.private_key {
            Crypto::public_key_from_private_key(pk).unwrap_or_else(|_| "?".into())
        } else {
            Crypto::generate_keypair(Some(cfg.crypto.password.as_deref().unwrap_or("test123"))).1
        };
        let trusted = if cfg.crypto.trusted_keys.is_empty() { vec![own.clone()] } else { cfg.crypto.trusted_keys.clone() };
        (own, trusted)
    }

    fn trace_boot(&mut self, i: usize) {
        if self.trace.is_none() {
            return;
        }
        let cfg = self.nodes[i].cfg.clone();
        let (own, trusted) = Self::key_labels(&cfg);
        let (learn, bc) = self.nodes[i].node.verif_flags();
        let plain = cfg.crypto.algorithms.iter().any(|a| a.eq_ignore_ascii_case("plain"));
        let adv: Vec<u32> = cfg.advertise_addresses.iter().filter_map(|a| a.parse::<SocketAddr>().ok()).map(|a| tport(&crate::net::mapped_addr(a))).collect();
        let post = self.post(i);
        self.tev(json!({"op":"boot","n":i + 1,"inc":self.nodes[i].inc,"T":cfg.peer_timeout,"st":cfg.switch_timeout,"ka":cfg.keepalive.map(|k| k as i64).unwrap_or(-1),"fresh":true,
                        "claims":cfg.claims,"learn":learn,"bc":bc,"mode":format!("{:?}", cfg.mode).to_lowercase(),"dev":if cfg.device_type == crate::device::Type::Tap { "tap" } else { "tun" },"key":own,"trusted":trusted,"plain":plain,"adv":adv,"nat":self.nodes[i].nat,"post":post}));
    }

    fn nid(&self, id: &[u8; 16]) -> Value {
        let (p, inc) = self.node_ids.get(id).copied().unwrap_or((0, 0));
        json!([p, inc])
    }

    fn info_json(&self, info: &VerifInfo) -> Value {
        let peers: Vec<Value> = info
            .peers
            .iter()
            .map(|(id, addrs)| json!({"nid": id.map(|i| self.nid(&i)).unwrap_or(json!([0, 0])), "hasid": id.is_some(), "addrs": addrs.iter().map(tport).collect::<Vec<_>>()}))
            .collect();
        json!({"nid": self.nid(&info.node_id), "claims": info.claims.iter().map(|r| format!("{}", r)).collect::<Vec<_>>(),
               "pt": info.peer_timeout.map(|v| v as i64).unwrap_or(-1), "addrs": info.addrs.iter().map(tport).collect::<Vec<_>>(), "peers": peers})
    }

    /// state projection of node i for the event trace (absolute times)
    pub fn post(&self, i: usize) -> Value {
        let n = &self.nodes[i].node;
        let objs = n.verif_init_objects();
        let paddrs = n.verif_peer_addrs();
        let mut peers: Vec<Value> = n
            .verif_peers()
            .iter()
            .map(|p| {
                let ct = objs.iter().find(|o| o.1 && o.0 == p.addr).map(|o| (o.2 as i64, o.4 as i64)).unwrap_or((0, -1));
                let addrs: Vec<u32> = paddrs.iter().find(|x| x.0 == p.addr).map(|x| x.1.iter().map(tport).collect()).unwrap_or_default();
                json!({"a": tport(&p.addr), "nid": self.nid(&p.node_id), "exp": p.timeout, "pt": p.peer_timeout, "init": p.has_init, "ist": ct.0, "ct": ct.1,
                       "plain": p.algorithm == "PLAIN", "addrs": addrs})
            })
            .collect();
        peers.sort_by_key(|v| v["a"].as_u64());
        let mut pend: Vec<Value> = objs.iter().filter(|o| !o.1).map(|o| json!({"a": tport(&o.0), "st": o.2, "r": o.3})).collect();
        pend.sort_by_key(|v| v["a"].as_u64());
        let mut claims: Vec<Value> = n
            .verif_table()
            .verif_claims()
            .iter()
            .map(|(peer, range, exp)| json!({"p": tport(peer), "r": format!("{}", range), "exp": exp, "rb": range.base.data[..(range.base.len as usize).min(16)].to_vec(), "rl": range.prefix_len}))
            .collect();
        claims.sort_by_key(|v| v.to_string());
        let mut cache: Vec<Value> =
            n.verif_table().verif_cache().iter().map(|(a, peer, exp)| json!({"a": a.data[..(a.len as usize).min(16)].to_vec(), "p": tport(peer), "exp": exp})).collect();
        cache.sort_by_key(|v| v.to_string());
        let mut cachep: Vec<u32> = n.verif_table().verif_cache().iter().map(|(_, peer, _)| tport(peer)).collect();
        cachep.sort();
        cachep.dedup();
        let mut own: Vec<u32> = n.verif_own_addresses().iter().map(tport).collect();
        own.sort();
        own.dedup();
        let (np, nr) = n.verif_timers();
        let rc: Vec<Value> = n.verif_reconnect().iter().map(|(a, tries, to, next)| json!({"a": a.iter().map(tport).collect::<Vec<_>>(), "tries": tries, "to": to, "next": next})).collect();
        json!({"peers": peers, "pend": pend, "claims": claims, "cachep": cachep, "cache": cache, "own": own, "np": np, "nr": nr, "rc": rc})
    }

    fn type_name(t: u8) -> &'static str {
        match t {
            0 => "data",
            1 => "nodeinfo",
            2 => "keepalive",
            0xff => "close",
            _ => "other",
        }
    }

    /// emissions reported by the send hooks, in order: typed+raw -> one datagram, raw alone -> handshake or rotation
    /// message, bcast -> one datagram
    fn send_tags(evs: &[VerifEvent]) -> Vec<&'static str> {
        let mut tags: Vec<&'static str> = vec![];
        let mut k = 0;
        while k < evs.len() {
            match evs[k].kind {
                "typed" => {
                    tags.push(Self::type_name(evs[k].msg_type));
                    if k + 1 < evs.len() && evs[k + 1].kind == "raw" {
                        k += 1;
                    }
                }
                "bcast" => tags.push(Self::type_name(evs[k].msg_type)),
                "raw" => tags.push("raw"),
                _ => {}
            }
            k += 1;
        }
        tags
    }

    /// classified result of one driver call from the hook's event log
    fn classify(&self, evs: &[VerifEvent], sent: &[Dgram], panicked: bool) -> (Vec<Value>, bool, String, i64, Option<Value>) {
        let tname = Self::type_name;
        let tagerr = sent.iter().any(|d| d.tag == "?");
        let out: Vec<Value> = sent.iter().map(|d| json!([tport(&d.to), d.tag])).collect();
        // result
        let mut res = "ignored".to_string();
        let mut mt = -1i64;
        let mut info = None;
        for e in evs {
            match e.kind {
                "msg" => {
                    mt = e.msg_type as i64;
                    res = tname(e.msg_type).to_string();
                    if res == "other" {
                        res = "unknown".into()
                    }
                }
                "initialized" | "initialized-reply" | "reply" | "none" => res = e.kind.to_string(),
                "info" => {}
                _ => {}
            }
            if let Some(i) = &e.info {
                info = Some(self.info_json(i));
            }
        }
        for e in evs {
            match e.kind {
                "err-fatal" => res = "fatal".into(),
                "err-init" => res = "errinit".into(),
                "err-other" => res = "err".into(),
                _ => {}
            }
        }
        if panicked {
            res = "panic".into();
        }
        (out, tagerr, res, mt, info)
    }

    /// classified result of a driver call (needs tracing switched on: the hook's event log is read per call)
    pub fn result_class(&self, res: &CallResult) -> String {
        self.classify(&res.evs, &res.sent, res.panicked).2
    }

    fn trace_call(&mut self, op: &str, i: usize, res: &CallResult, extra: Value) {
        if self.trace.is_none() {
            return;
        }
        if !self.tracing() {
            return;
        }
        let (sent, tagerr, r, mt, info) = self.classify(&res.evs, &res.sent, res.panicked);
        let mut v = json!({"op": op, "n": i + 1, "sent": sent, "tagerr": tagerr, "res": r, "mt": mt, "hasinfo": info.is_some(),
                           "info": info.unwrap_or(json!({"nid":[0,0],"claims":[],"pt":-1,"addrs":[],"peers":[]})),
                           "wrote": res.iface.len(), "post": self.post(i)});
        if let (Some(o), Some(e)) = (v.as_object_mut(), extra.as_object()) {
            for (k, x) in e {
                o.insert(k.clone(), x.clone());
            }
        }
        self.tev(v);
    }

    fn build(&mut self, port: u16, nat: bool, cfg: &Config) -> Node<P> {
        let mut config = cfg.clone();
        MockSocket::set_nat(nat);
        config.listen = format!("[::]:{}", port);
        if config.crypto.password.is_none() && config.crypto.private_key.is_none() {
            config.crypto.password = Some("test123".into());
        }
        let node = Node::<P>::new(&config, MockSocket::new(addr_of(port)), MockDevice::new(), None, None);
        MockSocket::set_nat(false);
        node
    }

    /// adds a node listening on port = index + 1
    pub fn add_node(&mut self, nat: bool, cfg: &Config) -> usize {
        let port = self.nodes.len() as u16 + 1;
        let node = self.build(port, nat, cfg);
        self.node_ids.insert(node.verif_node_id(), (port, 0));
        self.nodes.push(SimNode { addr: addr_of(port), node, buf: Box::new(MsgBuffer::new(100)), inc: 0, cfg: cfg.clone(), nat, panics: 0 });
        let i = self.nodes.len() - 1;
        self.trace_boot(i);
        i
    }

    /// replaces node i by a fresh instance on the same address (restart), optionally with another configuration
    pub fn restart(&mut self, i: usize, cfg: Option<&Config>) {
        let port = i as u16 + 1;
        let cfg = cfg.cloned().unwrap_or_else(|| self.nodes[i].cfg.clone());
        let nat = self.nodes[i].nat;
        let node = self.build(port, nat, &cfg);
        let inc = self.nodes[i].inc + 1;
        self.node_ids.insert(node.verif_node_id(), (port, inc));
        self.nodes[i].node = node;
        self.nodes[i].inc = inc;
        self.nodes[i].cfg = cfg;
        self.nodes[i].buf = Box::new(MsgBuffer::new(100));
        self.trace_boot(i);
    }

    /// the node (1-based, 0 = none) an address leads to: a node's own address or an alias (forwarded / translated address)
    pub fn node_at(&self, a: &SocketAddr) -> u32 {
        match self.idx_of(a) {
            Some(j) => j as u32 + 1,
            None => self.alias.get(a).map(|p| *p as u32).unwrap_or(0),
        }
    }

    pub fn idx_of(&self, a: &SocketAddr) -> Option<usize> {
        self.nodes.iter().position(|n| n.addr == *a)
    }

    /// drains the mock socket and device of node i; hands datagrams to the network
    fn drain(&mut self, i: usize, res: &mut CallResult) {
        let from = i as u16 + 1;
        let mut out = vec![];
        while let Some((dst, data)) = self.nodes[i].node.verif_socket().pop_outbound() {
            self.next_id += 1;
            out.push(Dgram { id: self.next_id, t: self.now, from, to: dst, bytes: data, inc: self.nodes[i].inc, tag: "" });
        }
        if self.trace.is_some() {
            res.evs = verif_events_take();
            let tags = Self::send_tags(&res.evs);
            if tags.len() == out.len() {
                for (d, t) in out.iter_mut().zip(tags) {
                    d.tag = if t == "raw" {
                        if d.bytes.is_empty() {
                            "empty"
                        } else if d.bytes.first() == Some(&0xff) {
                            "init"
                        } else {
                            "rot"
                        }
                    } else {
                        t
                    };
                }
            } else {
                for d in out.iter_mut() {
                    d.tag = "?";
                }
            }
        }
        for d in out {
            if self.capture {
                self.wire.push(d.clone());
            }
            self.route(&d);
            res.sent.push(d);
        }
        while let Some(frame) = self.nodes[i].node.verif_device().pop_outbound() {
            self.delivered.push((self.now, from, frame.clone()));
            res.iface.push(frame);
        }
    }

    /// the fault plan decides the fate of a datagram that left a socket
    fn route(&mut self, d: &Dgram) {
        let to = match self.idx_of(&d.to) {
            Some(j) => j as u16 + 1,
            None => match self.alias.get(&d.to) {
                Some(p) => *p,
                None => return, // nobody listens there
            },
        };
        // a node behind an address translation is reachable through the translated address only: what others send to its
        // private socket address goes nowhere (otherwise a peer that dials both addresses meets one handshake object with
        // two of its own, and the replies to both come back from the translated address)
        if self.seen_as.contains_key(&to) && d.to == addr_of(to) && d.from != to {
            self.dropped_by_net += 1;
            return;
        }
        let src = match self.hairpin.get(&(d.from, d.to)) {
            Some(a) => *a,
            None => self.seen_as.get(&d.from).copied().unwrap_or_else(|| addr_of(d.from)),
        };
        if self.faults.silent.contains(&d.from) || self.faults.cut.contains(&(d.from, to)) {
            self.dropped_by_net += 1;
            return;
        }
        if self.faults.p_drop > 0.0 && self.rng.gen::<f64>() < self.faults.p_drop {
            self.dropped_by_net += 1;
            return;
        }
        let copies = if self.faults.p_dup > 0.0 && self.rng.gen::<f64>() < self.faults.p_dup { 2 } else { 1 };
        for _ in 0..copies {
            let delay = if self.faults.p_delay > 0.0 && self.rng.gen::<f64>() < self.faults.p_delay {
                self.rng.gen_range(1..=self.faults.max_delay.max(1))
            } else {
                0
            };
            self.seq += 1;
            self.queue.push(InFlight { due: self.now + delay, seq: self.seq, src, to, id: d.id, bytes: d.bytes.clone(), orig: (d.from, d.inc, d.tag), odst: self.node_at(&d.to), oid: d.id });
        }
    }

    /// attacker / replay: a datagram with any claimed source, delivered at `due`
    pub fn inject_later(&mut self, to: usize, src: SocketAddr, bytes: Vec<u8>, due: Time) {
        self.seq += 1;
        // a verbatim copy of something a node really sent keeps its origin; anything else is fabricated
        let orig = if self.trace.is_some() {
            self.wire.iter().rev().find(|d| d.bytes == bytes).map(|d| (d.from, d.inc, d.tag, self.node_at(&d.to), d.id)).unwrap_or((0, 0, "forged", 0, 0))
        } else {
            (0, 0, "forged", 0, 0)
        };
        self.queue.push(InFlight { due, seq: self.seq, src, to: to as u16 + 1, id: 0, bytes, orig: (orig.0, orig.1, orig.2), odst: orig.3, oid: orig.4 });
    }

    /// a verbatim copy of a datagram a node really sent (duplicating network / replay), delivered at `due` with source `src`
    pub fn inject_copy(&mut self, to: usize, src: SocketAddr, d: &Dgram, due: Time) {
        self.seq += 1;
        self.queue.push(InFlight { due, seq: self.seq, src, to: to as u16 + 1, id: 0, bytes: d.bytes.clone(), orig: (d.from, d.inc, d.tag), odst: self.node_at(&d.to), oid: d.id });
    }

    /// immediate presentation of a datagram to node `to` (bypasses the queue); returns what the node did
    pub fn present(&mut self, to: usize, src: SocketAddr, bytes: &[u8]) -> CallResult {
        let orig = if self.trace.is_some() {
            self.wire.iter().rev().find(|d| d.bytes == bytes).map(|d| (d.from, d.inc, d.tag, self.node_at(&d.to), d.id)).unwrap_or((0, 0, "forged", 0, 0))
        } else {
            (0, 0, "forged", 0, 0)
        };
        self.present_from(to, src, bytes, (orig.0, orig.1, orig.2), 0, orig.3, orig.4)
    }

    pub fn present_from(&mut self, to: usize, src: SocketAddr, bytes: &[u8], orig: (u16, u32, &'static str), id: u64, odst: u32, oid: u64) -> CallResult {
        let mut res = CallResult::default();
        let n = &mut self.nodes[to];
        if !n.node.verif_socket().put_inbound(src, bytes.to_vec()) {
            return res; // filtered by the mock NAT
        }
        let (node, buf) = (&mut n.node, &mut n.buf);
        if guarded(|| node.verif_socket_event(buf)).is_err() {
            res.panicked = true;
            n.panics += 1;
        }
        self.drain(to, &mut res);
        if self.trace.is_some() {
            let first = bytes.first().map(|b| *b as i64).unwrap_or(-1);
            // the addresses of the frame inside a payload datagram, as the harness knows them from the interface read
            // that caused the datagram
            let (fk, fsrc, fdst, same) = match self.frames.get(&oid) {
                Some((a, b, f)) => (true, a.clone(), b.clone(), res.iface.len() == 1 && res.iface[0] == *f),
                None => (false, vec![], vec![], false),
            };
            self.trace_call("recv", to, &res, json!({"src": port_of(&src), "first": first, "len": bytes.len(), "id": id, "orig": [orig.0, orig.1], "tag": orig.2, "odst": odst,
                                                     "fk": fk, "fsrc": fsrc, "fdst": fdst, "same": same}));
        }
        res
    }

    /// like present, but with chosen bytes lying behind the datagram in the node's (reused) receive buffer
    pub fn present_with_residue(&mut self, to: usize, src: SocketAddr, bytes: &[u8], residue: &[u8]) -> CallResult {
        {
            let buf = &mut self.nodes[to].buf;
            buf.clear();
            buf.set_length(residue.len());
            buf.message_mut().copy_from_slice(residue);
            buf.clear();
        }
        self.present(to, src, bytes)
    }

    pub fn connect(&mut self, i: usize, to: SocketAddr) -> CallResult {
        let mut res = CallResult::default();
        let node = &mut self.nodes[i].node;
        if guarded(|| node.connect(to).ok()).is_err() {
            res.panicked = true;
            self.nodes[i].panics += 1;
        }
        self.drain(i, &mut res);
        self.trace_call("connect", i, &res, json!({"a": port_of(&to)}));
        res
    }

    pub fn add_reconnect(&mut self, i: usize, to: SocketAddr) {
        self.nodes[i].node.add_reconnect_peer(format!("{}", to));
        let res = CallResult::default();
        self.trace_call("addrc", i, &res, json!({"a": port_of(&to)}));
    }

    pub fn iface(&mut self, i: usize, frame: &[u8]) -> CallResult {
        let mut res = CallResult::default();
        let n = &mut self.nodes[i];
        n.node.verif_device().put_inbound(frame.to_vec());
        let (node, buf) = (&mut n.node, &mut n.buf);
        if guarded(|| node.verif_device_event(buf)).is_err() {
            res.panicked = true;
            n.panics += 1;
        }
        self.drain(i, &mut res);
        if self.trace.is_some() {
            let ip = std::any::type_name::<P>().contains("Packet");
            let parsed = own_dissect(ip, frame);
            if let Some((a, b)) = &parsed {
                for d in &res.sent {
                    if d.tag == "data" {
                        self.frames.insert(d.id, (a.clone(), b.clone(), frame.to_vec()));
                    }
                }
            }
            let (fk, fsrc, fdst) = match parsed {
                Some((a, b)) => (true, a, b),
                None => (false, vec![], vec![]),
            };
            self.trace_call("iface", i, &res, json!({"fk": fk, "fsrc": fsrc, "fdst": fdst}));
        }
        res
    }

    pub fn housekeep(&mut self, i: usize) -> CallResult {
        let mut res = CallResult::default();
        let node = &mut self.nodes[i].node;
        match guarded(|| node.verif_housekeep().is_ok()) {
            Ok(_) => {}
            Err(_) => {
                res.panicked = true;
                self.nodes[i].panics += 1;
            }
        }
        self.drain(i, &mut res);
        self.trace_call("hk", i, &res, json!({}));
        res
    }

    pub fn close(&mut self, i: usize) -> CallResult {
        let mut res = CallResult::default();
        let node = &mut self.nodes[i].node;
        if guarded(|| node.verif_send_close().ok()).is_err() {
            res.panicked = true;
        }
        self.drain(i, &mut res);
        self.trace_call("close", i, &res, json!({}));
        res
    }

    /// delivers everything that is due, until quiescent or the per-second budget is used up
    pub fn deliver_due(&mut self) -> Vec<(InFlightInfo, CallResult)> {
        let mut out = vec![];
        let mut count = 0usize;
        loop {
            let mut best: Option<usize> = None;
            for (k, m) in self.queue.iter().enumerate() {
                if m.due <= self.now && best.map(|b| (m.due, m.seq) < (self.queue[b].due, self.queue[b].seq)).unwrap_or(true) {
                    best = Some(k);
                }
            }
            let k = match best {
                Some(k) => k,
                None => break,
            };
            count += 1;
            if count > self.budget {
                self.storm_ticks += 1;
                for m in self.queue.iter_mut() {
                    if m.due <= self.now {
                        m.due = self.now + 1;
                    }
                }
                break;
            }
            let m = self.queue.swap_remove(k);
            let info = InFlightInfo { id: m.id, src: m.src, to: m.to, len: m.bytes.len(), first: m.bytes.first().copied(), head: if m.bytes.len() >= 8 { Some(m.bytes[..8].to_vec()) } else { None } };
            let res = self.present_from((m.to - 1) as usize, m.src, &m.bytes, m.orig, m.id, m.odst, m.oid);
            out.push((info, res));
        }
        out
    }

    /// one housekeeping round: advance the clock by one second, housekeep every node in address order, then deliver
    pub fn tick(&mut self) -> Vec<(InFlightInfo, CallResult)> {
        self.now += 1;
        MockTimeSource::set_time(self.now);
        if self.trace.is_some() {
            self.tev(json!({"op": "time", "now": self.now}));
        }
        for i in 0..self.nodes.len() {
            self.housekeep(i);
        }
        self.deliver_due()
    }

    pub fn run_for(&mut self, secs: i64) {
        for _ in 0..secs {
            self.tick();
        }
    }

    pub fn connected(&self, i: usize, j: usize) -> bool {
        let a = self.nodes[j].addr;
        self.nodes[i].node.verif_peers().iter().any(|p| p.addr == a)
    }

    pub fn full_mesh(&self) -> bool {
        let n = self.nodes.len();
        (0..n).all(|i| (0..n).all(|j| i == j || self.connected(i, j)))
    }

    pub fn total_panics(&self) -> u64 {
        self.nodes.iter().map(|n| n.panics).sum()
    }

    /// compact projection of node i: peers, pending handshakes, table, own addresses, next announcement
    pub fn dump(&self, i: usize) -> Value {
        let n = &self.nodes[i].node;
        let now = self.now;
        let mut peers: Vec<Value> = n
            .verif_peers()
            .iter()
            .map(|p| {
                let (nport, ninc) = self.node_ids.get(&p.node_id).copied().unwrap_or((0, 0));
                json!({"a": port_of(&p.addr), "n": nport, "inc": ninc, "init": p.has_init, "pt": p.peer_timeout, "exp": p.timeout - now, "alg": p.algorithm})
            })
            .collect();
        peers.sort_by_key(|v| v["a"].as_u64());
        let mut pending: Vec<(u16, u8)> = n.verif_pending_stages().iter().map(|(a, s, _)| (port_of(a), *s)).collect();
        pending.sort();
        let mut claims: Vec<Value> = n
            .verif_table()
            .verif_claims()
            .iter()
            .map(|(peer, range, exp)| json!({"p": port_of(peer), "r": format!("{}", range), "exp": exp - now}))
            .collect();
        claims.sort_by_key(|v| v.to_string());
        let mut cache: Vec<Value> = n
            .verif_table()
            .verif_cache()
            .iter()
            .map(|(addr, peer, exp)| json!({"a": format!("{}", addr), "p": port_of(peer), "exp": exp - now}))
            .collect();
        cache.sort_by_key(|v| v.to_string());
        let own: Vec<u16> = n.verif_own_addresses().iter().map(port_of).collect();
        json!({"node": i + 1, "inc": self.nodes[i].inc, "peers": peers, "pending": pending.iter().map(|(a, s)| json!([a, s])).collect::<Vec<_>>(),
               "claims": claims, "cache": cache, "own": own, "np": n.verif_next_peers() - now})
    }

    /// peers / pending sets only (cheap)
    pub fn shape(&self, i: usize) -> (Vec<u16>, Vec<u16>) {
        let n = &self.nodes[i].node;
        let mut p: Vec<u16> = n.verif_peers().iter().map(|p| port_of(&p.addr)).collect();
        p.sort();
        let mut q: Vec<u16> = n.verif_pending().iter().map(port_of).collect();
        q.sort();
        (p, q)
    }
}

pub struct InFlightInfo {
    pub id: u64,
    pub src: SocketAddr,
    pub to: u16,
    pub len: usize,
    pub first: Option<u8>,
    /// the first 8 bytes (envelope header of a sealed datagram)
    pub head: Option<Vec<u8>>,
}

// ---------------------------------------------------------------------------------------------- frames

/// Ethernet frame: dst MAC, src MAC, optional 802.1Q tag (tci), ethertype 0x0800, payload
pub fn eth_frame(dst: [u8; 6], src: [u8; 6], tci: Option<u16>, payload: &[u8]) -> Vec<u8> {
    let mut f = vec![];
    f.extend_from_slice(&dst);
    f.extend_from_slice(&src);
    if let Some(t) = tci {
        f.extend_from_slice(&[0x81, 0x00, (t >> 8) as u8, t as u8]);
    }
    f.extend_from_slice(&[0x08, 0x00]);
    f.extend_from_slice(payload);
    f
}

pub fn mac(k: u8) -> [u8; 6] {
    [0x02, 0, 0, 0, 0, k]
}

/// IPv4 packet with the given addresses and payload
pub fn ipv4_packet(src: [u8; 4], dst: [u8; 4], payload: &[u8]) -> Vec<u8> {
    let mut p = vec![0x45, 0, 0, 0, 0, 0, 0, 0, 64, 17, 0, 0];
    p.extend_from_slice(&src);
    p.extend_from_slice(&dst);
    p.extend_from_slice(payload);
    p
}

// ---------------------------------------------------------------------------------------------- sampled event traces

static CLOUD_BLOCKS: std::sync::Mutex<Vec<Vec<String>>> = std::sync::Mutex::new(Vec::new());

impl<P: Protocol> Drop for Sim<P> {
    fn drop(&mut self) {
        if self.flush_on_drop && self.trace.is_some() {
            let panics = self.total_panics();
            let mut t = self.trace_take();
            t.push(json!({"op": "end", "run": 0, "panics": panics}).to_string());
            if let Ok(mut b) = CLOUD_BLOCKS.lock() {
                b.push(t);
            }
        }
    }
}

/// writes the event traces collected from sampled runs (one block per run, each starting with a reset event)
pub fn write_cloud_blocks(path: &str) -> usize {
    use std::io::Write;
    let blocks: Vec<Vec<String>> = std::mem::take(&mut *CLOUD_BLOCKS.lock().unwrap());
    let mut f = std::io::BufWriter::new(std::fs::File::create(path).expect("create cloud trace"));
    let mut n = 0;
    for b in &blocks {
        for l in b {
            f.write_all(l.as_bytes()).unwrap();
            f.write_all(b"\n").unwrap();
            n += 1;
        }
    }
    f.flush().unwrap();
    n
}

/// IPv6 packet with the given addresses and payload
pub fn ipv6_packet(src: [u8; 16], dst: [u8; 16], payload: &[u8]) -> Vec<u8> {
    let mut p = vec![0x60, 0, 0, 0, 0, payload.len() as u8, 17, 64];
    p.extend_from_slice(&src);
    p.extend_from_slice(&dst);
    p.extend_from_slice(payload);
    p
}

/// the harness's own reading of a frame / packet (independent of src/payload.rs): source and destination address in the
/// form the routing table uses - MAC, prefixed by the 12-bit VLAN id of an 802.1Q tag unless that id is 0; IPv4 / IPv6
/// addresses at the standard header positions
pub fn own_dissect(ip: bool, b: &[u8]) -> Option<(Vec<u8>, Vec<u8>)> {
    if ip {
        match b.first().map(|v| v >> 4) {
            Some(4) if b.len() >= 20 => Some((b[12..16].to_vec(), b[16..20].to_vec())),
            Some(6) if b.len() >= 40 => Some((b[8..24].to_vec(), b[24..40].to_vec())),
            _ => None,
        }
    } else {
        if b.len() < 14 {
            return None;
        }
        let (dst, src) = (&b[0..6], &b[6..12]);
        if b[12] == 0x81 && b[13] == 0x00 {
            if b.len() < 16 {
                return None;
            }
            let vid = [b[14] & 0x0f, b[15]];
            if vid != [0, 0] {
                let mut s = vid.to_vec();
                s.extend_from_slice(src);
                let mut d = vid.to_vec();
                d.extend_from_slice(dst);
                return Some((s, d));
            }
        }
        Some((src.to_vec(), dst.to_vec()))
    }
}
