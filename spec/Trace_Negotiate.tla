--------------------------- MODULE Trace_Negotiate ---------------------------
(***************************************************************************)
(* Trace validation for C06.  Every event recorded from real handshakes    *)
(* is judged by the operators of Negotiate.tla:                            *)
(*                                                                         *)
(*  nego  one real handshake between an end advertising list a (flag ap)   *)
(*        and an end advertising list b (flag bp); x / y = what the end    *)
(*        advertising a / b ended up with (cipher wire id, 0 = unencrypted,*)
(*        99 = no completion).  Demanded: OutcomeOK(a, ap, b, bp, x, y)    *)
(*        (same at both ends, admissible for the two advertised SETS - on  *)
(*        ties every admissible cipher is allowed), clean failure iff      *)
(*        nothing is admissible, working probes when it succeeded, and -   *)
(*        "the outcome depends only on the two advertised sets and speeds" *)
(*        - the same outcome as every other event of the same group g      *)
(*        (same sets, other list orders / other initiator).                *)
(*  edit  a genuine ping / pong whose cipher list was edited in one field  *)
(*        in transit: never accepted.                                      *)
(*  end   closes a group (the trace may be cut into pieces here).          *)
(*                                                                         *)
(* An event the specification cannot explain is printed as <<"BAD", line>> *)
(* and counted; the run goes on so that one run reports every failing      *)
(* input class.                                                            *)
(***************************************************************************)
EXTENDS Negotiate, TLC, Json, IOUtils

Rec == ndJsonDeserialize(IOEnv.TRACE)
N == Len(Rec)

VARIABLES l,       \* index of the next event
          bad,     \* number of unexplained events so far
          grp      \* the group under way: its number, the two advertised sets and the outcome of its first event
tvars == <<l, bad, grp>>

AsSet(s) == {s[i] : i \in 1..Len(s)}
NoRepeat(s) == \A i, j \in 1..Len(s) : s[i][1] = s[j][1] => i = j

NoGroup == [g |-> 0, a |-> {}, ap |-> FALSE, b |-> {}, bp |-> FALSE, x |-> Fail]
GroupOf(e) == [g |-> e.g, a |-> AsSet(e.a), ap |-> e.ap, b |-> AsSet(e.b), bp |-> e.bp, x |-> e.x]

\* the observations of one handshake against the property
NegoOK(e) ==
  /\ NoRepeat(e.a) /\ NoRepeat(e.b)
  /\ e.res # "panic"
  /\ OutcomeOK(e.a, e.ap, e.b, e.bp, e.x, e.y)
  /\ e.res = (IF e.x = Fail THEN "fail" ELSE "ok")              \* completion at both ends or at neither
  /\ e.probe = (IF e.x = Fail THEN "na" ELSE "ok")              \* a datagram sealed by each end opens at the other
  /\ (e.x = Plain) = (e.ap /\ e.bp)                             \* no downgrade (implied by OutcomeOK; stated for the reader)
  /\ UnsealedProbesOK(e.x, e.plain_early, e.plain_after[1])     \* unsealed messages: never before completion, afterwards
  /\ UnsealedProbesOK(e.y, 0, e.plain_after[2])                 \* exactly on a session that agreed on Plain

\* same sets as the group under way => same outcome (list order and initiator do not matter)
SameAsGroup(e) ==
  e.g = grp.g => /\ AsSet(e.a) = grp.a /\ e.ap = grp.ap /\ AsSet(e.b) = grp.b /\ e.bp = grp.bp
                 /\ e.x = grp.x

Judge(e) ==
  CASE e.op = "nego" -> NegoOK(e) /\ SameAsGroup(e)
    [] e.op = "edit" -> e.accepted = FALSE /\ e.res \in {"err", "fatal"} /\ ~e.sent /\ ~e.done
    \* a genuine ping of a later version that also advertises ciphers unknown here (signed with its trusted key): the
    \* unknown entries are skipped - the outcome is the one of the known entries, and nothing of the responder's
    \* handshake payload travels unsealed unless both ends enabled plain
    [] e.op = "future" -> /\ e.res = "ok"
                          /\ OutcomeOK(e.a, e.ap, e.b, e.bp, e.x, e.y)
                          /\ (e.clear => (e.ap /\ e.bp))
    [] e.op = "end" -> e.g = grp.g
    [] OTHER -> FALSE

Step(e) ==
  CASE e.op = "nego" -> grp' = IF e.g = grp.g THEN grp ELSE GroupOf(e)
    [] e.op = "edit" -> UNCHANGED grp
    [] e.op = "future" -> UNCHANGED grp
    [] e.op = "end" -> grp' = NoGroup
    [] OTHER -> FALSE

TraceInit == l = 1 /\ bad = 0 /\ grp = NoGroup /\ TLCSet(1, 0) /\ TLCSet(2, 0)
TraceNext == /\ l <= N /\ l' = l + 1
             /\ Step(Rec[l])
             /\ IF Judge(Rec[l]) THEN bad' = bad
                ELSE /\ bad' = bad + 1 /\ PrintT(<<"BAD", l>>)
                     /\ TLCSet(1, bad') /\ (IF bad = 0 THEN TLCSet(2, l) ELSE TRUE)
TraceSpec == TraceInit /\ [][TraceNext]_tvars

Accepted == IF TLCGet(1) = 0 /\ TLCGet("stats").diameter - 1 = N THEN TRUE
            ELSE LET first == IF TLCGet(1) = 0 THEN TLCGet("stats").diameter ELSE TLCGet(2)
                 IN Print(<<"REJECTED", first, Rec[first], "BADCOUNT", TLCGet(1)>>, FALSE)
=============================================================================
