//! C02 (object level): the authenticated-encryption envelope on real CryptoCore pairs and on real PeerCrypto<NodeInfo>
//! connections after real handshakes.
//!
//! `envelope run <quick|thorough> <trace.ndjson>`
//!
//! Events (the facts `conn` = connection the datagram was sealed for, `from` = sealing end, `on`/`at` = connection and
//! end it is presented to, `alt` = what happened to it in transit, are judged by Envelope.tla's rule):
//!   roundtrip  one payload sealed and presented intact to its rightful receiver: `same` = opened and byte-identical
//!   family     a family of presentations that must not open: every bit of one field flipped (`class` bitflip, `field`
//!              keyid|ctr|ct|tag), every shorter length (truncate), the sender itself (reflect), every end of every
//!              other connection of a 3-node mesh (cross): `members`, how many `opened`, how many `panics`, the first
//!              offending members in `bad`
//!   cleartext  every 8-byte window of a payload / an encoded NodeInfo searched in the datagram that carries it
use super::conn::*;
use super::hs::{ctx_with, fresh_keypair, KeyCfg};
use super::util::*;
use crate::crypto::verif_export::*;
use crate::crypto::{Crypto, MessageResult, PeerCrypto};
use crate::messages::{NodeInfo, PeerInfo};
use crate::types::{Address, Range};
use crate::util::MsgBuffer;
use rand::Rng;
use serde_json::{json, Value};
use std::collections::HashSet;

const HEADER: usize = 8; // key id + 7 counter bytes
const TAG: usize = 16;

fn field_of(bit: usize, total: usize) -> &'static str {
    let byte = bit / 8;
    if byte == 0 {
        "keyid"
    } else if byte < HEADER {
        "ctr"
    } else if byte < total - TAG {
        "ct"
    } else {
        "tag"
    }
}

struct Counters {
    cases: u64,
    members: u64,
}

struct Fam {
    members: u64,
    opened: u64,
    panics: u64,
    bad: Vec<Value>,
}

impl Fam {
    fn new() -> Self {
        Fam { members: 0, opened: 0, panics: 0, bad: vec![] }
    }
    fn add(&mut self, res: &Opened, desc: Value) {
        self.members += 1;
        match res {
            Opened::Panic(m) => {
                self.panics += 1;
                if self.bad.len() < 40 {
                    let mut d = desc;
                    d["res"] = json!("panic");
                    d["msg"] = json!(m.chars().take(120).collect::<String>());
                    self.bad.push(d);
                }
            }
            Opened::Yes(p) => {
                self.opened += 1;
                if self.bad.len() < 40 {
                    let mut d = desc;
                    d["res"] = json!("opened");
                    d["delivered_len"] = json!(p.len());
                    self.bad.push(d);
                }
            }
            Opened::No => {}
        }
    }
    #[allow(clippy::too_many_arguments)]
    fn event(self, level: &str, class: &str, field: &str, cipher: &str, len: usize, who: &Who, alt: &str, c: &mut Counters) -> Value {
        c.cases += 1;
        c.members += self.members;
        json!({"op":"family","level":level,"class":class,"field":field,"cipher":cipher,"len":len,"plain":false,
               "conn":who.conn,"from":who.from,"on":who.on,"at":who.at,"alt":alt,
               "members":self.members,"opened":self.opened,"panics":self.panics,"bad":self.bad})
    }
}

/// who sealed for which connection, and where the datagram is presented
struct Who {
    conn: [u8; 2],
    from: u8,
    on: [u8; 2],
    at: u8,
}

const CORE_OK: Who = Who { conn: [1, 2], from: 1, on: [1, 2], at: 2 };
const CORE_REFLECT: Who = Who { conn: [1, 2], from: 1, on: [1, 2], at: 1 };

enum Opened {
    Yes(Vec<u8>),
    No,
    Panic(String),
}

// ------------------------------------------------------------------------------------------- CryptoCore level

fn core_seal(s: &mut CryptoCore, payload: &[u8], space: usize) -> Vec<u8> {
    let mut b = MsgBuffer::new(space);
    b.clone_from(payload);
    s.encrypt(&mut b);
    b.message().to_vec()
}

fn core_open(r: &mut CryptoCore, dgram: &[u8], space: usize) -> Opened {
    let mut b = MsgBuffer::new(space);
    b.clone_from(dgram);
    match guarded(|| r.decrypt(&mut b)) {
        Ok(Ok(())) => Opened::Yes(b.message().to_vec()),
        Ok(Err(_)) => Opened::No,
        Err(p) => Opened::Panic(p),
    }
}

fn payload_of(rng: &mut impl Rng, len: usize) -> Vec<u8> {
    let mut p = vec![0u8; len];
    rng.fill(&mut p[..]);
    p
}

fn sampled_lengths(tier: &str, rng: &mut impl Rng) -> Vec<usize> {
    let mut v: Vec<usize> = (0..=300).collect();
    if tier == "thorough" {
        v.extend(301..=9000);
    } else {
        v.extend([301, 511, 512, 513, 1023, 1024, 1399, 1400, 1401, 1472, 1499, 1500, 1501, 2047, 2048, 4095, 4096, 4097, 8191, 8192, 8999, 9000]);
        for _ in 0..18 {
            v.push(rng.gen_range(302..9000));
        }
    }
    v.sort();
    v.dedup();
    v
}

fn cleartext_event(level: &str, what: &str, cipher: &str, plain: bool, clear: &[u8], dgram: &[u8], c: &mut Counters) -> Value {
    let mut windows: HashSet<&[u8]> = HashSet::new();
    for w in dgram.windows(8) {
        windows.insert(w);
    }
    let mut found = false;
    let mut first = -1i64;
    let n = if clear.len() >= 8 { clear.len() - 7 } else { 0 };
    for (i, w) in clear.windows(8).enumerate() {
        if windows.contains(w) {
            found = true;
            first = i as i64;
            break;
        }
    }
    c.cases += 1;
    c.members += n as u64;
    json!({"op":"cleartext","level":level,"what":what,"cipher":cipher,"plain":plain,"len":clear.len(),"windows":n,"found":found,"first":first})
}

fn core_level(tier: &str, t: &mut Trace, c: &mut Counters) {
    let mut rng = rng(71);
    let lens = sampled_lengths(tier, &mut rng);
    let spaces = [8usize, 9, 16, 100, 1000, 56000];
    for (ai, algo) in ALGOS.iter().enumerate() {
        let cipher = ALGO_NAMES[ai];
        let (mut s, mut r) = create_dummy_pair(algo);
        // (a) round trip: every length, buffer start offsets at both ends
        for &len in &lens {
            let offs: Vec<(usize, usize)> = if len <= 64 || len % 97 == 0 || len >= 8999 {
                spaces.iter().flat_map(|a| [(*a, 8usize), (*a, 100)]).chain([(8, 56000)]).collect()
            } else {
                vec![(spaces[len % spaces.len()], spaces[(len / 7) % spaces.len()])]
            };
            for (so, ro) in offs {
                let p = payload_of(&mut rng, len);
                let sealed = guarded(|| core_seal(&mut s, &p, so));
                let (same, res, dlen) = match sealed {
                    Err(_) => (false, "panic", 0),
                    Ok(d) => match core_open(&mut r, &d, ro) {
                        Opened::Yes(q) => (q == p, "ok", d.len()),
                        Opened::No => (false, "err", d.len()),
                        Opened::Panic(_) => (false, "panic", d.len()),
                    },
                };
                c.cases += 1;
                c.members += 1;
                t.ev(json!({"op":"roundtrip","level":"core","cipher":cipher,"type":-1,"len":len,"offset":so,"roffset":ro,"plain":false,
                            "conn":CORE_OK.conn,"from":CORE_OK.from,"on":CORE_OK.on,"at":CORE_OK.at,"alt":"none",
                            "dlen":dlen,"same":same,"res":res}));
            }
        }
        // (c) cleartext search on the sealed datagram
        for &len in lens.iter().filter(|l| **l >= 8 && (**l <= 64 || **l % 50 == 0 || **l > 8990)) {
            let p = payload_of(&mut rng, len);
            let d = core_seal(&mut s, &p, 8);
            t.ev(cleartext_event("core", "payload", cipher, false, &p, &d, c));
        }
        // (b) tamper families: EVERY bit, EVERY truncation length, reflection
        let fam_lens: Vec<usize> = if tier == "thorough" { vec![0, 1, 2, 7, 8, 15, 16, 17, 31, 64, 100, 255, 1400, 9000] } else { vec![0, 1, 2, 15, 16, 17, 61, 300, 1400] };
        for len in fam_lens {
            let p = payload_of(&mut rng, len);
            let d = core_seal(&mut s, &p, 8);
            let total = d.len();
            let mut fams: Vec<(&str, Fam)> = vec![("keyid", Fam::new()), ("ctr", Fam::new()), ("ct", Fam::new()), ("tag", Fam::new())];
            for bit in 0..total * 8 {
                let mut e = d.clone();
                e[bit / 8] ^= 1 << (bit % 8);
                let res = core_open(&mut r, &e, 8 + bit % 3);
                let f = field_of(bit, total);
                let fam = &mut fams.iter_mut().find(|x| x.0 == f).unwrap().1;
                fam.add(&res, json!({"bit": bit % 8, "byte": bit / 8}));
            }
            for (f, fam) in fams {
                if fam.members > 0 {
                    t.ev(fam.event("core", "bitflip", f, cipher, len, &CORE_OK, f, c));
                }
            }
            let mut fam = Fam::new();
            for cut in 0..total {
                let res = core_open(&mut r, &d[..cut], 8);
                fam.add(&res, json!({"cut": cut}));
            }
            t.ev(fam.event("core", "truncate", "length", cipher, len, &CORE_OK, "trunc", c));
            let mut fam = Fam::new();
            let res = core_open(&mut s, &d, 8);
            fam.add(&res, json!({"at": "sender"}));
            // and the datagrams of the other direction at their own sender
            let back = core_seal(&mut r, &p, 8);
            let res = core_open(&mut r, &back, 8);
            fam.add(&res, json!({"at": "sender-2"}));
            t.ev(fam.event("core", "reflect", "none", cipher, len, &CORE_REFLECT, "none", c));
            // control: after all of this the genuine datagrams still open, byte-identical
            for (dg, rec, who) in [(&d, &mut r, 2u8), (&back, &mut s, 1u8)] {
                let (same, res) = match core_open(rec, dg, 8) {
                    Opened::Yes(q) => (q == p, "ok"),
                    Opened::No => (false, "err"),
                    Opened::Panic(_) => (false, "panic"),
                };
                c.cases += 1;
                c.members += 1;
                t.ev(json!({"op":"roundtrip","level":"core","cipher":cipher,"type":-1,"len":len,"offset":8,"roffset":8,"plain":false,
                            "conn":[1,2],"from":3 - who,"on":[1,2],"at":who,"alt":"none","dlen":dg.len(),"same":same,"res":res}));
            }
        }
    }
}


// ------------------------------------------------------------------------------------------- keys nobody else holds

fn hexfp(fp: [u8; 16]) -> String {
    hex(&fp)
}

/// fingerprints of the four key slots of one end (Envelope!KeyAt: a slot holds the session key both ends share, or a
/// private dummy nobody else holds - not the other end, not another connection, not another slot)
fn slot_entry(core: &CryptoCore, conn: [u8; 2], end: u8) -> Value {
    let fps: Vec<String> = (0..4).map(|k| hexfp(core.verif_slot_fingerprint(k))).collect();
    json!({"conn": conn, "end": end, "fps": fps})
}

/// a datagram sealed by an outsider: chosen key id, counter and nonce half, under a key he can know without having seen
/// any secret (constant patterns) - Envelope.tla: its key is never the key a slot holds, so it opens nowhere
fn forge(algo: &'static ring::aead::Algorithm, key_byte: u8, keyid: u8, half: u8, ctr: [u8; 7], payload: &[u8]) -> Vec<u8> {
    let key = new_key(algo, &[key_byte; 32]);
    let mut nonce = [0u8; 12];
    nonce[0] = half;
    nonce[5..].copy_from_slice(&ctr);
    let mut data = payload.to_vec();
    let tag = key.seal_in_place_separate_tag(ring::aead::Nonce::assume_unique_for_key(nonce), ring::aead::Aad::empty(), &mut data).unwrap();
    let mut d = vec![keyid];
    d.extend_from_slice(&ctr);
    d.extend_from_slice(&data);
    d.extend_from_slice(tag.as_ref());
    d
}

fn forged_members(algo: &'static ring::aead::Algorithm, payload: &[u8]) -> Vec<(Value, Vec<u8>)> {
    let mut v = vec![];
    for key_byte in [0x00u8, 0xff, 0x01, 0x55] {
        for keyid in 0..4u8 {
            for half in [0x00u8, 0x80] {
                for ctr in [[0u8; 7], [0, 0, 0, 0, 0, 0, 1], [0xff; 7], [0x7f, 1, 2, 3, 4, 5, 6]] {
                    v.push((json!({"key_byte": key_byte, "keyid": keyid, "half": half, "ctr": hex(&ctr)}), forge(algo, key_byte, keyid, half, ctr, payload)));
                }
            }
        }
    }
    v
}

/// C02 at core level, the parts that need more than one step: slot contents, outsider-sealed datagrams, and that a
/// rejected datagram has no lasting effect (after it, and after any number of housekeeping ticks, the genuine sender's
/// next datagrams are delivered byte-identical)
fn core_history(tier: &str, t: &mut Trace, c: &mut Counters) {
    let mut rng = rng(75);
    for (ai, algo) in ALGOS.iter().enumerate() {
        let cipher = ALGO_NAMES[ai];
        let (mut s, mut r) = create_dummy_pair(algo);
        let (s2, r2) = create_dummy_pair(algo);
        c.cases += 1;
        t.ev(json!({"op":"slots","level":"core","cipher":cipher,
                    "entries":[slot_entry(&s, [1, 2], 1), slot_entry(&r, [1, 2], 2), slot_entry(&s2, [1, 3], 1), slot_entry(&r2, [1, 3], 3)]}));
        let p = payload_of(&mut rng, 48);
        let mut fam = Fam::new();
        for (desc, d) in forged_members(algo, &p) {
            for rec in [&mut s, &mut r] {
                let res = core_open(rec, &d, 8);
                fam.add(&res, desc.clone());
            }
        }
        let mut e = fam.event("core", "forged", "key", cipher, 48, &CORE_OK, "none", c);
        e["from"] = json!(0);
        t.ev(e);
        // rejected datagrams of every tamper class, then k ticks, then fresh genuine datagrams in both directions
        let rounds = if tier == "thorough" { 12 } else { 5 };
        for round in 0..rounds {
            let len = [0usize, 1, 16, 64, 300, 1400][round % 6];
            let p = payload_of(&mut rng, len);
            let d = core_seal(&mut s, &p, 8);
            let back = core_seal(&mut r, &p, 8);
            let mut fams: Vec<(&str, Fam)> = vec![("keyid", Fam::new()), ("ctr", Fam::new()), ("ct", Fam::new()), ("tag", Fam::new())];
            for (dg, rec) in [(&d, &mut r), (&back, &mut s)] {
                let total = dg.len();
                for bit in 0..total * 8 {
                    if bit / 8 >= HEADER && bit % 5 != round % 5 {
                        continue; // every header bit, a fifth of the rest
                    }
                    let mut e = dg.clone();
                    e[bit / 8] ^= 1 << (bit % 8);
                    let res = core_open(rec, &e, 8);
                    let f = field_of(bit, total);
                    fams.iter_mut().find(|x| x.0 == f).unwrap().1.add(&res, json!({"bit": bit % 8, "byte": bit / 8}));
                }
            }
            for (f, fam) in fams {
                if fam.members > 0 {
                    t.ev(fam.event("core", "bitflip", f, cipher, len, &CORE_OK, f, c));
                }
            }
            // the originals are delivered, then time passes, then new traffic
            for (dg, rec, who) in [(&d, &mut r, 2u8), (&back, &mut s, 1u8)] {
                let (same, res) = match core_open(rec, dg, 8) {
                    Opened::Yes(q) => (q == p, "ok"),
                    Opened::No => (false, "err"),
                    Opened::Panic(_) => (false, "panic"),
                };
                c.cases += 1;
                c.members += 1;
                t.ev(json!({"op":"roundtrip","level":"core-after-tamper","cipher":cipher,"type":-1,"len":len,"offset":8,"roffset":8,"plain":false,
                            "conn":[1,2],"from":3 - who,"on":[1,2],"at":who,"alt":"none","dlen":dg.len(),"same":same,"res":res,"ticks":0}));
            }
            for tick in 1..=4u64 {
                s.every_second();
                r.every_second();
                let q = payload_of(&mut rng, len);
                let d2 = core_seal(&mut s, &q, 8);
                let b2 = core_seal(&mut r, &q, 8);
                for (dg, rec, who) in [(&d2, &mut r, 2u8), (&b2, &mut s, 1u8)] {
                    let (same, res) = match core_open(rec, dg, 8) {
                        Opened::Yes(x) => (x == q, "ok"),
                        Opened::No => (false, "err"),
                        Opened::Panic(_) => (false, "panic"),
                    };
                    c.cases += 1;
                    c.members += 1;
                    t.ev(json!({"op":"roundtrip","level":"core-after-tamper","cipher":cipher,"type":-1,"len":len,"offset":8,"roffset":8,"plain":false,
                                "conn":[1,2],"from":3 - who,"on":[1,2],"at":who,"alt":"none","dlen":dg.len(),"same":same,"res":res,"ticks":tick}));
                }
            }
        }
    }
}

// ------------------------------------------------------------------------------------------- PeerCrypto level

fn peer_seal(from: &mut PeerCrypto<NodeInfo>, ty: u8, payload: &[u8], space: usize) -> Result<Vec<u8>, String> {
    let mut buf = MsgBuffer::new(space);
    buf.clone_from(payload);
    match guarded(|| from.send_message(ty, &mut buf)) {
        Ok(Ok(())) => Ok(buf.message().to_vec()),
        Ok(Err(e)) => Err(format!("{}", e)),
        Err(p) => Err(p),
    }
}

/// Some((type, bytes)) when the datagram is accepted as a message for the node
fn peer_open(to: &mut PeerCrypto<NodeInfo>, dgram: &[u8], space: usize) -> (Opened, i64) {
    let mut buf = MsgBuffer::new(space);
    buf.clone_from(dgram);
    match guarded(|| to.handle_message(&mut buf)) {
        Ok(Ok(MessageResult::Message(ty))) => (Opened::Yes(buf.message().to_vec()), ty as i64),
        Ok(Ok(_)) => (Opened::Yes(vec![]), -2), // accepted as something else (rotation / handshake traffic)
        Ok(Err(_)) => (Opened::No, -1),
        Err(p) => (Opened::Panic(p), -1),
    }
}

fn big_node_info(rng: &mut impl Rng) -> NodeInfo {
    let mut node_id = [0u8; 16];
    rng.fill(&mut node_id);
    let mut peers = smallvec::smallvec![];
    for i in 0..5u8 {
        let mut id = [0u8; 16];
        rng.fill(&mut id);
        let a4: std::net::SocketAddr = format!("{}.{}.{}.{}:{}", rng.gen_range(1..224), rng.gen::<u8>(), rng.gen::<u8>(), rng.gen::<u8>(), 3210 + i as u16).parse().unwrap();
        let a6: std::net::SocketAddr = format!("[2001:db8:{:x}:{:x}::{:x}]:{}", rng.gen::<u16>(), rng.gen::<u16>(), rng.gen::<u16>(), 4000 + i as u16).parse().unwrap();
        peers.push(PeerInfo { node_id: Some(id), addrs: smallvec::smallvec![a4, a6] });
    }
    let mut claims = smallvec::smallvec![];
    for _ in 0..4 {
        let mut data = [0u8; 16];
        rng.fill(&mut data[..4]);
        claims.push(Range { base: Address { data, len: 4 }, prefix_len: 24 });
        let mut mac = [0u8; 16];
        rng.fill(&mut mac[..6]);
        claims.push(Range { base: Address { data: mac, len: 6 }, prefix_len: 48 });
    }
    NodeInfo { node_id, peers, claims, peer_timeout: Some(rng.gen()), addrs: smallvec::smallvec!["192.0.2.77:3210".parse().unwrap()] }
}

fn encoded(info: &NodeInfo) -> Vec<u8> {
    let mut b = MsgBuffer::new(100);
    info.encode(&mut b);
    b.message().to_vec()
}

struct Session {
    name: String,
    a: Vec<(u64, u64)>,
    ap: bool,
    b: Vec<(u64, u64)>,
    bp: bool,
    init: &'static str,
}

/// every negotiated combination: each cipher forced by the lists (one side, other side, both, by speed), a side that
/// also allows plain, and plain on both sides
fn sessions() -> Vec<Session> {
    let all = |fast: u64| -> Vec<(u64, u64)> { (1..=3u64).map(|c| (c, if c == fast { 2 } else { 1 })).collect() };
    let mut v = vec![];
    for c in 1..=3u64 {
        v.push(Session { name: format!("only{}-only{}", c, c), a: vec![(c, 2)], ap: false, b: vec![(c, 1)], bp: false, init: "A" });
        v.push(Session { name: format!("all-only{}", c), a: all(0), ap: false, b: vec![(c, 2)], bp: false, init: "B" });
        v.push(Session { name: format!("only{}-all", c), a: vec![(c, 9)], ap: false, b: all(0), bp: false, init: "A" });
        v.push(Session { name: format!("all-all-fast{}", c), a: all(c), ap: false, b: all(c), bp: false, init: "B" });
        v.push(Session { name: format!("plain+{}-only{}", c, c), a: vec![(c, 2)], ap: true, b: vec![(c, 2)], bp: false, init: "A" });
    }
    v.push(Session { name: "plain-plain".into(), a: vec![], ap: true, b: vec![], bp: true, init: "A" });
    v.push(Session { name: "plain+all-plain+all".into(), a: all(1), ap: true, b: all(2), bp: true, init: "B" });
    v
}

fn connect(ca: &Crypto, cb: &Crypto, ia: u8, ib: u8, init_first: bool) -> Option<(PeerCrypto<NodeInfo>, PeerCrypto<NodeInfo>)> {
    // `first` initiates towards `second`; the sealed rotation datagram of the responder is delivered too
    let mut x = ca.peer_instance(node_info(ia));
    let mut y = cb.peer_instance(node_info(ib));
    {
        let (i, r) = if init_first { (&mut x, &mut y) } else { (&mut y, &mut x) };
        let mut m = MsgBuffer::new(100);
        i.initialize(&mut m).ok()?;
        let ping = m.message().to_vec();
        let pong = feed(r, &ping);
        pong.res.as_ref().ok()?;
        let peng = feed(i, &pong.out);
        peng.res.as_ref().ok()?;
        let last = feed(r, &peng.out);
        last.res.as_ref().ok()?;
        if !last.out.is_empty() {
            feed(i, &last.out).res.ok()?;
        }
    }
    if x.is_ready() == y.is_ready() && x.algorithm_name() == y.algorithm_name() {
        Some((x, y))
    } else {
        None
    }
}

/// "cleartext never appears on the wire unless both ends enabled plain", for the node information the handshake
/// carries: every pair of configurations in which at most one end enables plain (with common ciphers, with disjoint
/// cipher lists, plain-only against ciphers), either end initiating; whatever the handshake does (complete or fail),
/// every datagram either end emits - also the repetitions of the next seconds - is searched for the encoded node
/// information of both ends.
fn handshake_cleartext(t: &mut Trace, c: &mut Counters) {
    let mut rng = rng(76);
    let (pr, pb) = fresh_keypair();
    let key = KeyCfg::Pair(pr.clone(), pb);
    let signer = {
        let mut raw = crate::util::from_base62(&pr).unwrap_or_default();
        while raw.len() < 32 {
            raw.insert(0, 0);
        }
        ring::signature::Ed25519KeyPair::from_seed_unchecked(&raw).ok()
    };
    let lists: Vec<Vec<(u64, u64)>> = vec![vec![], vec![(1, 2)], vec![(2, 2)], vec![(3, 2)], vec![(1, 1), (2, 2)], vec![(1, 2), (2, 1), (3, 3)]];
    for la in &lists {
        for lb in &lists {
            for (ap, bp) in [(true, false), (false, true), (false, false), (true, true)] {
                if la.is_empty() && !ap || lb.is_empty() && !bp {
                    continue; // a node without ciphers and without plain cannot be configured
                }
                for (init_a, future) in [(true, false), (false, false), (true, true), (false, true)] {
                    // future: the initiator is a later version whose (correctly signed) ping also advertises ciphers unknown here
                    if future && (la.is_empty() || lb.is_empty()) {
                        continue;
                    }
                    let ca = ctx_with(1, &key, &[], la, ap);
                    let cb = ctx_with(2, &key, &[], lb, bp);
                    let (ia, ib) = (big_node_info(&mut rng), big_node_info(&mut rng));
                    let (ea, eb) = (encoded(&ia), encoded(&ib));
                    let mut x = ca.peer_instance(ia);
                    let mut y = cb.peer_instance(ib);
                    let mut wire: Vec<Vec<u8>> = vec![];
                    let mut m = MsgBuffer::new(100);
                    let mut queue: std::collections::VecDeque<(bool, Vec<u8>)> = Default::default(); // (to x?, bytes)
                    let r = if init_a { x.initialize(&mut m) } else { y.initialize(&mut m) };
                    if r.is_ok() {
                        let mut ping = m.message().to_vec();
                        if future {
                            if let (Some((off, mut es)), Some(kp)) = (super::negotiate::algo_part(&ping), signer.as_ref()) {
                                let n = es.len();
                                es.insert(0, super::negotiate::entry(9, 777.0));
                                es.push(super::negotiate::entry(200, 1.0));
                                let mut d = super::negotiate::rebuild(&ping, off, n, &es);
                                let l = d.len();
                                if l > 70 && d[l - 65] == 64 {
                                    let sig = kp.sign(&d[1..l - 65]);
                                    d[l - 64..].copy_from_slice(sig.as_ref());
                                    ping = d;
                                }
                            }
                        }
                        queue.push_back((!init_a, ping));
                    }
                    let mut steps = 0;
                    let mut secs = 0;
                    loop {
                        while let Some((to_x, bytes)) = queue.pop_front() {
                            steps += 1;
                            if steps > 40 {
                                break;
                            }
                            wire.push(bytes.clone());
                            let o = guarded(|| feed(if to_x { &mut x } else { &mut y }, &bytes));
                            if let Ok(o) = o {
                                if o.res.is_ok() && !o.out.is_empty() {
                                    queue.push_back((!to_x, o.out));
                                }
                            }
                        }
                        secs += 1;
                        if secs > 3 || steps > 40 {
                            break;
                        }
                        // what the ends repeat in the following seconds
                        for to_x in [false, true] {
                            let o = guarded(|| tick(if to_x { &mut y } else { &mut x }));
                            if let Ok(o) = o {
                                if !o.out.is_empty() {
                                    queue.push_back((to_x, o.out));
                                }
                            }
                        }
                    }
                    let both = ap && bp;
                    let all: Vec<u8> = wire.iter().flat_map(|d| d.iter().copied().chain([0xaau8; 9])).collect();
                    let name = format!("{:?}{}|{:?}{}|{}{}", la, if ap { "+plain" } else { "" }, lb, if bp { "+plain" } else { "" }, if init_a { "A" } else { "B" }, if future { "|future-peer" } else { "" });
                    for (what, clear) in [("handshake-info-a", &ea), ("handshake-info-b", &eb)] {
                        let mut e = cleartext_event("handshake", what, &name, both, clear, &all, c);
                        e["datagrams"] = json!(wire.len());
                        t.ev(e);
                    }
                }
            }
        }
    }
}

fn peer_level(tier: &str, t: &mut Trace, c: &mut Counters, failures: &mut Vec<String>) {
    let mut rng = rng(72);
    let (pr, pb) = fresh_keypair();
    let key = KeyCfg::Pair(pr, pb);
    let lens: Vec<usize> = if tier == "thorough" { sampled_lengths("quick", &mut rng) } else { (0..=300).chain([1400, 1500, 9000]).collect() };
    for s in sessions() {
        let ca = ctx_with(1, &key, &[], &s.a, s.ap);
        let cb = ctx_with(2, &key, &[], &s.b, s.bp);
        let (mut a, mut b) = match connect(&ca, &cb, 1, 2, s.init == "A") {
            Some(x) => x,
            None => {
                failures.push(format!("session {} did not come up", s.name));
                continue;
            }
        };
        let cipher = a.algorithm_name();
        let plain = cipher == "PLAIN";
        t.ev(json!({"op":"session","name":s.name,"cipher":cipher,"cipher_b":b.algorithm_name(),"plain":plain,"want_plain":s.ap && s.bp}));
        // round trips in both directions: data and the other message types, node-info messages
        for (dir, from_id) in [(0usize, 1u8), (1, 2)] {
            for &len in &lens {
                for ty in [0u8, 1, 2, 255] {
                    if ty != 0 && len % 10 != 0 {
                        continue;
                    }
                    if plain && ty == 255 {
                        // without envelope the type byte is the first byte of the datagram and 0xff is the handshake marker:
                        // a CLOSE message of an unencrypted session is read as a handshake datagram.  Neither payload nor
                        // routing information - outside C02.
                        continue;
                    }
                    let p = payload_of(&mut rng, len);
                    let space = [100usize, 9, 64, 1000][len % 4];
                    let (from, to) = if dir == 0 { (&mut a, &mut b) } else { (&mut b, &mut a) };
                    let (same, res, dlen) = match peer_seal(from, ty, &p, space) {
                        Err(_) => (false, "panic", 0),
                        Ok(d) => match peer_open(to, &d, 100) {
                            (Opened::Yes(q), got) => (q == p && got == ty as i64, "ok", d.len()),
                            (Opened::No, _) => (false, "err", d.len()),
                            (Opened::Panic(_), _) => (false, "panic", d.len()),
                        },
                    };
                    c.cases += 1;
                    c.members += 1;
                    t.ev(json!({"op":"roundtrip","level":"peer","cipher":cipher,"type":ty,"len":len,"offset":space,"roffset":100,"plain":plain,
                                "conn":[1,2],"from":from_id,"on":[1,2],"at":3 - from_id,"alt":"none","dlen":dlen,"same":same,"res":res}));
                }
            }
            // node info: encoded by the real encoder, sent as type 1, decoded again at the other end
            for _ in 0..(if tier == "thorough" { 20 } else { 4 }) {
                let info = big_node_info(&mut rng);
                let enc = encoded(&info);
                let (from, to) = if dir == 0 { (&mut a, &mut b) } else { (&mut b, &mut a) };
                let d = peer_seal(from, 1, &enc, 100).unwrap_or_default();
                let (same, res) = match peer_open(to, &d, 100) {
                    (Opened::Yes(q), 1) => (q == enc, "ok"), // byte-identical; what the bytes mean is the codec's business (C16)
                    (Opened::Yes(_), _) => (false, "ok"),
                    (Opened::No, _) => (false, "err"),
                    (Opened::Panic(_), _) => (false, "panic"),
                };
                c.cases += 1;
                c.members += 1;
                t.ev(json!({"op":"roundtrip","level":"peer-nodeinfo","cipher":cipher,"type":1,"len":enc.len(),"offset":100,"roffset":100,"plain":plain,
                            "conn":[1,2],"from":from_id,"on":[1,2],"at":3 - from_id,"alt":"none","dlen":d.len(),"same":same,"res":res}));
                t.ev(cleartext_event("peer", "nodeinfo", cipher, plain, &enc, &d, c));
            }
            for len in [8usize, 9, 16, 64, 300, 1400, 9000] {
                let p = payload_of(&mut rng, len);
                let (from, _) = if dir == 0 { (&mut a, &mut b) } else { (&mut b, &mut a) };
                let d = peer_seal(from, 0, &p, 100).unwrap_or_default();
                t.ev(cleartext_event("peer", "payload", cipher, plain, &p, &d, c));
            }
        }
        if plain {
            continue; // no envelope: the tamper classes are outside the property
        }
        // tamper families through PeerCrypto::handle_message
        for len in if tier == "thorough" { vec![0usize, 1, 15, 16, 100, 1400] } else { vec![0usize, 1, 20, 100] } {
            let p = payload_of(&mut rng, len);
            let d = peer_seal(&mut a, 0, &p, 100).unwrap_or_default();
            let total = d.len();
            let who = Who { conn: [1, 2], from: 1, on: [1, 2], at: 2 };
            let mut fams: Vec<(&str, Fam)> = vec![("keyid", Fam::new()), ("ctr", Fam::new()), ("ct", Fam::new()), ("tag", Fam::new())];
            for bit in 0..total * 8 {
                let mut e = d.clone();
                e[bit / 8] ^= 1 << (bit % 8);
                let (res, _) = peer_open(&mut b, &e, 100);
                let f = field_of(bit, total);
                fams.iter_mut().find(|x| x.0 == f).unwrap().1.add(&res, json!({"bit": bit % 8, "byte": bit / 8}));
            }
            for (f, fam) in fams {
                t.ev(fam.event("peer", "bitflip", f, cipher, len, &who, f, c));
            }
            let mut fam = Fam::new();
            for cut in 0..total {
                let (res, _) = peer_open(&mut b, &d[..cut], 100);
                fam.add(&res, json!({"cut": cut}));
            }
            t.ev(fam.event("peer", "truncate", "length", cipher, len, &who, "trunc", c));
            let mut fam = Fam::new();
            let (res, _) = peer_open(&mut a, &d, 100);
            fam.add(&res, json!({"at": "sender"}));
            t.ev(fam.event("peer", "reflect", "none", cipher, len, &Who { conn: [1, 2], from: 1, on: [1, 2], at: 1 }, "none", c));
            let (same, res) = match peer_open(&mut b, &d, 100) {
                (Opened::Yes(q), 0) => (q == p, "ok"),
                (Opened::Yes(_), _) => (false, "ok"),
                (Opened::No, _) => (false, "err"),
                (Opened::Panic(_), _) => (false, "panic"),
            };
            c.cases += 1;
            c.members += 1;
            t.ev(json!({"op":"roundtrip","level":"peer","cipher":cipher,"type":0,"len":len,"offset":100,"roffset":100,"plain":false,
                        "conn":[1,2],"from":1,"on":[1,2],"at":2,"alt":"none","dlen":d.len(),"same":same,"res":res}));
        }
    }
}

// ------------------------------------------------------------------------------------------- 3-node mesh

/// Three ends 1, 2, 3 with three connections; `ciphers[k]` is forced on connection k of [{1,2}, {1,3}, {2,3}].
/// Every datagram sealed on a connection is presented to every end of every OTHER connection (cross), to its own
/// sender (reflect) and finally to its rightful receiver (round trip).
fn mesh(tier: &str, t: &mut Trace, c: &mut Counters, failures: &mut Vec<String>) {
    let mut rng = rng(73);
    let (pr, pb) = fresh_keypair();
    let key = KeyCfg::Pair(pr, pb);
    let conns: [[u8; 2]; 3] = [[1, 2], [1, 3], [2, 3]];
    let mut plans: Vec<[u64; 3]> = vec![[1, 1, 1], [2, 2, 2], [3, 3, 3], [1, 2, 3]];
    if tier == "thorough" {
        plans.extend([[3, 1, 2], [2, 3, 1], [1, 1, 2], [3, 2, 2]]);
    }
    for plan in plans {
        // objs[k] = (object of the lower end, object of the higher end) of connection k
        let mut objs: Vec<(PeerCrypto<NodeInfo>, PeerCrypto<NodeInfo>)> = vec![];
        for (k, cn) in conns.iter().enumerate() {
            let list = vec![(plan[k], 2u64)];
            let cx = ctx_with(cn[0], &key, &[], &list, false);
            let cy = ctx_with(cn[1], &key, &[], &list, false);
            match connect(&cx, &cy, cn[0], cn[1], k % 2 == 0) {
                Some(p) => objs.push(p),
                None => failures.push(format!("mesh connection {:?} did not come up", cn)),
            }
        }
        if objs.len() != 3 {
            continue;
        }
        let names: Vec<&str> = objs.iter().map(|o| o.0.algorithm_name()).collect();
        t.ev(json!({"op":"session","name":format!("mesh{:?}", plan),"cipher":names.join("/"),"cipher_b":names.join("/"),"plain":false,"want_plain":false}));
        // slot contents of all six ends, and outsider-sealed datagrams at every end
        let mut entries = vec![];
        for k in 0..3 {
            if let (Some(a), Some(b)) = (objs[k].0.verif_core().map(|x| slot_entry(x, conns[k], conns[k][0])), objs[k].1.verif_core().map(|x| slot_entry(x, conns[k], conns[k][1]))) {
                entries.push(a);
                entries.push(b);
            }
        }
        c.cases += 1;
        t.ev(json!({"op":"slots","level":"mesh","cipher":names.join("/"),"entries":entries}));
        for k in 0..3 {
            let algo = ALGOS[ALGO_NAMES.iter().position(|n| *n == names[k]).unwrap_or(0)];
            let p = payload_of(&mut rng, 40);
            for side in 0..2 {
                let mut fam = Fam::new();
                for (desc, d) in forged_members(algo, &p) {
                    for ty in [0u8, 1] {
                        // (the type byte is inside the sealed part: the outsider seals type + payload)
                        let mut q = vec![ty];
                        q.extend_from_slice(&p);
                        let _ = &d;
                        let dd = {
                            let kb = desc["key_byte"].as_u64().unwrap() as u8;
                            let kid = desc["keyid"].as_u64().unwrap() as u8;
                            let half = desc["half"].as_u64().unwrap() as u8;
                            let ctr: Vec<u8> = unhex(desc["ctr"].as_str().unwrap());
                            let mut c7 = [0u8; 7];
                            c7.copy_from_slice(&ctr);
                            forge(algo, kb, kid, half, c7, &q)
                        };
                        let to = if side == 0 { &mut objs[k].0 } else { &mut objs[k].1 };
                        let (res, _) = peer_open(to, &dd, 100);
                        fam.add(&res, desc.clone());
                    }
                }
                let who = Who { conn: conns[k], from: 0, on: conns[k], at: conns[k][side] };
                t.ev(fam.event("mesh", "forged", "key", names[k], 40, &who, "none", c));
            }
        }
        let lens: Vec<usize> = if tier == "thorough" { vec![0, 1, 7, 8, 23, 24, 64, 300, 1400, 9000] } else { vec![0, 1, 23, 64, 1400] };
        for k in 0..3 {
            for side in 0..2 {
                let from_id = conns[k][side];
                // the datagrams of this direction: data of several lengths and the other message types
                let mut dgrams: Vec<(u8, Vec<u8>, Vec<u8>)> = vec![];
                for &len in &lens {
                    for ty in [0u8, 1, 2, 255] {
                        if ty != 0 && len != 64 {
                            continue;
                        }
                        let p = payload_of(&mut rng, len);
                        let from = if side == 0 { &mut objs[k].0 } else { &mut objs[k].1 };
                        if let Ok(d) = peer_seal(from, ty, &p, 100) {
                            dgrams.push((ty, p, d));
                        }
                    }
                }
                // cross: every end of every other connection
                for k2 in 0..3 {
                    if k2 == k {
                        continue;
                    }
                    for side2 in 0..2 {
                        let at_id = conns[k2][side2];
                        let mut fam = Fam::new();
                        for (ty, p, d) in &dgrams {
                            let to = if side2 == 0 { &mut objs[k2].0 } else { &mut objs[k2].1 };
                            let (res, _) = peer_open(to, d, 100);
                            fam.add(&res, json!({"type": ty, "len": p.len()}));
                        }
                        let who = Who { conn: conns[k], from: from_id, on: conns[k2], at: at_id };
                        t.ev(fam.event("mesh", "cross", "none", &format!("{}->{}", names[k], names[k2]), 0, &who, "none", c));
                    }
                }
                // reflect: back to the sender's own object for this connection
                let mut fam = Fam::new();
                for (ty, p, d) in &dgrams {
                    let me = if side == 0 { &mut objs[k].0 } else { &mut objs[k].1 };
                    let (res, _) = peer_open(me, d, 100);
                    fam.add(&res, json!({"type": ty, "len": p.len()}));
                }
                t.ev(fam.event("mesh", "reflect", "none", names[k], 0, &Who { conn: conns[k], from: from_id, on: conns[k], at: from_id }, "none", c));
                // and now to the rightful receiver
                for (ty, p, d) in &dgrams {
                    let to = if side == 0 { &mut objs[k].1 } else { &mut objs[k].0 };
                    let (same, res) = match peer_open(to, d, 100) {
                        (Opened::Yes(q), got) => (&q == p && got == *ty as i64, "ok"),
                        (Opened::No, _) => (false, "err"),
                        (Opened::Panic(_), _) => (false, "panic"),
                    };
                    c.cases += 1;
                    c.members += 1;
                    t.ev(json!({"op":"roundtrip","level":"mesh","cipher":names[k],"type":ty,"len":p.len(),"offset":100,"roffset":100,"plain":false,
                                "conn":conns[k],"from":from_id,"on":conns[k],"at":conns[k][1 - side],"alt":"none","dlen":d.len(),"same":same,"res":res}));
                }
            }
        }
    }
}

pub fn run(args: &[String]) -> Value {
    let a = |i: usize| args.get(i).map(|s| s.as_str()).unwrap_or("");
    if a(0) != "run" {
        panic!("usage: envelope run <quick|thorough> <trace.ndjson>");
    }
    let tier = a(1);
    let mut t = Trace::create(a(2));
    let mut c = Counters { cases: 0, members: 0 };
    let mut failures = vec![];
    core_level(tier, &mut t, &mut c);
    core_history(tier, &mut t, &mut c);
    handshake_cleartext(&mut t, &mut c);
    peer_level(tier, &mut t, &mut c, &mut failures);
    mesh(tier, &mut t, &mut c, &mut failures);
    let events = t.finish();
    json!({"runs": c.cases, "steps": c.members, "events": events, "setup_failures": failures})
}
