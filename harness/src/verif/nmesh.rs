//! C14: full mesh from any connected bootstrap; a node never peers with itself.
//! `node mesh <configs.ndjson> <tier> <trace>`: every bootstrap configuration TLC enumerated for Mesh.tla (who dials
//! whom, who is behind a NAT) on real mock nodes, plus sampled graphs on 5-8 nodes and self-dial scenarios.
use super::node::*;
use super::util::*;
use crate::payload::Packet;
use crate::types::Mode;
use rand::seq::SliceRandom;
use rand::Rng;
use serde_json::{json, Value};

pub const INTERVAL: i64 = 90; // default settings: peer timeout 300 -> announcement interval 300 / 2 - 60

fn self_peer(sim: &Sim<Packet>) -> bool {
    sim.nodes.iter().any(|n| {
        let id = n.node.verif_node_id();
        n.node.verif_peers().iter().any(|p| p.addr == n.addr || p.node_id == id)
    })
}

fn mesh_case(n: usize, nat: &[u64], dial: &[(u64, u64)], stream: u64, horizon: i64) -> Value {
    let mut sim: Sim<Packet> = Sim::new(stream);
    sim.trace_sample(stream, 12, 80_000);
    let mut cfg = base_config(Mode::Router);
    let plain = stream % 5 == 4;
    if plain {
        // every fifth configuration runs with unencrypted sessions ("plain" enabled on every node)
        cfg.crypto.algorithms = vec!["plain".into()];
    }
    for i in 1..=n {
        sim.add_node(nat.contains(&(i as u64)), &cfg);
    }
    for (a, b) in dial {
        let to = sim.nodes[*b as usize - 1].addr;
        // a configured peer: dialled again and again until it answers (as `--peer` does)
        sim.add_reconnect(*a as usize - 1, to);
    }
    let mut t_full = -1i64;
    let mut selfp = false;
    for t in 1..=horizon {
        sim.tick();
        if self_peer(&sim) {
            selfp = true;
        }
        if sim.full_mesh() {
            t_full = t;
            break;
        }
    }
    // stays meshed and never lists itself during one more interval
    let mut stable = t_full >= 0;
    if t_full >= 0 {
        for _ in 0..(INTERVAL + 5) {
            sim.tick();
            if self_peer(&sim) {
                selfp = true;
            }
            if !sim.full_mesh() {
                stable = false;
            }
        }
    }
    json!({"op":"meshrun","plain":plain,"n":n,"nat":nat,"dial":dial.iter().map(|(a, b)| json!([a, b])).collect::<Vec<_>>(),"interval":INTERVAL,
           "t_full":t_full,"stable":stable,"self_peer":selfp,"panics":sim.total_panics(),"storm_ticks":sim.storm_ticks})
}

/// a node dials an address that leads back to itself; its datagrams come back from every combination of source
/// addresses (alone), or the node sits behind a port forwarding inside a mesh: peers know it by the forwarded address,
/// list that address under its identity, and the node must adopt it as its own and never dial it.
fn selfdial_case(variant: u64, in_mesh: bool, stream: u64) -> Value {
    let mut sim: Sim<Packet> = Sim::new(stream);
    sim.trace_sample(stream, 1, 80_000);
    let cfg = base_config(Mode::Router);
    let a = sim.add_node(false, &cfg);
    let alias = addr_of(61);
    sim.alias.insert(alias, 1);
    let a_id = sim.nodes[a].node.verif_node_id();
    let mut others = vec![];
    if in_mesh {
        // consistent address translation: everybody sees A as the forwarded address
        sim.seen_as.insert(1, alias);
        let j = sim.add_node(false, &cfg);
        let k = sim.add_node(false, &cfg);
        others = vec![j, k];
        sim.connect(j, alias);
        let ja = sim.nodes[j].addr;
        sim.connect(k, ja);
        sim.deliver_due();
        sim.run_for(INTERVAL + 5);
    } else {
        // looped-back datagrams appear to come from: 0 the node's own address, 1 the alias, 2 a third address,
        // 3 hair-pinning: what is sent to the alias arrives from a second alias and vice versa
        match variant % 4 {
            0 => {}
            3 => {
                sim.alias.insert(addr_of(62), 1);
                sim.hairpin.insert((1, alias), addr_of(62));
                sim.hairpin.insert((1, addr_of(62)), alias);
            }
            1 => {
                sim.seen_as.insert(1, alias);
            }
            _ => {
                sim.seen_as.insert(1, addr_of(62));
                sim.alias.insert(addr_of(62), 1);
            }
        }
    }
    sim.capture = true;
    let own_before: Vec<u16> = sim.nodes[a].node.verif_own_addresses().iter().map(port_of).collect();
    let learnt = own_before.contains(&61);
    let mark = sim.wire.len();
    sim.connect(a, alias);
    sim.deliver_due();
    let mut selfp = false;
    for _ in 0..(INTERVAL + 130) {
        sim.tick();
        if self_peer(&sim) {
            selfp = true;
        }
    }
    let (_, pend) = sim.shape(a);
    let pending_left = pend.contains(&61);
    let dials = sim.wire[mark..].iter().filter(|d| d.from == 1 && d.to == alias && d.bytes.first() == Some(&0xff) && d.bytes.get(12) == Some(&1)).count();
    let own: Vec<u16> = sim.nodes[a].node.verif_own_addresses().iter().map(port_of).collect();
    // mesh connectivity by identity: everybody else holds a peer entry with A's node id, A holds one for each of them
    let mesh_ok = others.iter().all(|j| {
        let jid = sim.nodes[*j].node.verif_node_id();
        sim.nodes[*j].node.verif_peers().iter().any(|p| p.node_id == a_id) && sim.nodes[a].node.verif_peers().iter().any(|p| p.node_id == jid)
    });
    json!({"op":"selfdial","variant":variant % 4,"in_mesh":in_mesh,"self_peer":selfp,"pending_left":pending_left,"own":own,"learnt":learnt,
           "dials_of_own_alias":dials,"mesh_ok":mesh_ok,"panics":sim.total_panics()})
}

fn random_graph(n: usize, rng: &mut impl Rng) -> (Vec<u64>, Vec<(u64, u64)>) {
    // random spanning tree + extra edges, random orientation (or both), no NAT (NAT-admissibility is Mesh.tla's job)
    let mut order: Vec<u64> = (1..=n as u64).collect();
    order.shuffle(rng);
    let mut dial = vec![];
    for i in 1..n {
        let j = rng.gen_range(0..i);
        let (a, b) = (order[i], order[j]);
        match rng.gen_range(0..3) {
            0 => dial.push((a, b)),
            1 => dial.push((b, a)),
            _ => {
                dial.push((a, b));
                dial.push((b, a));
            }
        }
    }
    for _ in 0..rng.gen_range(0..n) {
        let (a, b) = (rng.gen_range(1..=n as u64), rng.gen_range(1..=n as u64));
        if a != b && !dial.contains(&(a, b)) {
            dial.push((a, b));
        }
    }
    (vec![], dial)
}

enum Job {
    Mesh(usize, Vec<u64>, Vec<(u64, u64)>),
    SelfDial(u64, bool),
}

pub fn run(cfg_path: &str, tier: &str, out_path: &str) -> Value {
    let quick = tier == "quick";
    let mut rng = rng(80);
    let mut jobs: Vec<Job> = vec![];
    for c in read_ndjson(cfg_path) {
        let n = c["n"].as_u64().unwrap() as usize;
        if quick && n == 4 && !rng.gen_bool(0.03) {
            continue;
        }
        let nat: Vec<u64> = c["nat"].as_array().unwrap().iter().map(|x| x.as_u64().unwrap()).collect();
        let dial: Vec<(u64, u64)> = c["dial"].as_array().unwrap().iter().map(|p| (p[0].as_u64().unwrap(), p[1].as_u64().unwrap())).collect();
        jobs.push(Job::Mesh(n, nat, dial));
    }
    for _ in 0..(if quick { 40 } else { 1500 }) {
        let n = rng.gen_range(5..=8);
        let (nat, dial) = random_graph(n, &mut rng);
        jobs.push(Job::Mesh(n, nat, dial));
    }
    for v in 0..4 {
        for m in [false, true] {
            if v == 3 && m {
                continue;
            }
            jobs.push(Job::SelfDial(v, m));
        }
    }
    let results = parallel_map(&jobs, |i, j| match j {
        Job::Mesh(n, nat, dial) => mesh_case(*n, nat, dial, 8000 + i as u64, 5 * INTERVAL + 10),
        Job::SelfDial(v, m) => selfdial_case(*v, *m, 9000 + i as u64),
    });
    let mut t = Trace::create(out_path);
    for r in &results {
        t.ev(r.clone());
    }
    let events = t.finish();
    let cloud = write_cloud_blocks(&format!("{}.cloud", out_path));
    json!({"runs": jobs.len(), "steps": jobs.len(), "events": events, "cloud_events": cloud})
}
