"""C19 - address dissection of frames and packets is exact and total.

Design level: Dissect.tla (reference operators FrameParse / PacketParse written from the Ethernet II, 802.1Q, IPv4 and
IPv6 header layouts; acceptance predicates FrameOK / PacketOK) checked by TLC over an enumerated universe
(MC_Dissect: position-tagged contents of every length x ethertypes x tag controls x nested tags x version nibbles,
with complete 16-bit sweeps at selected lengths) against the property formulas: totality, reject-iff-too-short /
unsupported, "addresses are the content of the standard offsets", nothing behind the header matters, tightness of
the acceptance predicates.
Impl -> spec: the harness runs the real Frame::parse / Packet::parse on the input families of the quantifier (every
length 0..=64 x random contents, all 65536 ethertypes, all 65536 tag-control values behind 0x8100, nested and
truncated tags, 16 version nibbles x lengths around 20 and 40) under catch_unwind; TLC validates every recorded call
against Trace_Dissect (no panic; result admitted by FrameOK resp. equal to PacketParse)."""
import concurrent.futures as cf
import os
import shutil
import time

import vplib as V

PID = "C19"
TRACE = ("Trace_Dissect.tla", "Trace_Dissect.cfg")
MAX_ROUNDS = 4          # continuation rounds per trace file after a rejected event
MAX_VIOLATIONS = 12


def classify(e):
    """Signature of the input class of a rejected event."""
    d = e.get("data", [])
    n = len(d)
    if e.get("res") == "panic":
        return "%s|len=%d|panic" % (e.get("op"), n)
    if e.get("op") == "frame":
        cls = "short" if n < 14 else ("tagged" if d[12:14] == [0x81, 0] else "untagged")
        if cls == "tagged":
            cls += "-vlan0" if n >= 16 and (d[14] & 0x0F, d[15]) == (0, 0) else ""
    else:
        cls = "empty" if n == 0 else "v%d" % (d[0] >> 4)
    return "%s|len=%d|%s|wrong-%s" % (e.get("op"), n, cls, e.get("res"))


def validate(path, n, sub):
    """Validate one trace file; after a rejected event continue behind it (bounded).  Returns
    (accepted_first_pass, [(index, event, reason)], events_matched)."""
    bad = []
    offset = 0
    cur, cur_n = path, n
    matched_total = 0
    first = True
    accepted_first = False
    for rnd in range(MAX_ROUNDS + 1):
        v = V.tlc_trace(TRACE[0], TRACE[1], PID, cur, cur_n, sub="%s-r%d" % (sub, rnd))
        if first:
            accepted_first = v.accepted
            first = False
        if v.accepted:
            matched_total += cur_n
            break
        matched_total += v.matched
        evs = V.read_ndjson(cur)
        if v.matched >= len(evs):
            raise V.ToolError("trace validation of %s rejected beyond the end of the trace" % cur)
        bad.append((offset + v.matched, evs[v.matched], v.reason))
        rest = evs[v.matched + 1:]
        offset += v.matched + 1
        if not rest or rnd == MAX_ROUNDS:
            break
        cur = path + ".rest%d" % rnd
        V.write_ndjson(cur, rest)
        cur_n = len(rest)
    return accepted_first, bad, matched_total


def selftest(src, wd, name, pick, mutate):
    """Corrupt one recorded field; TLC must reject at exactly that line.  Returns (line, failure or None); a failure
    only counts when the uncorrupted trace was accepted (a genuine violation in front of the line masks it)."""
    dst = os.path.join(wd, "selftest-%s.ndjson" % name)
    hit = V.corrupt_trace(src, dst, pick, mutate)
    if hit is None:
        return 0, "no event for self-test '%s' in %s (vacuous)" % (name, src)
    # a few events behind the corrupted one are enough to tell "rejected there" from "accepted"
    with open(dst) as f:
        lines = f.readlines()[:hit + 20]
    with open(dst, "w") as f:
        f.writelines(lines)
    v = V.tlc_trace(TRACE[0], TRACE[1], PID, dst, V.count_lines(dst), sub="trace-selftest-" + name)
    if v.accepted or v.matched != hit - 1:
        return hit, "self-test '%s': corrupted line %d not rejected at that line (accepted=%s matched=%s)" % (
            name, hit, v.accepted, v.matched)
    return hit, None


def _bump(field, idx):
    def m(e):
        e[field][idx] = (e[field][idx] + 1) % 256
    return m


def run(tier, out):
    wd = V.workdir(PID)
    quick = tier == "quick"
    V.build_harness()
    # (A) design run: property formulas of the reference operators over the enumerated universe (runs while the
    # traces are recorded and validated; collected below)
    cfg = "MC_Dissect.cfg" if quick else "MC_Dissect_thorough.cfg"
    pool = cf.ThreadPoolExecutor(max_workers=6 if quick else 7)
    dfut = pool.submit(V.tlc_design, "MC_Dissect.tla", cfg, PID, workers=4 if quick else 10, timeout=1500,
                       xmx="2g" if quick else "6g")
    # (B) the real dissectors on the quantifier's input families
    td = os.path.join(wd, "traces")
    shutil.rmtree(td, ignore_errors=True)
    nrand, st20, st15, extra, chunk = (150, 8, 16, 0, 40000) if quick else (10000, 1, 1, 1, 200000)
    t0 = time.time()
    s = V.harness_json(["dissect", nrand, st20, st15, extra, chunk, td])
    V.log("[dissect] %d calls, %d events in %d files, %d distinct inputs, %.1fs" % (s["steps"], s["events"], len(s["files"]), s["distinct"], time.time() - t0))
    t0 = time.time()
    files = [(f["path"], f["events"]) for f in s["files"]]
    if sum(n for _, n in files) != s["events"] or not files:
        raise V.ToolError("dissect driver: event counts do not add up")
    # (C) trace validation (one TLC per file, several files at a time) + binding self-tests on the structured file
    first = files[0][0]
    validated = 0
    events_ok = 0
    tests = [t for t in [
        ("frame-tagged", lambda e: e["op"] == "frame" and e["res"] == "ok" and len(e["src"]) == 8 and e["src"][:2] != [0, 0],
         _bump("src", 4)),
        ("frame-vlanid", lambda e: e["op"] == "frame" and e["res"] == "ok" and len(e["dst"]) == 8 and e["dst"][:2] != [0, 0],
         _bump("dst", 1)),
        ("packet-v6", lambda e: e["op"] == "packet" and e["res"] == "ok" and len(e["dst"]) == 16, _bump("dst", 9)),
        ("packet-v4", lambda e: e["op"] == "packet" and e["res"] == "ok" and len(e["src"]) == 4, _bump("src", 0)),
    ] if not quick or t[0] in ("frame-vlanid", "packet-v6", "frame-tagged")]
    with pool as ex:
        futs = [(p, n, ex.submit(validate, p, n, "trace-%02d" % i)) for i, (p, n) in enumerate(files)]
        stf = [(name, ex.submit(selftest, first, wd, name, pick, mut)) for name, pick, mut in tests]
        results = [(p, n, f.result()) for p, n, f in futs]
        hits = {name: f.result() for name, f in stf}
        first_ok = results[0][2][0]
        d = dfut.result()
    if d.invariant_violated or d.property_violated:
        out.violation("design|" + ",".join(d.invariant_violated or ["action-property"]),
                      "Dissect.tla violates its own property formulas (specification bug)", {"tlc": d.out[-3000:]})
    V.log("[trace] %d files + %d self-tests validated in %.1fs" % (len(files), len(tests), time.time() - t0))
    for p, n, (acc, bad, matched) in results:
        if acc:
            validated += 1
        events_ok += matched
        for idx, e, reason in bad:
            if len(out.violations) >= MAX_VIOLATIONS:
                break
            what = "panicked" if e.get("res") == "panic" else "returned %s src=%s dst=%s" % (e.get("res"), e.get("src"), e.get("dst"))
            out.violation(classify(e),
                          "real %s::parse deviates from Dissect.tla on %d input bytes %s: %s (rejected by Trace_Dissect, event %d of %s)"
                          % ("Frame" if e.get("op") == "frame" else "Packet", len(e.get("data", [])), e.get("data"), what,
                             idx + 1, os.path.basename(p)),
                          {"event": e, "trace_file": os.path.basename(p), "line": idx + 1})
    for name, (hit, failure) in sorted(hits.items()):
        if failure and first_ok:
            V.selftest_fail(PID, failure)
    sample_evs = V.read_ndjson(first)
    pick = [e for e in sample_evs if e["res"] == "ok" and len(e["src"]) == 8][:1] + \
           [e for e in sample_evs if e["op"] == "packet" and e["res"] == "ok"][:1] + \
           [e for e in sample_evs if e["op"] == "frame" and e["res"] == "reject" and len(e["data"]) >= 14][:1]
    cov = {
        "states": d.distinct, "transitions": d.generated, "depth": d.depth,
        "traces_validated_against_impl": validated,
        "trace_files": len(files), "events_validated": events_ok,
        "samples": pick,
        "evaluations": s["steps"],
        "distinct_nontrivial": s["distinct"],
        "rule": "inputs = families of the quantifier generated by the driver (per length 0..=64: %d random contents, every "
                "fourth also with forced 0x8100 / version 4 or 6; position-tagged contents x 4 offsets; ethertypes at length "
                "20%s every %d-th and at length 15 every %d-th (a stride > 1 keeps all of 0x81xx, 0xxx00 and the service "
                "tags; thorough tier: stride 1 = all 65536); all 65536 tag-control values behind 0x8100 at length 20%s; "
                "nested tags; truncated tags lengths 10..=18; 16 version nibbles x {0,1,19,20,21,39,40,41,64}); every call "
                "is one event judged by TLC; distinct = distinct non-empty (dissector, byte string) pairs counted by the driver"
                % (nrand, ", 14 and 64" if extra else "", st20, st15, ", 16 and 18" if extra else ""),
        "families": s["families"],
        "results": {"ok": s["ok"], "reject": s["reject"], "panic": s["panics"]},
        "self_test": "; ".join("%s: corrupted address byte at line %d of %s %s"
                               % (k, v[0], os.path.basename(first),
                                  "rejected by TLC at that line" if not v[1] else "masked by an earlier violation")
                               for k, v in sorted(hits.items())),
        "checker_cmd": "tlc %s/%s ; tlc %s" % ("MC_Dissect", cfg, TRACE[0]),
    }
    return out.finish("model_checking", cov, assumptions=[
        "a tagged frame is one whose outermost ethertype is 0x8100 (0x88a8 / 0x9100 service tags count as untagged, "
        "as payload.rs documents: only the 802.1Q tag is dissected, nested tags are ignored)",
        "don't-cares: VLAN id 0 may be reported in the 8-byte or the folded 6-byte form (C13 decides); a 0x8100 frame of "
        "16 or 17 bytes (no inner ethertype) may be dissected or rejected as truncated",
        "IPv4 header length field and IPv6 payload length are not part of the property (length limits 20 / 40 only)"])


def replay(rep):
    """bin/check C19 --replay <file>: re-execute the recorded input on the current tree and judge it again."""
    wd = V.workdir(PID, "replay")
    ev = rep["replay"]["event"]
    inp = os.path.join(wd, "in.ndjson")
    V.write_ndjson(inp, [ev])
    td = os.path.join(wd, "out")
    shutil.rmtree(td, ignore_errors=True)
    s = V.harness_json(["dissect", "replay", inp, td])
    path = s["files"][0]["path"]
    now = V.read_ndjson(path)[0]
    v = V.tlc_trace(TRACE[0], TRACE[1], PID, path, 1, sub="trace-replay")
    V.log("input %s -> %s src=%s dst=%s" % (now["data"], now["res"], now["src"], now["dst"]))
    if v.accepted:
        print("OK property=%s replay no longer violates (%s)" % (PID, rep.get("signature")))
        return 0
    print("VIOLATION property=%s replay=%s" % (PID, path))
    return 1
