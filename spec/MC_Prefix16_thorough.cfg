SPECIFICATION Spec
CONSTANTS W = 16
          MaxP = 20
          BaseLo = 43981
          BaseStep = 4099
          BaseCount = 48
          DigitWidths = {8}
INVARIANT ArithIsInterval
INVARIANT DigitsAreArith
INVARIANT RunsAreSet
INVARIANT Corners
CHECK_DEADLOCK FALSE
