------------------------------- MODULE Beacon -------------------------------
(***************************************************************************)
(* C17: beacons - age window and extraction from surrounding text.         *)
(*                                                                         *)
(* Code: src/beacon.rs  BeaconSerializer::{encode, decode},                *)
(*       peerlist_encode / peerlist_decode, base_62_sanitize.              *)
(*                                                                         *)
(* A beacon is   begin-marker  body  end-marker   where the markers are    *)
(* five alphanumeric characters that depend on the beacon password only    *)
(* and the body is the base-62 text (Base62.tla) of the masked byte string *)
(*     hour stamp (2 bytes, hours mod 65536) | number of IPv4 entries |    *)
(*     IPv4 entries (6 bytes) | IPv6 entries (18 bytes) | seed byte.       *)
(* The body has no fixed width, so the text form cannot restore a leading  *)
(* zero byte of the masked body (see Base62.tla).                          *)
(*                                                                         *)
(* Part 1: AgeOK - which stamps a reader accepts.                          *)
(* Part 2: Extract - which beacons a reader must find in a text, stated    *)
(*         over token sequences.                                           *)
(***************************************************************************)
EXTENDS Naturals, Sequences, FiniteSets

M == 65536                         \* hour stamps are 16 bit and wrap

-----------------------------------------------------------------------------
(* Part 1.  "ignored when its age exceeds the accepted range in either      *)
(* direction": the stamp may lie up to ttl hours in the past or up to ttl   *)
(* hours in the future of the reader's clock; on the 16-bit circle that is  *)
(* the shorter way round.                                                   *)
Fwd(a, b) == (a + M - b) % M                         \* hours from b forward to a, 0..M-1
Dist(now, then) == LET d == Fwd(now, then) IN IF d <= M - d THEN d ELSE M - d
AgeOK(now, then, ttl) == Dist(now, then) <= ttl

\* no limit configured
NoLimit == M
AgeAccepted(now, then, ttl) == ttl = NoLimit \/ AgeOK(now, then, ttl)

\* the two-sided formulation (code shape: reject iff both wrapped differences exceed the limit)
AgeOKTwoSided(now, then, ttl) == Fwd(now, then) <= ttl \/ Fwd(then, now) <= ttl

\* properties of AgeOK, checked over all stamps by MC_BeaconAge
AgeSymmetric(now, then, ttl) == AgeOK(now, then, ttl) <=> AgeOK(then, now, ttl)
AgeFormsAgree(now, then, ttl) == AgeOK(now, then, ttl) <=> AgeOKTwoSided(now, then, ttl)
AgeShiftInvariant(now, then, ttl, s) == AgeOK(now, then, ttl) <=> AgeOK((now + s) % M, (then + s) % M, ttl)
AgeBoundary(now, ttl) ==
  /\ AgeOK(now, now, ttl)
  /\ AgeOK(now, (now + ttl) % M, ttl) /\ AgeOK(now, (now + M - (ttl % M)) % M, ttl)
  /\ (ttl < M \div 2 =>   \* one hour beyond the limit, either direction
        /\ ~AgeOK(now, (now + ttl + 1) % M, ttl)
        /\ ~AgeOK(now, (now + M - ttl - 1) % M, ttl))
  /\ (ttl >= M \div 2 => \A d \in {0, 1, ttl, M \div 2, M - 1} : AgeOK(now, (now + d) % M, ttl))
AgeMonotone(now, then, ttl, ttl2) == (ttl <= ttl2 /\ AgeOK(now, then, ttl)) => AgeOK(now, then, ttl2)

\* length of the plain (= masked) body in bytes
PlainLen(v4, v6) == 2 + 1 + 6 * v4 + 18 * v6 + 1

-----------------------------------------------------------------------------
(* Part 2.  Texts are token sequences.  A token is a record [k, a]:         *)
(*   junk     random alphanumerics that contain no marker                   *)
(*   sep      non-alphanumeric characters (removed before the search)       *)
(*   beacon   a well-formed beacon of the reader's password whose age is    *)
(*            within the limit, possibly interleaved with separators;       *)
(*            a = its addresses                                             *)
(*   wrongpw  a well-formed beacon of another password (other markers)      *)
(*   old      a well-formed beacon of the reader's password whose age is    *)
(*            outside the limit                                             *)
(*   begin / end      a stray marker                                        *)
(*   pbegin / pend    a proper part of a marker                             *)
(*   ovbe     begin marker overlapped by the end marker (the begin marker   *)
(*            ends with the first character(s) of the end marker):          *)
(*            begin \o end[k+1..]                                           *)
(*   oveb     end marker overlapped by the begin marker: end \o begin[k+1..]*)
(* The harness guarantees (soundness rule 5) that marker occurrences in the *)
(* sanitized text are exactly the ones the tokens name.                     *)
TokenKinds == {"junk", "sep", "beacon", "wrongpw", "old", "begin", "end", "pbegin", "pend", "ovbe", "oveb"}

\* symbols of the sanitized text: B / E marker occurrences, BE overlapped pair, x anything else, body
Sym(s, a) == [s |-> s, a |-> a]
X == Sym("x", <<>>)
ExpandToken(t) ==
  CASE t.k = "junk"    -> <<X>>
    [] t.k = "sep"     -> <<>>
    [] t.k = "beacon"  -> <<Sym("B", <<>>), Sym("body", t.a), Sym("E", <<>>)>>
    [] t.k = "wrongpw" -> <<X>>
    [] t.k = "old"     -> <<Sym("B", <<>>), Sym("oldbody", <<>>), Sym("E", <<>>)>>
    [] t.k = "begin"   -> <<Sym("B", <<>>)>>
    [] t.k = "end"     -> <<Sym("E", <<>>)>>
    [] t.k = "pbegin"  -> <<X>>
    [] t.k = "pend"    -> <<X>>
    [] t.k = "ovbe"    -> <<Sym("BE", <<>>)>>
    [] t.k = "oveb"    -> <<Sym("E", <<>>), Sym("B", <<>>)>>   \* the end occurrence starts before the begin occurrence

RECURSIVE Expand(_)
Expand(toks) == IF toks = <<>> THEN <<>> ELSE ExpandToken(Head(toks)) \o Expand(Tail(toks))

IsBegin(y) == y.s \in {"B", "BE"}
IsEnd(y) == y.s \in {"E", "BE"}

\* first end-marker occurrence that starts after the begin marker at p has finished (0: none)
NextEnd(syms, p) == LET Q == {q \in (p + 1)..Len(syms) : IsEnd(syms[q])}
                    IN IF Q = {} THEN 0 ELSE CHOOSE q \in Q : \A r \in Q : q <= r

\* the candidate of the begin marker at p: the text up to the next end marker; it counts iff it is exactly one body
Candidate(syms, p) ==
  LET q == NextEnd(syms, p)
  IN IF q = p + 2 /\ syms[p + 1].s = "body" THEN syms[p + 1].a ELSE <<>>

\* a candidate whose content is neither a body nor empty: passes the 1-byte seed check with probability 1/256,
\* what it then yields is not asserted
Garbage(syms, p) ==
  LET q == NextEnd(syms, p)
  IN q > p + 1 /\ ~(q = p + 2 /\ syms[p + 1].s \in {"body", "oldbody"})

RECURSIVE ScanFrom(_, _)
ScanFrom(syms, p) ==
  IF p > Len(syms) THEN <<>>
  ELSE (IF IsBegin(syms[p]) THEN Candidate(syms, p) ELSE <<>>) \o ScanFrom(syms, p + 1)

\* every begin marker is tried with the next end marker; the search resumes right after the begin marker
Extract(toks) == ScanFrom(Expand(toks), 1)
HasGarbage(toks) == LET syms == Expand(toks) IN \E p \in 1..Len(syms) : IsBegin(syms[p]) /\ Garbage(syms, p)

\* what the property demands of a text: the addresses of its genuine beacons, in order
RECURSIVE Must(_)
Must(toks) == IF toks = <<>> THEN <<>>
              ELSE (IF Head(toks).k = "beacon" THEN Head(toks).a ELSE <<>>) \o Must(Tail(toks))

ExtractFindsAll(toks) == Extract(toks) = Must(toks)

\* a different rule (resume after the END marker of a tried candidate) loses beacons - variant for the design run
RECURSIVE ScanGreedy(_, _)
ScanGreedy(syms, p) ==
  IF p > Len(syms) THEN <<>>
  ELSE IF IsBegin(syms[p]) /\ NextEnd(syms, p) # 0
       THEN Candidate(syms, p) \o ScanGreedy(syms, NextEnd(syms, p) + 1)
       ELSE ScanGreedy(syms, p + 1)
ExtractGreedy(toks) == ScanGreedy(Expand(toks), 1)
GreedyFindsAll(toks) == ExtractGreedy(toks) = Must(toks)

\* address lists are compared as bags: the order of a peer list carries no meaning (the format groups IPv4 first)
Count(x, s) == Cardinality({i \in 1..Len(s) : s[i] = x})
Elems(s) == {s[i] : i \in 1..Len(s)}
BagIncl(s, t) == \A x \in Elems(s) : Count(x, s) <= Count(x, t)
BagEq(s, t) == Len(s) = Len(t) /\ BagIncl(s, t)

\* admissible results of the reader for a text
Admissible(toks, got) ==
  /\ BagIncl(Must(toks), got)
  /\ ~HasGarbage(toks) => BagEq(Must(toks), got)
=============================================================================
