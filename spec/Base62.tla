------------------------------- MODULE Base62 -------------------------------
(***************************************************************************)
(* The text codec shared by beacons (C17) and keys (C18).                  *)
(*                                                                         *)
(* Code: src/util.rs  to_base62 / from_base62.                             *)
(*                                                                         *)
(* Meaning: a byte string is read as a big-endian base-256 NUMBER; its     *)
(* text form is that number written with the 62 digits "0-9A-Za-z", most   *)
(* significant digit first, without leading zero digits (the number 0 is   *)
(* the empty text).  A text is a sequence of one-character strings.        *)
(*                                                                         *)
(* A number does not remember how many leading zero BYTES the byte string  *)
(* had.  Consequently                                                      *)
(*     Dec(Enc(b)) = b   holds iff  b is empty or b[1] # 0,                *)
(* and a user that stores a FIXED-WIDTH value has to re-pad on decoding:   *)
(*     DecFixed(Enc(b), Len(b)) = b   for every b.                         *)
(*                                                                         *)
(* Users of the codec:                                                     *)
(*  - keys (C18): Ed25519 seeds and public keys are exactly 32 bytes; the  *)
(*    readers of a configured key need DecFixed(text, 32).                 *)
(*  - beacons (C17): the masked body has a variable length                 *)
(*    (4 + 6*v4 + 18*v6 bytes) that is not transmitted, so a reader cannot *)
(*    re-pad: a leading zero byte of the masked body is lost by the text   *)
(*    form, the receiver sees a body that is one byte short.               *)
(*                                                                         *)
(* Two definitions are given: EncN/DecN on numbers (the meaning; usable    *)
(* while the number fits TLC's 32-bit integers, i.e. up to 3 bytes) and    *)
(* Enc/Dec by positional arithmetic on digit sequences (any length).       *)
(* MC_KeysCodec checks that they agree on every byte string of length <= 2 *)
(* (and on the 3-byte strings with first byte in {0, 1, 127}).             *)
(***************************************************************************)
EXTENDS Naturals, Sequences, SequencesExt

Alphabet == << "0","1","2","3","4","5","6","7","8","9",
               "A","B","C","D","E","F","G","H","I","J","K","L","M","N","O","P","Q","R","S","T","U","V","W","X","Y","Z",
               "a","b","c","d","e","f","g","h","i","j","k","l","m","n","o","p","q","r","s","t","u","v","w","x","y","z" >>
Chars == {Alphabet[i] : i \in 1..62}
DigitVal == [c \in Chars |-> (CHOOSE i \in 1..62 : Alphabet[i] = c) - 1]

IsText(t) == \A i \in 1..Len(t) : t[i] \in Chars
IsBytes(b) == \A i \in 1..Len(b) : b[i] \in 0..255

ToChars(digits) == [i \in 1..Len(digits) |-> Alphabet[digits[i] + 1]]
ToDigits(text) == [i \in 1..Len(text) |-> DigitVal[text[i]]]

Zeros(n) == [i \in 1..n |-> 0]

RECURSIVE StripZeros(_)
StripZeros(s) == IF s = <<>> THEN <<>> ELSE IF s[1] = 0 THEN StripZeros(Tail(s)) ELSE s

RECURSIVE LeadingZeros(_)
LeadingZeros(s) == IF s = <<>> THEN 0 ELSE IF s[1] = 0 THEN 1 + LeadingZeros(Tail(s)) ELSE 0

\* text without leading "0" digits (same number)
RECURSIVE Canon(_)
Canon(t) == IF t = <<>> THEN <<>> ELSE IF t[1] = "0" THEN Canon(Tail(t)) ELSE t

-----------------------------------------------------------------------------
(* Meaning, on numbers (small values only).                                  *)
RECURSIVE Value(_, _)
Value(s, base) == IF s = <<>> THEN 0 ELSE Value(SubSeq(s, 1, Len(s) - 1), base) * base + s[Len(s)]

RECURSIVE DigitsOf(_, _)
DigitsOf(n, base) == IF n = 0 THEN <<>> ELSE Append(DigitsOf(n \div base, base), n % base)

EncN(bytes) == ToChars(DigitsOf(Value(bytes, 256), 62))
DecN(text) == DigitsOf(Value(ToDigits(text), 62), 256)

-----------------------------------------------------------------------------
(* The same conversion by positional arithmetic, for any length.             *)
(* (FoldLeft of the community modules is evaluated strictly by TLC; a plain  *)
(* RECURSIVE formulation re-evaluates its lazily passed arguments and takes  *)
(* cubic time.)                                                              *)
RECURSIVE LittleEndian(_, _)
LittleEndian(n, base) == IF n = 0 THEN <<>> ELSE <<n % base>> \o LittleEndian(n \div base, base)

\* MulAdd(d, m, a, base): little-endian digit sequence of  d * m + a  (d little-endian, without leading zeros)
MulAdd(d, m, a, base) ==
  LET r == FoldLeft(LAMBDA acc, x : LET v == x * m + acc.carry
                                    IN [out |-> Append(acc.out, v % base), carry |-> v \div base],
                    [out |-> <<>>, carry |-> a], d)
  IN r.out \o LittleEndian(r.carry, base)

\* big-endian digits in base `from`  ->  minimal big-endian digits in base `to`
Convert(s, from, to) == Reverse(FoldLeft(LAMBDA acc, x : MulAdd(acc, from, x, to), <<>>, s))

Enc(bytes) == ToChars(Convert(bytes, 256, 62))
Dec(text) == Convert(ToDigits(text), 62, 256)

\* decoding of a value known to be `width` bytes wide; <<"overflow">> if the number does not fit
Overflow == <<"overflow">>
DecFixed(text, width) ==
  LET d == Dec(text) IN IF Len(d) > width THEN Overflow ELSE Zeros(width - Len(d)) \o d

-----------------------------------------------------------------------------
(* Properties (checked exhaustively by MC_KeysCodec for Len(b) <= 2).        *)
RoundTripFixed(b) == DecFixed(Enc(b), Len(b)) = b
PlainLosesLeadingZeros(b) == /\ Dec(Enc(b)) = StripZeros(b)
                             /\ (Dec(Enc(b)) = b) <=> (b = <<>> \/ b[1] # 0)
AgreesWithMeaning(b) == /\ Enc(b) = EncN(b)
                        /\ Dec(Enc(b)) = DecN(EncN(b))
                        /\ Value(ToDigits(Enc(b)), 62) = Value(b, 256)
TextIsCanonical(b) == IsText(Enc(b)) /\ Canon(Enc(b)) = Enc(b)

(* What a conforming implementation of the codec owes its users (the exact   *)
(* digits are not demanded - only that the text denotes the number and that  *)
(* decoding returns the number; padding is the business of the user):        *)
TextDenotes(text, bytes) == IsText(text) /\ Canon(text) = Enc(bytes)
BytesDenote(back, bytes) == IsBytes(back) /\ StripZeros(back) = StripZeros(bytes)
=============================================================================
