//! C03 (node level): the replay window on whole nodes.
//! `node c03 <tier> <trace>`: 2-3 real mock-backed nodes in switch mode exchange frames for up to 100 s (below the
//! first key rotation); every sealed datagram a node emits (payload, node information, the first rotation message) is
//! a `seal` event of its direction, every housekeeping round of the receiving node a `tick`, every arrival a
//! `deliver` with the observed decision (did the datagram open: classified result of the node's dispatch); captured
//! datagrams are re-injected from their original source k = 0..5 housekeeping rounds after their first delivery, and
//! some datagrams are delayed by up to 3 s so that deliveries reorder relative to ticks.  One trace per direction in
//! the vocabulary of Trace_NonceWindow (counters relative to the first visible datagram of the direction).
use super::node::*;
use super::util::*;
use crate::payload::Frame;
use crate::types::Mode;
use crate::util::MockTimeSource;
use rand::Rng;
use serde_json::{json, Value};
use std::collections::HashMap;

fn sealed_header(bytes: &[u8]) -> Option<(u8, u64)> {
    if bytes.len() < 8 + 16 || bytes[0] > 3 {
        return None;
    }
    let mut c = 0u64;
    for b in &bytes[1..8] {
        c = (c << 8) | *b as u64;
    }
    Some((bytes[0], c))
}

struct Dir {
    base: Option<u64>,
    ev: Vec<Value>,
    seals: u64,
    delivers: u64,
    rejected: u64,
}

fn one(run: u64, stream: u64, secs: i64) -> (Vec<Value>, u64, u64, u64, u64) {
    let mut rng = rng(stream);
    let mut sim: Sim<Frame> = Sim::new(stream);
    sim.max_trace = 1;
    sim.trace_on(); // (only for the classified results of the dispatch; the event lines are not kept)
    let n = 2 + (run % 2) as usize;
    let mut cfg = base_config(Mode::Switch);
    cfg.keepalive = Some([1, 3, 10][(run % 3) as usize]);
    for _ in 0..n {
        sim.add_node(false, &cfg);
    }
    let mut dirs: HashMap<(u16, u16), Dir> = HashMap::new();
    // bookkeeping shared by every driver call
    fn note_sent(dirs: &mut HashMap<(u16, u16), Dir>, sent: &[Dgram]) {
        for d in sent {
            if d.tag == "init" || d.tag == "empty" || d.tag == "?" || d.tag.is_empty() {
                continue;
            }
            if let Some((kid, ctr)) = sealed_header(&d.bytes) {
                let dir = dirs.entry((d.from, d.to.port())).or_insert(Dir { base: None, ev: vec![], seals: 0, delivers: 0, rejected: 0 });
                if dir.base.is_none() {
                    dir.base = Some(ctr - 1);
                }
                let rel = ctr.wrapping_sub(dir.base.unwrap());
                let prev = dir.ev.iter().rev().find(|e| e["op"] == "seal").map(|e| e["ctr"].as_u64().unwrap()).unwrap_or(0);
                dir.seals += 1;
                dir.ev.push(json!({"op":"seal","keyid":kid,"slot":kid,"gen":0,"ctr":rel,"delta":rel.wrapping_sub(prev)}));
            }
        }
    }
    for i in 1..n {
        let a = sim.nodes[0].addr;
        let r = sim.connect(i, a);
        note_sent(&mut dirs, &r.sent);
    }
    let mut replays = 0u64;
    let mut handle_deliveries = |sim: &mut Sim<Frame>, dirs: &mut HashMap<(u16, u16), Dir>, rng: &mut rand::rngs::StdRng, replays: &mut u64| {
        loop {
            let ds = sim.deliver_due();
            if ds.is_empty() {
                break;
            }
            for (info, res) in &ds {
                note_sent(dirs, &res.sent);
                let from = info.src.port();
                if let Some((kid, ctr)) = info.head.as_ref().and_then(|h| sealed_header_prefix(h, info.len)) {
                    // the window decides only where the datagram reaches the crypto core of an established peer entry (a
                    // node that has not completed the handshake yet refuses sealed datagrams for want of a key)
                    let established = sim.shape((info.to - 1) as usize).0.contains(&from);
                    if let Some(dir) = dirs.get_mut(&(from, info.to)) {
                        if !established {
                            dir.ev.push(json!({"op":"skip","why":"no established peer entry"}));
                        } else if dir.base.map(|b| ctr <= b).unwrap_or(true) {
                            dir.ev.push(json!({"op":"skip","why":"sealed before the recording started"}));
                        } else if let Some(base) = dir.base {
                            let class = sim.result_class(res);
                            let acc = matches!(class.as_str(), "data" | "nodeinfo" | "keepalive" | "close" | "none");
                            dir.delivers += 1;
                            if !acc {
                                dir.rejected += 1;
                            }
                            dir.ev.push(json!({"op":"deliver","slot":kid,"gen":0,"ctr":ctr.wrapping_sub(base),"acc":acc,"res":class,"wrote":res.iface.len()}));
                            // first deliveries of payload are captured and re-injected k rounds later
                            if info.id != 0 && class == "data" && rng.gen_bool(0.35) {
                                if let Some(d) = sim.wire.iter().rev().find(|d| d.id == info.id).cloned() {
                                    for k in 0..=5i64 {
                                        if rng.gen_bool(0.5) {
                                            *replays += 1;
                                            let due = sim.now + k;
                                            sim.inject_copy((info.to - 1) as usize, info.src, &d, due);
                                        }
                                    }
                                }
                            }
                        }
                    }
                }
            }
        }
    };
    handle_deliveries(&mut sim, &mut dirs, &mut rng, &mut replays);
    // warm-up on a reliable network until every pair has ONE settled session (full mesh, no handshake pending for three
    // rounds): while two nodes that dialled each other are still completing different attempts, datagrams sealed for
    // the attempt that loses are refused for want of the key, not by the window.  Recording starts afterwards.
    let mut calm = 0;
    for _ in 0..60 {
        sim.tick();
        let pending: usize = (0..n).map(|i| sim.shape(i).1.len()).sum();
        if sim.full_mesh() && pending == 0 {
            calm += 1;
            if calm >= 3 {
                break;
            }
        } else {
            calm = 0;
        }
    }
    dirs.clear();
    replays = 0;
    sim.queue.retain(|m| m.id != 0); // replays scheduled during the warm-up are dropped
    sim.faults.p_delay = 0.15;
    sim.faults.max_delay = 3;
    let mut fno = 0u8;
    for t_rel in 0..secs {
        sim.now += 1;
        MockTimeSource::set_time(sim.now);
        for i in 0..n {
            let r = sim.housekeep(i);
            // the housekeeping of node i is the tick of every direction INTO node i
            for ((_, to), dir) in dirs.iter_mut() {
                if *to == i as u16 + 1 {
                    dir.ev.push(json!({"op":"tick"}));
                }
            }
            note_sent(&mut dirs, &r.sent);
        }
        handle_deliveries(&mut sim, &mut dirs, &mut rng, &mut replays);
        // in every second run an outsider replays a captured handshake ping from its original source now and then: the
        // receiver then holds a (doomed) pending handshake next to the established peer entry of that address - the
        // window of the established connection must go on ticking
        if run % 2 == 1 && (t_rel == 8 || t_rel % 37 == 20) {
            let pings: Vec<Dgram> = sim.wire.iter().filter(|d| d.bytes.first() == Some(&0xff) && d.bytes.get(12) == Some(&1)).cloned().collect();
            for d in pings.iter().take(4) {
                if let Some(to) = sim.idx_of(&d.to) {
                    sim.inject_later(to, addr_of(d.from), d.bytes.clone(), sim.now);
                }
            }
            handle_deliveries(&mut sim, &mut dirs, &mut rng, &mut replays);
        }
        for _ in 0..rng.gen_range(0..4) {
            let i = rng.gen_range(0..n);
            fno = fno.wrapping_add(1);
            let dst = if rng.gen_bool(0.3) { [0xff; 6] } else { mac(10 + rng.gen_range(0..n) as u8) };
            let r = sim.iface(i, &eth_frame(dst, mac(10 + i as u8), None, &[fno, 1, 2, 3, 4, 5, 6, 7]));
            note_sent(&mut dirs, &r.sent);
            if rng.gen_bool(0.5) {
                handle_deliveries(&mut sim, &mut dirs, &mut rng, &mut replays);
            }
        }
        handle_deliveries(&mut sim, &mut dirs, &mut rng, &mut replays);
    }
    let panics = sim.total_panics();
    let mut out = vec![];
    let (mut seals, mut delivers, mut rejected) = (0, 0, 0);
    let mut keys: Vec<(u16, u16)> = dirs.keys().copied().collect();
    keys.sort();
    for k in keys {
        let d = dirs.remove(&k).unwrap();
        out.push(json!({"op":"reset","run":run,"from":k.0,"to":k.1,"panics":panics}));
        seals += d.seals;
        delivers += d.delivers;
        rejected += d.rejected;
        out.extend(d.ev);
    }
    (out, seals, delivers, rejected, replays)
}

/// key id and counter from the first bytes of a datagram of total length `len`
fn sealed_header_prefix(head: &[u8], len: usize) -> Option<(u8, u64)> {
    if len < 8 + 16 || head.len() < 8 || head[0] > 3 {
        return None;
    }
    let mut c = 0u64;
    for b in &head[1..8] {
        c = (c << 8) | *b as u64;
    }
    Some((head[0], c))
}

pub fn run(tier: &str, out_path: &str) -> Value {
    let (runs, secs): (u64, i64) = if tier == "quick" { (24, 60) } else { (600, 100) };
    let ids: Vec<u64> = (0..runs).collect();
    let results = parallel_map(&ids, |_, k| one(*k, 33000 + *k + seed() * 100000, secs));
    let mut t = Trace::create(out_path);
    let (mut seals, mut delivers, mut rejected, mut replays) = (0, 0, 0, 0);
    for (evs, s, d, r, p) in results {
        seals += s;
        delivers += d;
        rejected += r;
        replays += p;
        for e in evs {
            t.ev(e);
        }
    }
    let events = t.finish();
    json!({"runs": runs, "steps": delivers, "events": events, "seals": seals, "delivers": delivers, "rejected": rejected, "replays": replays})
}
