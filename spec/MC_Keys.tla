------------------------------- MODULE MC_Keys -------------------------------
(* Design run of C18: every seed class (0..MaxZeros leading zero bytes in the private seed and in the public key, two
   representatives per class: smallest and largest first non-zero byte) x every role, with real 32-byte keys and the
   real text codec; plus the password part on two nodes. *)
EXTENDS Keys, TLC
CONSTANTS MaxZeros

MCKeyOf == [p \in Passwords |-> CHOOSE i \in 1..3 : p = <<"p1", "p2", "p3">>[i]]

\* representative key: z leading zero bytes, then `first`, then a fixed non-zero pattern
Rep(z, first, salt) == [i \in 1..KeyWidth |-> IF i <= z THEN 0 ELSE IF i = z + 1 THEN first ELSE ((i * 37 + salt * 11) % 255) + 1]
Reps(salt) == {Rep(z, f, salt) : z \in 0..MaxZeros, f \in {1, 255}}

GenKey == \A n \in Nodes : nodePw[n] = None   \* the two parts of the model are independent: do not multiply them
          /\ \E p \in Reps(1), q \in Reps(2) : GenKeyBytes(p, q)

Next == \/ GenKey \/ PrintKeys \/ (\E r \in Roles : Configure(r)) \/ Use \/ Again \/ Done
        \/ \E n \in Nodes, p \in Passwords : Derive(n, p)
Spec == Init /\ [][Next]_vars

\* with Padded = FALSE (MC_KeysUnpadded.cfg) exactly the keys with a leading zero byte are refused
UnpaddedRefusesLeadingZero ==
  stage \in {"configured", "used"} =>
     (cfg.ok <=> CASE role = "priv" -> priv[1] # 0
                   [] role = "privpub" -> priv[1] # 0 /\ pub[1] # 0
                   [] role = "trusted" -> pub[1] # 0
                   [] role = "sharedown" -> priv[1] # 0 /\ pub[1] # 0)
=============================================================================
