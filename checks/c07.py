"""C07 - key rotation never strands traffic and keeps keys fresh.

Design level: Rotation.tla (SealKeyHeldByPeer for every loss/duplication/reordering/delay and relative timing),
RotationFresh.tla (key changes every two rounds on a delivering network), RotationRecover.tla (a lost message only
postpones the next change).  Spec -> impl: every transition of the exhaustive graph (ids <= 5) is executed on real
PeerCrypto pairs after a real handshake (one cycle = 120 real every_second calls, real sealed rotation datagrams).
Impl -> spec: TLC validates the recorded runs and per-second random runs (loss/dup/delay, then reliable) against
Trace_Rotation: emission per cycle, key id in use, identical key material at the peer, every probe opens, freshness."""
import os
import vplib as V

PID = "C07"


def classify(bad):
    if bad is None:
        return "rotation|?"
    op = bad.get("op")
    if op == "probe":
        return "rotation|probe|ok=%s" % bad.get("ok")
    if op in ("ticks", "recv"):
        ag = bad.get("agree", {})
        return "rotation|%s|agree=%s%s" % (op, ag.get("A"), ag.get("B"))
    return "rotation|%s" % op


def run(tier, out):
    wd = V.workdir(PID)
    quick = tier == "quick"
    V.build_harness()
    designs = []
    d = V.tlc_design("MC_Rotation.tla", "MC_Rotation_edges.cfg", PID, workers=8)
    designs.append(("MC_Rotation_edges", d))
    edges = V.tlc_lines(d.out, "EDGE")
    f = V.tlc_design("MC_RotationFresh.tla", "MC_RotationFresh.cfg", PID, workers=2)
    designs.append(("MC_RotationFresh", f))
    if not quick:
        designs.append(("MC_Rotation", V.tlc_design("MC_Rotation.tla", "MC_Rotation.cfg", PID, workers=12, timeout=1200)))
        # the exhaustive run of RotationRecover does not finish (> 240 M states for the smallest useful constants): the
        # thorough tier samples it - random behaviours under TLC's simulation mode, both invariants checked on every state
        rr = V.tlc("RotationRecover.tla", "RotationRecover_4.cfg", PID, workers=8, timeout=1500, xmx="8g", keep_out=True,
                   extra=["-simulate", "num=20000", "-depth", "300"], sub="sim")
        if not rr.invariant_violated and "Error" in rr.out and "violated" not in rr.out and "states generated" not in rr.out:
            V.log(rr.out[-2000:])
            raise V.ToolError("TLC simulation of RotationRecover failed")
        designs.append(("RotationRecover (simulation: 20000 behaviours of depth 300)", rr))
    for name, r in designs:
        if r.invariant_violated or r.property_violated:
            out.violation("design|%s|%s" % (name, ",".join(r.invariant_violated or ["property"])),
                          "the rotation design violates its property in %s" % name, {"tlc": r.out[-3000:]})
    scheds = V.cover_schedules(edges, maxlen=40)
    sp = os.path.join(wd, "sched.ndjson")
    V.write_ndjson(sp, scheds)
    runs = []
    t1 = os.path.join(wd, "trace_sched_end.ndjson")
    runs.append(("schedules, probes at end", t1, V.harness_json(["rot", "sched", sp, t1, "end"])))
    if not quick:
        t2 = os.path.join(wd, "trace_sched_each.ndjson")
        runs.append(("schedules, probes after every step", t2, V.harness_json(["rot", "sched", sp, t2, "each"])))
    t3 = os.path.join(wd, "trace_random.ndjson")
    nrand, secs = (9, 1500) if quick else (60, 2400)
    runs.append(("random per-second runs", t3, V.harness_json(["rot", "random", nrand, secs, t3])))
    validated = 0
    evals = 0
    for name, path, summ in runs:
        evals += summ["steps"]
        v = V.tlc_trace("Trace_Rotation.tla", "Trace_Rotation.cfg", PID, path, summ["events"], sub="trace", xmx="6g")
        if v.accepted:
            validated += summ["runs"]
        else:
            evs = V.read_ndjson(path)
            bad = evs[v.matched] if v.matched < len(evs) else None
            start = max(i for i in range(min(v.matched, len(evs) - 1) + 1) if evs[i]["op"] == "reset")
            out.violation(classify(bad) if "invariant" not in (v.reason or "") else "rotation|" + v.reason.split()[1],
                          "real PeerCrypto pair deviates from Rotation.tla (%s): %s; event %s" % (name, v.reason, bad),
                          {"driver": name, "trace_run_tail": evs[max(start, v.matched - 60):v.matched + 1]})
    st_desc = V.binding_selftest(out, PID, "Trace_Rotation.tla", "Trace_Rotation.cfg", t1, runs[0][2]["events"],
                                 lambda e: e["op"] == "recv" and e["acc"] and e["cur"]["B"] != 0,
                                 lambda e: e["cur"].__setitem__("B", (e["cur"]["B"] + 1) % 4), "altered key id", xmx="6g")
    cov = {
        "states": sum(r.distinct for _, r in designs), "transitions": sum(r.generated for _, r in designs),
        "design_runs": {n: {"distinct": r.distinct, "generated": r.generated, "depth": r.depth} for n, r in designs},
        "traces_validated_against_impl": validated,
        "samples": [{"schedule": scheds[len(scheds) // 3]}, {"trace_excerpt": V.read_ndjson(t1)[:6]}],
        "evaluations": evals, "distinct_nontrivial": len(edges),
        "rule": "every transition of the exhaustive graph of Rotation (ids<=5, 3 in flight, dup/drop/reorder) executed on real PeerCrypto pairs "
                "(120 every_second calls per cycle); %d random runs of %d s with loss/duplication/delay then reliable delivery; "
                "distinct = exported transitions" % (nrand, secs),
        "window_refused_deliveries": runs[0][2].get("window_refused"),
        "self_test": st_desc,
    }
    return out.finish("model_checking", cov, assumptions=[
        "ECDH/AEAD are perfect: equal key material <=> equal fingerprint (tag of an empty seal under a nonce the protocol never uses)",
        "rotation interval is 120 every_second calls (ROTATE_INTERVAL); freshness bound 2 intervals + 2 s on a delivering network, "
        "6 intervals + 2 s after a lossy phase (RotationRecover.tla)"])
