---------------------------- MODULE MC_Interval ----------------------------
(* design run: the interval rule satisfies IntervalOK for every advertised timeout x the grid of own settings *)
EXTENDS Interval, Integers, TLC
CONSTANTS MaxAdv
Grid == {0, 1, 59, 60, 119, 120, 121, 300, 65535}
Kas == {-1, 0, 1, 59, 121, 65535}
VARIABLES own, ka, adv
MCInit == own \in Grid /\ ka \in Kas /\ adv \in (0..MaxAdv) \cup {32767, 32768, 65534, 65535}
MCNext == UNCHANGED <<own, ka, adv>>
MCSpec == MCInit /\ [][MCNext]_<<own, ka, adv>>
DesignOK == LET d == Design(own, ka, {adv}) IN
            /\ IntervalOK(d, {adv})
            /\ (adv >= 2 /\ d > 1) => NeverExpires(d, adv - 1)
            /\ d <= 65535
=============================================================================
