//! C04: counter increment, the 56-bit transmission limit, and the seal log of whole connection lifetimes.
//! `nonce families <trace>`: increment on boundary patterns; seals with the counter placed around the limit.
//! `nonce life <connections> <seconds> <trace>`: real handshakes (either side or both initiating), payload in both
//! directions, rotations; every CryptoCore::encrypt is logged by the guarded seal-log hook.
use super::conn::*;
use super::util::*;
use crate::crypto::verif_export::*;
use crate::crypto::{verif_seal_log_start, verif_seal_log_take, MessageResult};
use crate::util::MsgBuffer;
use rand::Rng;
use serde_json::{json, Value};

fn arr(b: &[u8]) -> Value {
    Value::Array(b.iter().map(|x| json!(*x)).collect())
}

pub fn families(out_path: &str) -> Value {
    let mut t = Trace::create(out_path);
    let mut rng = rng(11);
    let mut n_inc = 0u64;
    // increment: k trailing 0xff bytes (k = 0..=12), preceded by 0x00 / 0x7f / 0xfe / random, random head; both halves
    for k in 0..=12usize {
        for pre in [0x00u8, 0x7f, 0xfe, 0x80, 0x01] {
            for half in [0x00u8, 0x80, 0xff, 0x7f] {
                for _ in 0..3 {
                    let mut v = [0u8; 12];
                    rng.fill(&mut v);
                    v[0] = half;
                    for i in 0..k {
                        v[11 - i] = 0xff;
                    }
                    if k < 12 {
                        v[11 - k] = pre;
                    }
                    if k == 12 {
                        v = [0xff; 12];
                    }
                    let o = verif_nonce_increment(v);
                    t.ev(json!({"op":"inc","in":arr(&v),"out":arr(&o)}));
                    n_inc += 1;
                }
            }
        }
    }
    // around the 56-bit limit and at carries into the untransmitted bytes
    let mut n_seal = 0u64;
    for (ai, algo) in ALGOS.iter().enumerate() {
        let _ = ai;
        let starts: Vec<[u8; 12]> = {
            let mut s = vec![];
            for half in [0x80u8] {
                // sender of create_dummy_pair seals in half 0x80
                for tail in [0xfdu8, 0xfe, 0xff] {
                    s.push([half, 0, 0, 0, 0, 0xff, 0xff, 0xff, 0xff, 0xff, 0xff, tail]); // crosses 2^56
                    s.push([half, 0, 0, 0, 0, 0x00, 0xff, 0xff, 0xff, 0xff, 0xff, tail]); // carry inside the wire part
                    s.push([half, 0, 0, 0, 0, 0x12, 0x00, 0x00, 0x00, 0x00, 0xff, tail]);
                    s.push([half, 0, 0, 0, 1, 0xff, 0xff, 0xff, 0xff, 0xff, 0xff, tail]); // already beyond
                    s.push([half, 0, 0, 1, 0, 0x00, 0x00, 0x00, 0x00, 0x00, 0x00, tail]);
                    s.push([half, 0xff, 0xff, 0xff, 0xff, 0xff, 0xff, 0xff, 0xff, 0xff, 0xff, tail]); // would wrap the half
                }
            }
            s
        };
        for st in starts {
            let (mut s, mut r) = create_dummy_pair(algo);
            s.verif_set_send_nonce(0, st);
            verif_seal_log_start();
            for i in 0..5u8 {
                let mut b = MsgBuffer::new(8);
                b.clone_from(&[i; 16]);
                s.encrypt(&mut b);
                let dgram = b.message().to_vec();
                let log = verif_seal_log_take();
                let nonce = log.last().map(|e| e.1).unwrap_or([0; 12]);
                let opened = match guarded(|| r.decrypt(&mut b)) {
                    Ok(Ok(())) => b.message() == &[i; 16][..],
                    _ => false,
                };
                t.ev(json!({"op":"sealat","nonce":arr(&nonce),"wire":arr(&dgram[1..8]),"opened":opened,"half":128}));
                n_seal += 1;
            }
        }
    }
    let events = t.finish();
    json!({"runs": 1, "steps": n_inc + n_seal, "events": events, "inc": n_inc, "sealat": n_seal})
}

thread_local! {
    /// last counter value (low 7 bytes of the nonce) per (end, key) of the current connection
    static LAST: std::cell::RefCell<std::collections::HashMap<(String, String), u64>> = Default::default();
}

fn low56(n: &[u8; 12]) -> u64 {
    let mut v = 0u64;
    for b in &n[5..] {
        v = (v << 8) | *b as u64;
    }
    v
}

fn drain_log(end: &str, t: &mut Trace, n: &mut u64) {
    for (fp, nonce) in verif_seal_log_take() {
        *n += 1;
        let key = hex(&fp);
        // "a rotated-in key starts a fresh sequence": the first counter of a key must not continue (lie within 2^24 of)
        // any counter this end used under another key of the connection
        let v = low56(&nonce);
        let fresh = LAST.with(|l| {
            let mut l = l.borrow_mut();
            let first = !l.contains_key(&(end.to_string(), key.clone()));
            let near = first && l.iter().any(|((e, k), last)| e == end && *k != key && (v as i128 - *last as i128).abs() < (1 << 24));
            l.insert((end.to_string(), key.clone()), v);
            !near
        });
        t.ev(json!({"op":"seal","end":end,"key":key,"nonce":arr(&nonce),"fresh":fresh}));
    }
}

pub fn life(conns: u64, seconds: u64, out_path: &str) -> Value {
    set_speeds([600.0, 500.0, 400.0]);
    let mut t = Trace::create(out_path);
    let mut rng = rng(12);
    let mut seals = 0u64;
    let mut steps = 0u64;
    let mut modes = std::collections::BTreeMap::new();
    for c in 0..conns {
        let crypto = [pw_crypto(1, "pw"), pw_crypto(2, "pw")];
        let mode = ["A", "B", "both"][(c % 3) as usize];
        t.ev(json!({"op":"reset","run":c + 1,"mode":mode}));
        LAST.with(|l| l.borrow_mut().clear());
        verif_seal_log_start();
        let names = ["A", "B"];
        let hs = {
            let tr = &mut t;
            let sl = &mut seals;
            handshake_mode(&crypto, mode, |i| drain_log(names[i], tr, sl))
        };
        let (a, b, rest) = match hs {
            Some(x) => x,
            None => continue,
        };
        *modes.entry(mode).or_insert(0u64) += 1;
        let mut ends = [a, b];
        let mut queue: Vec<(usize, Vec<u8>)> = rest;
        for _sec in 0..seconds {
            // deliver what is in flight
            for (to, bytes) in queue.drain(..).collect::<Vec<_>>() {
                steps += 1;
                let o = feed(&mut ends[to], &bytes);
                drain_log(names[to], &mut t, &mut seals);
                if let Ok(MessageResult::Reply) = o.res {
                    queue.push((1 - to, o.out));
                }
            }
            for i in 0..2 {
                steps += 1;
                let o = tick(&mut ends[i]);
                drain_log(names[i], &mut t, &mut seals);
                if !o.out.is_empty() {
                    queue.push((1 - i, o.out));
                }
            }
            for i in 0..2 {
                let k = rng.gen_range(0..3);
                for _ in 0..k {
                    steps += 1;
                    let d = seal_data(&mut ends[i], b"payload-payload-payload");
                    drain_log(names[i], &mut t, &mut seals);
                    let (x, y) = ends.split_at_mut(1);
                    let to = if i == 0 { &mut y[0] } else { &mut x[0] };
                    open_data(to, &d);
                }
            }
        }
    }
    let events = t.finish();
    json!({"runs": conns, "steps": steps, "events": events, "seals": seals, "modes": modes})
}
