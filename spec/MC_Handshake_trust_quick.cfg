SPECIFICATION MCSpec
CONSTANTS MAX_RETRIES = 3
          CLOSE_TIME = 2
          Objs <- MCObjs
          Attr <- MCAttr
          MaxGen = 4
          MaxNet = 3
          RankHigh = "A"
          TrustMode = "all"
          WithBad = TRUE
          AlgoMode = "normal"
INVARIANT TickManyOK
INVARIANT Agreement
INVARIANT AtMostOnce
INVARIANT HalvesDisjoint
INVARIANT CipherOK
INVARIANT AuthOnly
INVARIANT MutualTrust
PROPERTY BadChangesNothing
VIEW View
CHECK_DEADLOCK FALSE
CONSTRAINT Bound
