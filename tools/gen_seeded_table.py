#!/usr/bin/env python3
"""Rewrites the table between <!-- SEEDED-BEGIN --> and <!-- SEEDED-END --> in DESIGN.md from seeded/*/meta.json and
seeded/RESULTS.md (last result per seeded change wins)."""
import json, os, re, glob
ROOT = os.path.dirname(os.path.dirname(os.path.abspath(__file__)))
res = {}
p = os.path.join(ROOT, "seeded", "RESULTS.md")
if os.path.exists(p):
    for line in open(p):
        m = re.match(r"\| (\S+) \| (C\d+) \| ([^|]+) \| (.*?) \| (.*) \|$", line.strip())
        if m:
            res[m.group(1)] = (m.group(3).strip(), m.group(5).strip())
rows = []
for d in sorted(glob.glob(os.path.join(ROOT, "seeded", "*", "meta.json"))):
    name = os.path.basename(os.path.dirname(d))
    m = json.load(open(d))
    r = res.get(name, ("not run", ""))
    sigs = re.findall(r"VIOLATION ([^(]*)\(", r[1])
    sig = "; ".join(s.strip() for s in sigs)[:160]
    rows.append("| `%s` | %s | %s | %s | %s | %s |" % (name, m["property"], m.get("summary", "").replace("|", "/")[:230], str(m.get("needs", "")).replace("|", "/")[:200], r[0], sig.replace("|", "\\|")))
table = "| seeded change | property | what it does | what it needs to manifest | result | signature reported |\n|---|---|---|---|---|---|\n" + "\n".join(rows)
dp = os.path.join(ROOT, "DESIGN.md")
s = open(dp).read()
if "<!-- SEEDED-BEGIN -->" in s:
    s = re.sub(r"<!-- SEEDED-BEGIN -->.*<!-- SEEDED-END -->", "<!-- SEEDED-BEGIN -->\n" + table + "\n<!-- SEEDED-END -->", s, flags=re.S)
    open(dp, "w").write(s)
print(len(rows), "rows;", sum(1 for n in res.values() if n[0].startswith("caught")), "caught")
