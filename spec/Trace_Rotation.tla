---------------------------- MODULE Trace_Rotation ----------------------------
(* Trace validation for Rotation: events recorded from real PeerCrypto pairs (after a real handshake) must be steps of
   Rotation's own actions.  Gating observations: whether a cycle emitted a rotation message, the key id each end seals
   with (cur), whether the peer holds identical key material under that id (agree), and that every probe datagram
   opens.  The rotate counter (one cycle per ROTATE_INTERVAL calls of every_second) and the freshness clock are
   trace-level additions.  Rotation messages are referred to by emission index k (sentSeq[k]). *)
EXTENDS Rotation, Integers, TLC, Json, IOUtils

CONSTANTS ROTATE_INTERVAL, FreshBound, RecoverBound

Rec == ndJsonDeserialize(IOEnv.TRACE)
N == Len(Rec)
VARIABLES l, ctr, now, lastChg, relSince, bound
tvars == <<vars, l, ctr, now, lastChg, relSince, bound>>

AuxInit == /\ ctr = [p \in Ends |-> 0] /\ now = 0 /\ lastChg = [p \in Ends |-> 0] /\ relSince = -1 /\ bound = 0
TraceInit == Init /\ l = 1 /\ AuxInit

ResetAll ==
  /\ gen' = [p \in Ends |-> IF p = "B" THEN 1 ELSE 0]
  /\ msgId' = [p \in Ends |-> IF p = "B" THEN 1 ELSE 0]
  /\ proposed' = [p \in Ends |-> IF p = "B" THEN <<"B", 1>> ELSE None]
  /\ pending' = [p \in Ends |-> None]
  /\ confirmed' = [p \in Ends |-> None]
  /\ tmo' = [p \in Ends |-> FALSE]
  /\ slots' = [p \in Ends |-> [i \in 0..3 |-> IF i = 0 THEN Master ELSE {<<"dummy", p, i>>}]]
  /\ cur' = [p \in Ends |-> 0]
  /\ net' = {FirstMsg}
  /\ sentSeq' = <<FirstMsg>>
  /\ ctr' = [p \in Ends |-> 0] /\ now' = 0 /\ lastChg' = [p \in Ends |-> 0] /\ relSince' = -1 /\ bound' = 0

\* observation logged after the step: key id in use and key agreement, per end
Obs(e) == \A p \in Ends : /\ e.cur[p] = cur'[p]
                          /\ e.agree[p] = (slots'[p][cur'[p]] = slots'[Other(p)][cur'[p]])
Chg == lastChg' = [p \in Ends |-> IF cur'[p] # cur[p] THEN now ELSE lastChg[p]]

\* n calls of every_second at end p (n <= ROTATE_INTERVAL): at most one cycle falls into them
Ticks(e) ==
  LET c == ctr[e.p] + e.n IN
  /\ e.n <= ROTATE_INTERVAL
  /\ IF c >= ROTATE_INTERVAL
     THEN /\ Cycle(e.p)
          /\ e.emitted = CycleEmits(e.p)
          /\ e.emitted => e.k = Len(sentSeq')
          /\ ctr' = [ctr EXCEPT ![e.p] = c - ROTATE_INTERVAL]
     ELSE /\ UNCHANGED vars /\ e.emitted = FALSE
          /\ ctr' = [ctr EXCEPT ![e.p] = c]
  /\ Obs(e) /\ Chg /\ UNCHANGED <<now, relSince, bound>>

\* delivery of the k-th emitted rotation datagram; acc = FALSE: the replay window (or AEAD) refused it - nothing happens
RecvEv(e) ==
  /\ e.k \in 1..Len(sentSeq) /\ sentSeq[e.k].to = e.p
  /\ IF e.acc THEN RecvMsg(e.p, sentSeq[e.k]) ELSE UNCHANGED vars
  /\ Obs(e) /\ Chg /\ UNCHANGED <<ctr, now, relSince, bound>>

Step(e) ==
  CASE e.op = "reset"    -> ResetAll
    [] e.op = "ticks"    -> Ticks(e)
    [] e.op = "recv"     -> RecvEv(e)
    [] e.op = "probe"    -> /\ e.ok = TRUE                     \* fresh payload always opens at the peer
                            /\ e.keyid = cur[e.from]           \* key id byte on the wire = slot the sender seals with
                            /\ UNCHANGED <<vars, ctr, now, lastChg, relSince, bound>>
    [] e.op = "time"     -> now' = e.t /\ UNCHANGED <<vars, ctr, lastChg, relSince, bound>>
    [] e.op = "reliable" -> /\ relSince' = e.t
                            /\ bound' = IF e.t = 0 THEN FreshBound ELSE RecoverBound
                            /\ UNCHANGED <<vars, ctr, now, lastChg>>
    [] e.op = "skip"     -> UNCHANGED <<vars, ctr, now, lastChg, relSince, bound>>
    [] OTHER -> FALSE

TraceNext == /\ l <= N /\ l' = l + 1 /\ Step(Rec[l])
TraceSpec == TraceInit /\ [][TraceNext]_tvars

Max2(a, b) == IF a > b THEN a ELSE b
\* freshness: while rotation messages get through, each direction's key id changes within the bound
FreshInTrace == relSince >= 0 => \A p \in Ends : now - Max2(lastChg[p], relSince) <= bound

Accepted == IF TLCGet("stats").diameter - 1 = N THEN TRUE
            ELSE Print(<<"REJECTED", TLCGet("stats").diameter, Rec[TLCGet("stats").diameter]>>, FALSE)
=============================================================================
