INIT Init
NEXT Next
CONSTANTS MaxLen = 3
INVARIANT GreedyOK
CHECK_DEADLOCK FALSE
