SPECIFICATION RSpec
CONSTANTS LossyMaxId = 3
          MaxNet = 3
          MaxRounds = 7
          RecoverRounds = 6
INVARIANT Recovers
INVARIANT Safe
CONSTRAINT Bound
VIEW View
CHECK_DEADLOCK FALSE
