---------------------------- MODULE Trace_NodeRuns ----------------------------
(* Judgement of recorded runs of real mock-backed nodes (GenericCloud with MockSocket/MockDevice/MockTimeSource under
   the harness's network).  Each record summarises one run of a systematic plan; the formulas below are the node-level
   properties (Node.tla: NoLoss, StaysConnected, BadIsStutter; conservation; deadlines) instantiated for the record. *)
EXTENDS Integers, Sequences, FiniteSets, TLC, Json, IOUtils

Rec == ndJsonDeserialize(IOEnv.TRACE)
N == Len(Rec)
VARIABLE l

\* C09 (Node.tla NoLoss / StaysConnected on real nodes): after the injection of a replayed or forged datagram every probe
\* frame of the following 400 s is delivered exactly once to its destination, both ends stay connected, the learned
\* routes stay, nothing panics.  The only admissible extra delivery is the in-window duplicate bounded by C03: a
\* verbatim sealed datagram from its original source, re-injected at most two housekeeping ticks after it was sent.
C09RunOK(e) ==
  /\ e.healthy0 /\ e.final_mesh
  /\ e.panics = 0
  /\ e.missing = 0 /\ e.wrong = 0
  /\ e.lost_conn_ticks = 0 /\ e.route_loss = 0
  /\ e.delivered = e.sent
  /\ e.extra <= (IF e.edit = 0 /\ e.kind = "sealed" /\ e.src = 0 /\ e.age + e.offset <= 2 THEN 1 ELSE 0)

Step(e) ==
  CASE e.op = "c09run"  -> C09RunOK(e)
    [] e.op = "c09skip" -> TRUE
    [] OTHER -> FALSE

Init == l = 1
Next == l <= N /\ l' = l + 1 /\ Step(Rec[l])
Spec == Init /\ [][Next]_l
Accepted == IF TLCGet("stats").diameter - 1 = N THEN TRUE
            ELSE Print(<<"REJECTED", TLCGet("stats").diameter, Rec[TLCGet("stats").diameter]>>, FALSE)
=============================================================================
