------------------------------ MODULE MC_Cloud ------------------------------
(* Cloud.tla closed with an environment: a few nodes, a network that delivers the datagrams of a tick in any order,
   the three-message handshake reduced to its effect on the node tables (HsObj.tla / Handshake.tla decide its
   internals), optional silence of one node.  The next-state functions are the ones Trace_Cloud.tla compares real
   nodes with; here TLC explores every delivery order and checks the node-level statements of C12, C14 and C15:

     NextHopsArePeers, ClaimsAreLastAnnouncement   (C12)   no claim points at a non-peer; a peer's claims are its announcement
     NoSelfPeer, OwnNeverDialled, FullMeshBy       (C14)   nobody lists itself; connected bootstrap => full mesh by the deadline
     HealthyNeverTimedOut, SilentTimedOut          (C15)   stable membership on a delivering network: no peer is removed;
                                                           a silent node is gone from every table T+1 ticks after its last word
   Timer constants of Cloud.tla are overridden with small values in the configuration files. *)
EXTENDS Cloud, TLC, SequencesExt

CONSTANTS DataPlane,    \* "off" | "router" | "switch": interface frames and payload datagrams are part of the run
          N,            \* nodes 1..N (address of node n is n)
          MaxTime,      \* ticks explored
          Silent,       \* a node that may fall silent or crash and restart (0: nobody)
          FaultKind,    \* "silent" | "restart" | "lossy" (any datagram may be lost, at most MaxLoss of them)
          DialKind      \* "connect": one-shot dials, "reconnect": configured peers
Nodes == 1..N

\* configurations: heterogeneous timeouts, one claim per node; bootstrap: node n dials node n-1 (a path)
TOf(n) == IF n = 1 THEN 3 ELSE IF n = 2 THEN 5 ELSE 4
Cfg(n) == [self |-> n, nid |-> <<n, 0>>, T |-> TOf(n), ka |-> -1, adv |-> {}, key |-> "k", trusted |-> {"k"},
           claims |-> IF DataPlane = "switch" THEN <<>> ELSE <<"r" \o ToString(n)>>, plain |-> FALSE,
           learn |-> DataPlane = "switch", bc |-> DataPlane = "switch", st |-> 2]
\* data plane: one-byte addresses; node n claims exactly <<n>> (range "r<n>" = <<n>>/8); stations <<11>>, <<12>>, ... sit
\* behind nodes 1, 2, ... in the switch configuration; <<9>> belongs to nobody
RangeBytes(r) == CHOOSE n \in Nodes : r = "r" \o ToString(n)
WithRanges(s) == [s EXCEPT !.cx = {[p |-> x.p, r |-> x.r, exp |-> x.exp, rb |-> <<RangeBytes(x.r)>>, rl |-> 8] : x \in s.claims}]
Dests == IF DataPlane = "switch" THEN {<<10 + n>> : n \in Nodes} ELSE {<<n>> : n \in Nodes} \cup {<<9>>}

VARIABLES now, st, net, turn, silentFrom, lost
vars == <<now, st, net, turn, silentFrom, lost>>
MaxLoss == 3
\* turn: 0 = datagrams are being delivered, n > 0 = node n is the next to do its housekeeping in this tick

Fresh(n) == [peers |-> {}, pend |-> {}, claims |-> {}, cache |-> {}, cx |-> {}, cseq |-> <<>>, own |-> {n}, np |-> 0, nr |-> OWN_RESET,
             rc |-> IF DialKind = "reconnect" /\ n > 1 THEN <<[a |-> <<n - 1>>, tries |-> 0, to |-> 1, next |-> 0]>> ELSE <<>>]

InfoOf(n) == LET s == st[n] IN
  [nid |-> <<n, 0>>, claims |-> Cfg(n).claims, pt |-> TOf(n), addrs |-> SetToSeq(s.own),
   peers |-> SetToSeq({[nid |-> p.nid, hasid |-> TRUE, addrs |-> p.addrs] : p \in s.peers})]
InfoAfter(s, n) ==
  [nid |-> <<n, 0>>, claims |-> Cfg(n).claims, pt |-> TOf(n), addrs |-> SetToSeq(s.own),
   peers |-> SetToSeq({[nid |-> p.nid, hasid |-> TRUE, addrs |-> p.addrs] : p \in s.peers})]
NoInfo == [nid |-> <<0, 0>>, claims |-> <<>>, pt |-> -1, addrs |-> <<>>, peers |-> <<>>]

Msg(from, to, kind, info) == [from |-> from, to |-> to, kind |-> kind, info |-> info]
\* the datagrams a call emits: dials become pings
Pings(from, out, except) == {Msg(from, out[i][1], "ping", NoInfo) : i \in {i \in 1..Len(out) : out[i][2] = "init" /\ out[i][1] \in Nodes /\ out[i][1] # except}}
\* what a silent node sends is lost
Send(from, base, ms) == IF silentFrom > 0 /\ from = Silent /\ FaultKind = "silent" THEN base ELSE base \cup ms

Init == /\ now = 0 /\ net = {} /\ turn = 1 /\ silentFrom = 0 /\ lost = 0
        /\ st = [n \in Nodes |-> IF DialKind = "connect" /\ n > 1 THEN Dial(Fresh(n), n - 1).s ELSE Fresh(n)]

\* ------------------------------------------------------------------ a tick: every node does its housekeeping in turn
Hk(n) ==
  /\ turn = n
  /\ LET h == Housekeep(st[n], Cfg(n), now)
         \* what a pending handshake repeats: an initiator its ping, a responder its pong
         RepeatOf(a) == IF \E q \in h.s.pend : q.a = a /\ q.st = STAGE_PENG
                        THEN Msg(n, a, "pong", InfoAfter(h.s, n)) ELSE Msg(n, a, "ping", NoInfo)
         pings == {RepeatOf(a) : a \in DOMAIN h.inits \cap Nodes}
                    \cup {Msg(n, a, "ping", NoInfo) : a \in {h.rcout[i][1] : i \in 1..Len(h.rcout)} \cap Nodes}
         infos == {Msg(n, a, "info", InfoAfter(h.s, n)) : a \in h.infos \cap Nodes} IN
     /\ st' = [st EXCEPT ![n] = h.s]
     /\ net' = Send(n, net, pings \cup infos)
  /\ turn' = IF n = N THEN 0 ELSE n + 1
  /\ UNCHANGED <<now, silentFrom, lost>>

\* ------------------------------------------------------------------ delivery of one datagram (any order)
Apply(m, d, res, info, reply) ==
  LET r == Recv(st[m], Cfg(m), d.from, d.kind \in {"ping", "pong", "peng"}, res, info, now) IN
  /\ st' = [st EXCEPT ![m] = r.s]
  /\ net' = Send(m, net \ {d}, Pings(m, r.out, d.from) \cup reply)
  /\ UNCHANGED <<now, turn, silentFrom, lost>>

Deliver(d) ==
  /\ turn = 0 /\ d \in net
  /\ LET m == d.to
         s == st[m]
         route == Route(s, d.from, d.kind \in {"ping", "pong", "peng"})
         q == ThePend(s, d.from) IN
     CASE d.kind = "ping" ->
            IF route = "responder" THEN Apply(m, d, "reply", NoInfo, {Msg(m, d.from, "pong", InfoAfter(st[m], m))})
            ELSE IF route = "pending" /\ q.st = STAGE_PONG /\ d.from > m
                 THEN \* simultaneous open: the smaller identity becomes the responder
                      /\ st' = [st EXCEPT ![m].pend = (@ \ {q}) \cup {NewResponder(d.from)}]
                      /\ net' = Send(m, net \ {d}, {Msg(m, d.from, "pong", InfoOf(m))})
                      /\ UNCHANGED <<now, turn, silentFrom, lost>>
            ELSE IF route = "pending" /\ q.st = STAGE_PENG
                 THEN Apply(m, d, "reply", NoInfo, {Msg(m, d.from, "pong", InfoOf(m))})
            ELSE Apply(m, d, "err", NoInfo, {})
       [] d.kind = "pong" ->
            IF route = "pending" /\ q.st = STAGE_PONG
            THEN Apply(m, d, "initialized-reply", d.info, {Msg(m, d.from, "peng", InfoOf(m))})
            ELSE IF route = "peerinit" THEN Apply(m, d, "reply", NoInfo, {Msg(m, d.from, "peng", InfoOf(m))})
            ELSE Apply(m, d, "err", NoInfo, {})
       [] d.kind = "peng" ->
            IF route = "pending" /\ q.st = STAGE_PENG THEN Apply(m, d, "initialized-reply", d.info, {})
            ELSE Apply(m, d, "err", NoInfo, {})
       [] d.kind = "info" ->
            IF route = "peer" THEN Apply(m, d, "nodeinfo", d.info, {}) ELSE Apply(m, d, "ignored", NoInfo, {})
       [] d.kind = "data" ->      \* payload: delivered to the interface by a node that holds the sender as peer; a switch learns
            /\ st' = IF route = "peer"
                     THEN [st EXCEPT ![m].cache = LearnFrom(st[m], Cfg(m), d.from, d.info.fsrc, now)] ELSE st
            /\ net' = net \ {d}
            /\ UNCHANGED <<now, turn, silentFrom, lost>>

\* a frame for destination dst is read from the interface of node n (handle_interface_data)
Frame(n, dst) ==
  /\ DataPlane # "off" /\ turn = 0 /\ net = {} /\ now > 0
  /\ \E o \in IfaceOutcomes(WithRanges(st[n]), Cfg(n), dst, now) :
       /\ st' = [st EXCEPT ![n].cache = o.cache]
       /\ net' = Send(n, net, {[from |-> n, to |-> h, kind |-> "data", info |-> [fsrc |-> <<10 + n>>, fdst |-> dst]] : h \in o.hops \cap Nodes})
  /\ UNCHANGED <<now, turn, silentFrom, lost>>

\* the tick ends when everything is delivered
Tick == /\ turn = 0 /\ net = {} /\ now < MaxTime
        /\ now' = now + 1 /\ turn' = 1
        /\ UNCHANGED <<st, net, silentFrom, lost>>

\* the chosen node falls silent at the start of a tick (everything it sends from then on is lost)
FallSilent == /\ Silent > 0 /\ FaultKind = "silent" /\ silentFrom = 0 /\ turn = 0 /\ net = {} /\ now > 0
              /\ silentFrom' = now
              /\ UNCHANGED <<now, st, net, turn, lost>>
\* the chosen node crashes and comes back at once on the same address with empty tables, dialling its bootstrap peer
\* (or its successor when it is node 1); the others still hold their entries for it
Restart == /\ Silent > 0 /\ FaultKind = "restart" /\ silentFrom = 0 /\ turn = 0 /\ net = {} /\ now > 0
           /\ silentFrom' = now
           /\ st' = [st EXCEPT ![Silent] = Dial([Fresh(Silent) EXCEPT !.np = now, !.nr = now + OWN_RESET, !.rc = <<>>],
                                                IF Silent > 1 THEN Silent - 1 ELSE 2).s]
           /\ UNCHANGED <<now, net, turn, lost>>

\* the network loses a datagram (only in the lossy configurations; the first loss marks the run as faulty)
LossUntil == 4        \* the network loses datagrams only before this time; afterwards delivery is reliable
Lose(d) == /\ FaultKind = "lossy" /\ turn = 0 /\ d \in net /\ lost < MaxLoss /\ now < LossUntil
           /\ net' = net \ {d} /\ lost' = lost + 1
           /\ silentFrom' = IF silentFrom = 0 THEN now + 1 ELSE silentFrom
           /\ UNCHANGED <<now, st, turn>>

Next == \/ \E n \in Nodes : Hk(n)
        \/ \E d \in net : Lose(d)
        \/ \E d \in net : Deliver(d)
        \/ \E n \in Nodes, dst \in Dests : Frame(n, dst)
        \/ Tick \/ FallSilent \/ Restart
Spec == Init /\ [][Next]_vars

\* ------------------------------------------------------------------ properties
Others(n) == Nodes \ {n}
Quiet == turn = 0 /\ net = {}

NodeInvariants == \A n \in Nodes : /\ NextHopsArePeers(st[n]) /\ NoSelfPeer(st[n], Cfg(n))
                                   /\ OneEntryPerAddress(st[n]) /\ BackoffBounded(st[n])
\* C12: the claims attributed to a peer are exactly its announcement (static configurations here)
ClaimsAreLastAnnouncement ==
  \A n \in Nodes : \A p \in st[n].peers : {x.r : x \in {y \in st[n].claims : y.p = p.a}} = SeqSet(Cfg(p.a).claims)
\* C14: nobody ever has a handshake pending with itself
OwnNeverDialled == \A n \in Nodes : n \notin Addrs(st[n].pend)
\* C14: a connected bootstrap is a full mesh after a bounded number of ticks and stays one (nobody silent)
Deadline == 2 * N
FullMeshBy == ((silentFrom = 0 \/ (FaultKind = "restart" /\ now >= silentFrom + Deadline)) /\ now >= Deadline /\ Quiet)
              => \A n \in Nodes : Addrs(st[n].peers) = Others(n)
\* C15: with stable membership on a delivering network no peer is ever removed
HealthyNeverTimedOut == [][silentFrom' = 0 => \A n \in Nodes : Addrs(st[n].peers) \subseteq Addrs(st'[n].peers)]_vars
\* C15: a node that fell silent in tick t (everything it sent up to then was delivered) is gone from every table, with
\* its routes, after the housekeeping of tick t + T + 1 (expiry = last refresh + T, removed when the clock is past it)
SilentTimedOut ==
  (silentFrom > 0 /\ FaultKind = "silent" /\ Quiet) => \A n \in Others(Silent) :
       (now >= silentFrom + TOf(n) + 1) => (Silent \notin Addrs(st[n].peers) /\ \A x \in st[n].claims : x.p # Silent)

\* sanity (must be refuted: the model is not vacuous)
NeverMeshed == ~(\A n \in Nodes : Addrs(st[n].peers) = Others(n))
NeverRemoved == [][\A n \in Nodes : Addrs(st[n].peers) \subseteq Addrs(st'[n].peers)]_vars
McRetries == 3
McLinger == 2
McOwnReset == 5
\* C05 / C14 at design level: once delivery is reliable again the mesh is complete within the largest peer timeout plus
\* the handshake retry horizon (a half-open attempt has to expire, a one-sided peer entry has to time out, one more
\* exchange round) - whatever was lost before
RecoveryHorizon == 5 + McRetries + 4
RecoversBy == (FaultKind = "lossy" /\ now >= LossUntil + RecoveryHorizon /\ Quiet) => \A n \in Nodes : Addrs(st[n].peers) = Others(n)
\* C11 / C12 / C13 at design level: a cached or learned decision points at a peer, lives no longer than the switch
\* timeout, and - when it came from a claim - no longer than a claim of that peer that covers the address
CacheOK ==
  \A n \in Nodes : \A x \in st[n].cache :
     /\ turn = 0 => x.p \in Addrs(st[n].peers)
     /\ x.exp <= now + Cfg(n).st
     /\ DataPlane = "router" => \E y \in st[n].claims : y.p = x.p /\ <<RangeBytes(y.r)>> = x.a /\ x.exp <= y.exp
\* sanity (must be refuted): decisions do get cached / addresses learned, and payload does travel
NothingCached == \A n \in Nodes : st[n].cache = {}
\* a router never sends a frame for an address nobody claims, and never to anybody but the claimant
RouterDataOK ==
  DataPlane = "router" => \A d \in net : d.kind = "data" => (d.info.fdst = <<d.to>> /\ d.info.fdst # <<9>>)
Bound == now <= MaxTime
=============================================================================
