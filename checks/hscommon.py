"""Shared pipeline pieces of the handshake checks (C05, C01, C06, parts of C04)."""
import os
import vplib as V


def export_schedules(pid, cfg, maxlen=40):
    d = V.tlc_design("MC_Handshake.tla", cfg, pid, workers=8, timeout=900)
    edges = V.tlc_lines(d.out, "EDGE")
    for e in edges:
        e["s"]["net"] = sorted(e["s"]["net"])
        e["t"]["net"] = sorted(e["t"]["net"])
    scheds = V.cover_schedules(edges, maxlen=maxlen)
    return d, edges, scheds


def validate(pid, out, path, summ, rank, mode, name, sub="trace"):
    """TLC trace validation of one handshake trace file; registers a violation when rejected."""
    v = V.tlc_trace("Trace_Handshake.tla", "Trace_Handshake.cfg", pid, path, summ["events"],
                    extra_env={"RANKHIGH": rank, "ALGOMODE": mode}, xmx="6g", sub=sub)
    if v.accepted:
        return summ["runs"]
    evs = V.read_ndjson(path)
    m = min(v.matched, len(evs) - 1)
    bad = evs[m]
    start = max(i for i in range(m + 1) if evs[i]["op"] == "reset")
    if v.reason and v.reason.startswith("invariant"):
        sig = "handshake|%s|%s" % (mode, v.reason.split()[1])
    else:
        sig = "handshake|%s|%s|%s" % (mode, bad.get("op"), bad.get("res", bad.get("class", "")))
    out.violation(sig, "real PeerCrypto objects deviate from Handshake.tla (%s, rank %s, %s): %s; event %s" % (name, rank, mode, v.reason, bad),
                  {"driver": name, "rank_high": rank, "algo_mode": mode, "trace_run": evs[start:m + 1]})
    return 0
