INIT Init
NEXT Next
CONSTANTS Limits = {0, 1, 24, 50, 32767, 32768, 65535}
          Nows = {0, 1, 49, 50, 51, 12345, 32767, 32768, 32769, 65485, 65535}
          Shifts = {1, 50, 32768, 65535}
          BlockSize = 64
INVARIANT AgeProps
INVARIANT BoundaryProps
INVARIANT CountProps
CHECK_DEADLOCK FALSE
