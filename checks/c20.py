"""C20 - configuration sources combine as documented; interface address -> netmask never panics.

Design level: ConfigMerge.tla (option table written from vpncloud.adoc, overlay operators, declarative property
formulas, prefix length -> netmask, address-string classification).  MC_ConfigMerge runs the merge as the code's three
overlay steps (defaults, + file, + command line, file form merged back into defaults) over every per-option presence
combination, every pair of options x presence combinations, and all-at-once cases, and checks the property formulas;
interface-address inputs (every prefix 0..40, loose and malformed strings) are a second family of initial states.
Spec -> impl: every exported case is executed on real ConfigFile / Args values (structs, YAML text + argv through serde_yaml /
structopt, version-1 file format), plus seeded random full combinations with the round trip through the file form.
Impl -> spec: every observation (what each option ended up as; result of parse_ip_netmask) is judged by TLC with the
specification's operators (Trace_ConfigMerge)."""
import json
import os
import re
import vplib as V

PID = "C20"
TSPEC, TCFG = "Trace_ConfigMerge.tla", "Trace_ConfigMerge.cfg"
MAX_RERUNS = 8
CHUNK = 300000


def presence(e):
    f, a = bool(e.get("file")), bool(e.get("args"))
    return "both" if f and a else "file" if f else "args" if a else "absent"


STRICT_ADDR = re.compile(r"^(0|[1-9][0-9]{0,2})(\.(0|[1-9][0-9]{0,2})){3}$")


def signature(e):
    """Input class of an observation (used for violation signatures and for dropping repeats of one finding)."""
    op = e.get("op")
    if op == "merge":
        return "merge|%s|%s|%s" % (e["opt"], presence(e), e["fe"])
    if op == "roundtrip":
        return "roundtrip|%s|%s" % (e["opt"], e["via"])
    if op == "keepalive":
        return "keepalive|%s|%s" % ("set" if e["keepalive"] else "unset", e["res"])
    if op == "oldlisten":
        return "oldlisten|listen=%d|port=%d" % (len(e["listen"]), len(e["port"]))
    if op == "netmask":
        p = e["prefix"]
        cls = "prefix=%d" % p if p >= 0 else "prefix=omitted" if p == -1 else "malformed-prefix"
        addr = e["input"].split("/")[0]
        ok = STRICT_ADDR.match(addr) and all(int(x) <= 255 for x in addr.split("."))
        return "netmask|%s%s|%s" % ("" if ok else "badaddr,", cls, e["res"])
    if op == "call":
        return "call|%s|%s|%s" % (e["what"], e["res"], e["fe"])
    return "event|%s" % op


def describe(e):
    op = e.get("op")
    if op == "merge":
        return ("option %s (%s) via front end %s: file says %s, command line says %s, effective value %s is not what "
                "ConfigMerge.tla admits" % (e["opt"], e["kind"], e["fe"], e["file"], e["args"], e["got"]))
    if op == "roundtrip":
        return "option %s: %s became %s after into_config_file + merge into defaults (via %s)" % (e["opt"], e["orig"], e["got"], e["via"])
    if op == "netmask":
        return "parse_ip_netmask(%r) -> %s ip=%s mask=%s %s" % (e["input"], e["res"], e["ip"], e["mask"], e["msg"])
    return "observation not admitted by ConfigMerge.tla: %s" % json.dumps(e)[:600]


def judge(path, label, out, notes):
    """Trace validation with continuation: after a rejection the finding is recorded, all later events of the same
    input class are dropped and validation continues behind the rejected line.  Returns (events judged, violations)."""
    judged, found, it = 0, 0, 0
    while True:
        n = V.count_lines(path)
        if n == 0:
            return judged, found
        v = V.tlc_trace(TSPEC, TCFG, PID, path, n, sub="trace-" + label)
        if v.accepted:
            return judged + n, found
        evs = V.read_ndjson(path)
        bad = evs[v.matched]
        sig = signature(bad)
        same_case = [x for x in evs[max(0, v.matched - 120):v.matched + 120]
                     if x.get("case") == bad.get("case") and x.get("fe") == bad.get("fe") and x.get("op") == bad.get("op")
                     and (x.get("file") or x.get("args") or x is bad)] if "case" in bad else [bad]
        out.violation(sig, describe(bad), {"trace": label, "event": bad, "mentioned_options_of_case": same_case[:40]})
        V.log("[C20] %s: rejected %s" % (label, sig))
        found += 1
        judged += v.matched + 1
        it += 1
        rest = [x for x in evs[v.matched + 1:] if signature(x) != sig]
        if it >= MAX_RERUNS:
            notes.append("%s: more than %d distinct findings, %d events left unjudged" % (label, MAX_RERUNS, len(rest)))
            return judged, found
        path = os.path.join(V.workdir(PID), "%s-rest%d.ndjson" % (label, it))
        V.write_ndjson(path, rest)


def split_chunks(path, label):
    n = V.count_lines(path)
    if n <= CHUNK:
        return [(label, path)]
    res, k = [], 0
    with open(path) as f:
        g = None
        for i, line in enumerate(f):
            if i % CHUNK == 0:
                if g:
                    g.close()
                k += 1
                p = os.path.join(V.workdir(PID), "%s-part%d.ndjson" % (label, k))
                g = open(p, "w")
                res.append(("%s-part%d" % (label, k), p))
            g.write(line)
        if g:
            g.close()
    return res


def doc_example(wd):
    """The example file printed in vpncloud.adoc (CONFIG FILES / Example) and assets/example.net.disabled, read the way
    main() reads a file.  Non-gating: key spelling is documentation, not the merge order the property is about."""
    notes = {}
    try:
        text = open("/repo/vpncloud.adoc").read()
        m = re.search(r"=== Example\n\n((?: .*\n)+)", text[text.index("== CONFIG FILES"):])
        if m:
            p = os.path.join(wd, "adoc_example.yaml")
            with open(p, "w") as f:
                f.write("".join(l[1:] for l in m.group(1).splitlines(True)))
            notes["vpncloud.adoc example"] = V.harness_json(["cfgmerge", "parsefile", p])
        notes["assets/example.net.disabled"] = V.harness_json(["cfgmerge", "parsefile", "/repo/assets/example.net.disabled"])
    except Exception as ex:  # documentation layout changed: not this check's business
        notes["error"] = str(ex)
    return {k: ({"current_format": v["current_format"], "version1_format": v["version1_format"]} if isinstance(v, dict) else v)
            for k, v in notes.items()}


def replay(rep):
    """bin/check C20 --replay <file>: runs the recorded input again on the current code; exit 1 while TLC still rejects it."""
    wd = V.workdir(PID, "replay")
    V.build_harness()
    ev = rep["replay"]["event"]
    tp = os.path.join(wd, "trace.ndjson")
    if ev["op"] == "netmask":
        cp = os.path.join(wd, "net.ndjson")
        V.write_ndjson(cp, [{"chars": ev["chars"]}])
        V.harness_json(["cfgmerge", "netmask", cp, 0, tp])
        V.write_ndjson(tp, [e for e in V.read_ndjson(tp) if e["origin"] == "tlc"])
    else:
        case = {"file": {}, "args": {}}
        for e in rep["replay"].get("mentioned_options_of_case", []):
            if e.get("op") == "merge":
                if e["file"]:
                    case["file"][e["opt"]] = e["file"]
                if e["args"]:
                    case["args"][e["opt"]] = e["args"]
        cp = os.path.join(wd, "case.ndjson")
        V.write_ndjson(cp, [case])
        V.harness_json(["cfgmerge", "concrete", cp, tp])
    n = V.count_lines(tp)
    v = V.tlc_trace(TSPEC, TCFG, PID, tp, n, sub="trace-replay")
    if v.accepted:
        print("REPLAY property=%s signature=%s: accepted by the specification on the current code (%d observations)" % (PID, rep["signature"], n))
        return 0
    bad = V.read_ndjson(tp)[v.matched]
    print("REPLAY property=%s signature=%s: still rejected: %s" % (PID, signature(bad), describe(bad)))
    print("VIOLATION property=%s replay=%s" % (PID, os.path.join(V.REPLAYS, "%s-replayed.json" % PID)))
    with open(os.path.join(V.REPLAYS, "%s-replayed.json" % PID), "w") as f:
        json.dump(rep, f, indent=1)
    return 1


def run(tier, out):
    wd = V.workdir(PID)
    quick = tier == "quick"
    V.build_harness()
    notes = []
    # (A) design run: property formulas on the overlay model, all singles / pairs / full cases, address inputs
    d = V.tlc_design("MC_ConfigMerge.tla", "MC_ConfigMerge.cfg", PID, workers=8, timeout=1500)
    if d.invariant_violated or d.property_violated:
        out.violation("design|" + ",".join(d.invariant_violated or ["property"]),
                      "ConfigMerge.tla violates its own property formulas (specification bug)", {"tlc": d.out[-3000:]})
    cases = V.tlc_lines(d.out, "CASE")
    nets = V.tlc_lines(d.out, "NET")
    if len(cases) < 1000 or len(nets) < 100:
        raise V.ToolError("design run exported only %d cases / %d address inputs" % (len(cases), len(nets)))
    cp, npth = os.path.join(wd, "cases.ndjson"), os.path.join(wd, "net.ndjson")
    V.write_ndjson(cp, cases)
    V.write_ndjson(npth, nets)
    # (B) real code
    seed = V.seed()
    t_cases, t_rand, t_net, t_pairs = (os.path.join(wd, x) for x in ("t_cases.ndjson", "t_random.ndjson", "t_net.ndjson", "t_pairs.ndjson"))
    if quick:
        s_cases = V.harness_json(["cfgmerge", "cases", cp, t_cases, 2, 2, seed % 2])
        s_rand = V.harness_json(["cfgmerge", "random", 100, t_rand])
        s_net = V.harness_json(["cfgmerge", "netmask", npth, 2000, t_net])
        merge_traces = [("cases", t_cases, s_cases), ("random", t_rand, s_rand)]
    else:
        s_cases = V.harness_json(["cfgmerge", "cases", cp, t_cases, 4, 1, 0, "allfe"])
        s_pairs = V.harness_json(["cfgmerge", "pairs", t_pairs, 1, 0])
        s_rand = V.harness_json(["cfgmerge", "random", 5000, t_rand])
        s_net = V.harness_json(["cfgmerge", "netmask", npth, 60000, t_net])
        merge_traces = [("cases", t_cases, s_cases), ("pairs", t_pairs, s_pairs), ("random", t_rand, s_rand)]
    # one merged trace for the configuration observations (TLC start-up dominates small runs), one for addresses
    t_merge = os.path.join(wd, "t_merge.ndjson")
    with open(t_merge, "w") as g:
        for _, p, _ in merge_traces:
            with open(p) as f:
                for line in f:
                    g.write(line)
    runs_total = sum(s["runs"] for _, _, s in merge_traces)
    call_failures = sum(s.get("call_failures", 0) for _, _, s in merge_traces)
    # (C) TLC judges
    validated, evaluations = 0, 0
    merge_findings = 0
    for label, p in split_chunks(t_merge, "merge"):
        j, f = judge(p, label, out, notes)
        evaluations += j
        merge_findings += f
    if merge_findings == 0:
        validated += runs_total
    j, net_findings = judge(t_net, "netmask", out, notes)
    evaluations += j
    if net_findings == 0:
        validated += s_net["steps"]
    # (D) binding self-tests: a corrupted observation must be rejected at exactly its line
    self_tests = []
    if merge_findings == 0:
        st = os.path.join(wd, "t_selftest.ndjson")
        head = os.path.join(wd, "t_selftest_src.ndjson")
        with open(t_merge) as f, open(head, "w") as g:
            for i, line in enumerate(f):
                if i >= 4000:
                    break
                g.write(line)
        hit = V.corrupt_trace(head, st, lambda e: e["op"] == "merge" and e["case"] >= 3 and e["kind"] in ("scalar", "optional") and e["file"] and e["args"],
                              lambda e: e.__setitem__("got", e["file"]))
        if hit is None:
            V.selftest_fail(PID, "no merge observation with both sources present in the first 4000 events (vacuous)")
        v = V.tlc_trace(TSPEC, TCFG, PID, st, V.count_lines(st), sub="trace-selftest")
        if v.accepted or v.matched != hit - 1:
            V.selftest_fail(PID, "corrupted `got` (line %d) was not rejected at that line (matched %s)" % (hit, v.matched))
        self_tests.append("`got` := file value where the command line also speaks, trace line %d: rejected by TLC" % hit)
    if not quick or merge_findings > 0:
        # address trace: a wrong mask octet on an accepted answer
        st = os.path.join(wd, "t_selftest_net.ndjson")
        src = os.path.join(wd, "t_selftest_net_src.ndjson")
        V.write_ndjson(src, [e for e in V.read_ndjson(t_net) if e["res"] != "panic"][:400])
        hit = V.corrupt_trace(src, st, lambda e: e["res"] == "ok" and e["prefix"] == 20,
                              lambda e: e.__setitem__("mask", [255, 255, 248, 0]))
        if hit is None:
            V.selftest_fail(PID, "no accepted /20 input in the address trace (vacuous)")
        v = V.tlc_trace(TSPEC, TCFG, PID, st, V.count_lines(st), sub="trace-selftest-net")
        if not v.accepted and v.matched == hit - 1:
            self_tests.append("mask of a /20 answer changed to 255.255.248.0, trace line %d: rejected by TLC" % hit)
        elif net_findings == 0:
            V.selftest_fail(PID, "corrupted mask (line %d) was not rejected at that line (matched %s)" % (hit, v.matched))
    if not self_tests:
        self_tests.append("skipped: findings in both traces (a rejection is already demonstrated)")
    # (E) evidence: measured distinct non-trivial observations
    distinct = set()
    order_same, order_other = 0, 0
    samples_merge = []
    with open(t_merge) as f:
        for line in f:
            e = json.loads(line)
            if e["op"] == "merge" and (e["file"] or e["args"]):
                distinct.add(("m", e["opt"], json.dumps(e["file"]), json.dumps(e["args"]), e["fe"]))
                if e["kind"] == "list" and e["file"] and e["args"]:
                    if e["got"] == e["file"] + e["args"]:
                        order_same += 1
                    else:
                        order_other += 1
                if len(samples_merge) < 6 and e["file"] and e["args"] and e["kind"] not in [s["kind"] for s in samples_merge]:
                    samples_merge.append(e)
            elif e["op"] == "roundtrip" and e["orig"]:
                distinct.add(("r", e["opt"], json.dumps(e["orig"]), e["via"]))
    net_events = V.read_ndjson(t_net)
    for e in net_events:
        distinct.add(("n", e["input"]))
    if call_failures:
        notes.append("%d calls of the code under test failed or panicked (reported as call|... findings)" % call_failures)
    cov = {
        "states": d.distinct, "transitions": d.generated, "depth": d.depth,
        "traces_validated_against_impl": validated,
        "samples": [{"tlc_case": cases[len(cases) // 2]}, {"merge_observations": samples_merge},
                    {"address_observations": [e for e in net_events if e["origin"] == "prefix"][:3] + [e for e in net_events if e["origin"] == "malformed"][:3]}],
        "evaluations": evaluations,
        "distinct_nontrivial": len(distinct),
        "rule": "cases = all initial states of MC_ConfigMerge (%d: per option every combination of what file and command line can say, "
                "every option pair x presence combinations, all-at-once) with concrete values distinct per (option, source), run on "
                "structs / YAML+argv / version-1 file front ends; %d seeded random full combinations incl. round trip through the file form; "
                "addresses: %d TLC inputs + every prefix 0..40 on 5 addresses + malformed list + %d seeded mutations. distinct = distinct "
                "(option, file value, command-line value, front end) with at least one source present + distinct round-trip (option, value) "
                "+ distinct address strings" % (len(cases), s_rand["steps"], len(nets), 2000 if quick else 60000),
        "exhaustive": False,
        "cases_exported": len(cases), "address_inputs_exported": len(nets),
        "case_runs": runs_total, "skipped_argv_refused": sum(s.get("skipped_argv", 0) for _, _, s in merge_traces),
        "address_inputs": s_net["steps"],
        "self_test": "; ".join(self_tests),
        "checker_cmd": "tlc MC_ConfigMerge / Trace_ConfigMerge",
        "nonconformance_notes": {
            "list_order": {"file_then_command_line": order_same, "other_order": order_other},
            "documentation_examples": doc_example(wd),
            "other": notes,
        },
    }
    return out.finish("model_checking", cov, assumptions=[
        "option table (names, kinds, documented defaults, what file / command line can express) is transcribed by hand from vpncloud.adoc "
        "and assets/example.net.disabled into ConfigMerge.tla",
        "order of accumulated lists and of hook entries is not part of the property (compared as bags / maps); crypto algorithms given by "
        "both sources may override or accumulate",
        "defaults applied at the point of use (statsd prefix, cipher list) are outside; keepalive = peer-timeout/2-60 is checked for "
        "timeouts >= 124 (smaller ones belong to C15)",
        "serde_yaml and structopt are the real front ends; environment variables PASSWORD / PRIVATE_KEY are cleared"])
