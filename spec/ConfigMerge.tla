---------------------------- MODULE ConfigMerge ----------------------------
(***************************************************************************)
(* C20 - configuration sources combine as documented.                      *)
(*                                                                         *)
(* Code: src/config.rs  Config::{default, merge_file, merge_args,          *)
(*       into_config_file, get_keepalive}, ConfigFile, Args;               *)
(*       src/main.rs parse_ip_netmask; src/oldconfig.rs (listen / port).   *)
(* Documentation: vpncloud.adoc (OPTIONS, CONFIG FILES, DEVICE SETUP),     *)
(*       assets/example.net.disabled.                                      *)
(*                                                                         *)
(* The module has no variables: it is a reference for pure functions.      *)
(* Values are symbolic.  Every value of a setting is a sequence:           *)
(*   scalar / optional / flag : <<>> (nothing) or <<v>>                    *)
(*   list / listval           : <<v1, ..., vn>>                            *)
(*   map                      : <<<<k1, v1>>, ..., <<kn, vn>>>>            *)
(* and a *source* (file, command line) that does not mention the option    *)
(* contributes <<>>.  The specification says WHICH SOURCE wins, it never   *)
(* looks into a value.                                                     *)
(***************************************************************************)
EXTENDS Integers, Sequences, FiniteSets

CONSTANTS Options   \* the option table: set of records [name, kind, default, infile, inargs, flagval]

-----------------------------------------------------------------------------
(* The option table of vpncloud, written from vpncloud.adoc (OPTIONS: "[default: ...]", CONFIG FILES) and the
   example file.  kind:
     scalar   - has a documented default                       (command line > file > default)
     optional - nothing unless given                           (command line > file > nothing)
     flag     - boolean; the file can say true or false, the command line has a switch that can only set `flagval`
                (--fix-rp-filter, --daemon switch on; --no-auto-claim, --no-port-forwarding switch off)
     list     - accumulates: default, then file entries, then command-line entries (property statement: peers,
                claims, trusted keys, advertised addresses)
     map      - per-event hooks: accumulate, the later source wins for a key given twice
     listval  - a list-valued setting that the property statement does NOT list as accumulating and about which the
                documentation is silent (crypto algorithms): either reading is admitted
   infile: the file format can express it.  inargs: the command line can express it.  Documented defaults that are
   applied when the value is *used* and not stored in the configuration (keepalive = peer-timeout/2-60,
   statsd prefix "vpncloud", all ciphers but plain) appear here as "nothing"; KeepaliveOK below covers the first.    *)
O(name, kind, default, infile, inargs, flagval) ==
  [name |-> name, kind |-> kind, default |-> default, infile |-> infile, inargs |-> inargs, flagval |-> flagval]

VpnCloudOptions == {
  O("device_type",         "scalar",   <<"tun">>,        TRUE,  TRUE, ""),       \* device.type / -t --type
  O("device_name",         "scalar",   <<"vpncloud%d">>, TRUE,  TRUE, ""),       \* device.name / -d --device
  O("device_path",         "optional", <<>>,             TRUE,  TRUE, ""),       \* device.path / --device-path
  O("fix_rp_filter",       "flag",     <<"false">>,      TRUE,  TRUE, "true"),   \* device.fix-rp-filter / --fix-rp-filter
  O("ip",                  "optional", <<>>,             TRUE,  TRUE, ""),
  O("advertise_addresses", "list",     <<>>,             TRUE,  TRUE, ""),       \* advertise-addresses / --advertise_addresses
  O("ifup",                "optional", <<>>,             TRUE,  TRUE, ""),
  O("ifdown",              "optional", <<>>,             TRUE,  TRUE, ""),
  O("password",            "optional", <<>>,             TRUE,  TRUE, ""),       \* crypto.password / -p --password
  O("private_key",         "optional", <<>>,             TRUE,  TRUE, ""),       \* crypto.private-key / --key --private-key
  O("public_key",          "optional", <<>>,             TRUE,  TRUE, ""),       \* crypto.public-key / --public-key
  O("trusted_keys",        "list",     <<>>,             TRUE,  TRUE, ""),       \* crypto.trusted-keys / --trust --trusted-key
  O("algorithms",          "listval",  <<>>,             TRUE,  TRUE, ""),       \* crypto.algorithms / --algo --algorithm
  O("listen",              "scalar",   <<"3210">>,       TRUE,  TRUE, ""),       \* listen / -l --listen
  O("peers",               "list",     <<>>,             TRUE,  TRUE, ""),       \* peers / -c --peer --connect
  O("peer_timeout",        "scalar",   <<"300">>,        TRUE,  TRUE, ""),
  O("keepalive",           "optional", <<>>,             TRUE,  TRUE, ""),
  O("beacon_store",        "optional", <<>>,             TRUE,  TRUE, ""),       \* beacon.store / --beacon-store
  O("beacon_load",         "optional", <<>>,             TRUE,  TRUE, ""),
  O("beacon_interval",     "scalar",   <<"3600">>,       TRUE,  TRUE, ""),
  O("beacon_password",     "optional", <<>>,             TRUE,  TRUE, ""),
  O("mode",                "scalar",   <<"normal">>,     TRUE,  TRUE, ""),       \* mode / -m --mode
  O("switch_timeout",      "scalar",   <<"300">>,        TRUE,  TRUE, ""),
  O("claims",              "list",     <<>>,             TRUE,  TRUE, ""),       \* claims / --claim
  O("auto_claim",          "flag",     <<"true">>,       TRUE,  TRUE, "false"),  \* auto-claim / --no-auto-claim
  O("port_forwarding",     "flag",     <<"true">>,       TRUE,  TRUE, "false"),  \* port-forwarding / --no-port-forwarding
  O("daemonize",           "flag",     <<"false">>,      FALSE, TRUE, "true"),   \* command line only: --daemon
  O("pid_file",            "optional", <<>>,             TRUE,  TRUE, ""),
  O("stats_file",          "optional", <<>>,             TRUE,  TRUE, ""),
  O("statsd_server",       "optional", <<>>,             TRUE,  TRUE, ""),       \* statsd.server / --statsd-server
  O("statsd_prefix",       "optional", <<>>,             TRUE,  TRUE, ""),       \* statsd.prefix / --statsd-prefix
  O("user",                "optional", <<>>,             TRUE,  TRUE, ""),
  O("group",               "optional", <<>>,             TRUE,  TRUE, ""),
  O("hook",                "optional", <<>>,             TRUE,  TRUE, ""),       \* hook / --hook <script>
  O("hooks",               "map",      <<>>,             TRUE,  TRUE, "") }      \* hooks / --hook <event>:<script>

Kinds == {"scalar", "optional", "flag", "list", "listval", "map"}
Names == {o.name : o \in Options}
OptOf == [n \in Names |-> CHOOSE o \in Options : o.name = n]
TableOK == /\ \A o \in Options : o.kind \in Kinds
           /\ \A o, p \in Options : o.name = p.name => o = p
           /\ \A o \in Options : (o.kind = "scalar" => Len(o.default) = 1)
           /\ \A o \in Options : (o.kind = "optional" => o.default = <<>>)
           /\ \A o \in Options : (o.kind = "flag" => (Len(o.default) = 1 /\ o.flagval \in {"true", "false"}))

-----------------------------------------------------------------------------
(* Overlaying one source onto the current value of a setting.                                                       *)
Range(s) == {s[i] : i \in 1..Len(s)}
Keys(m) == {m[i][1] : i \in 1..Len(m)}
\* a map as a function: the last pair of a key counts
MapFun(m) == [k \in Keys(m) |-> m[CHOOSE i \in 1..Len(m) : m[i][1] = k /\ \A j \in (i + 1)..Len(m) : m[j][1] # k][2]]
DropKeys(m, ks) == SelectSeq(m, LAMBDA p : p[1] \notin ks)

Overlay(kind, cur, src) ==
  CASE kind \in {"scalar", "optional", "flag"} -> IF src # <<>> THEN src ELSE cur
    [] kind = "list"                            -> cur \o src
    [] kind = "listval"                         -> IF src # <<>> THEN src ELSE cur
    [] kind = "map"                             -> DropKeys(cur, Keys(src)) \o src

\* defaults, then the file, then the command line
Effective(kind, default, fileVal, argVal) == Overlay(kind, Overlay(kind, default, fileVal), argVal)

\* everything the property admits (only `listval` leaves a choice: override or accumulate)
Admissible(kind, default, fileVal, argVal) ==
  IF kind = "listval" THEN {Effective("listval", default, fileVal, argVal), Effective("list", default, fileVal, argVal)}
  ELSE {Effective(kind, default, fileVal, argVal)}

\* what the command line can say about an option
ArgOK(o, argVal) == /\ (~o.inargs => argVal = <<>>)
                    /\ (o.kind = "flag" => argVal \in {<<>>, <<o.flagval>>})
FileOK(o, fileVal) == ~o.infile => fileVal = <<>>

\* equality of two values of a setting: order of accumulated lists and of map entries is not part of the property
Count(s, x) == Cardinality({i \in 1..Len(s) : s[i] = x})
BagEq(a, b) == Len(a) = Len(b) /\ \A x \in Range(a) \cup Range(b) : Count(a, x) = Count(b, x)
ValEq(kind, a, b) ==
  CASE kind \in {"list", "listval"} -> BagEq(a, b)
    [] kind = "map"                  -> MapFun(a) = MapFun(b)
    [] OTHER                         -> a = b

\* whole configurations: functions from option names to values
Defaults == [n \in Names |-> OptOf[n].default]
MergeSource(cfg, src) == [n \in Names |-> Overlay(OptOf[n].kind, cfg[n], src[n])]
\* Config::into_config_file: the file form of an effective configuration
ToFile(cfg) == [n \in Names |-> IF OptOf[n].infile THEN cfg[n] ELSE <<>>]
RoundTripValue(o, v) == Overlay(o.kind, o.default, IF o.infile THEN v ELSE <<>>)

-----------------------------------------------------------------------------
(* Property formulas (C20), stated declaratively on (file, args, effective configuration).                          *)
\* command line if given, else file, else documented default
PrecedenceOK(file, args, cfg) ==
  \A n \in Names : OptOf[n].kind \in {"scalar", "optional", "flag"} =>
     /\ (args[n] # <<>> => cfg[n] = args[n])
     /\ ((args[n] = <<>> /\ file[n] # <<>>) => cfg[n] = file[n])
     /\ ((args[n] = <<>> /\ file[n] = <<>>) => cfg[n] = OptOf[n].default)
\* a flag given on the command line has the value of its switch whatever the file says
FlagOK(file, args, cfg) ==
  \A n \in Names : (OptOf[n].kind = "flag" /\ args[n] # <<>>) => cfg[n] = <<OptOf[n].flagval>>
\* lists accumulate: every entry of every source is there as often as given, file entries before command-line entries
AccumulateOK(file, args, cfg) ==
  \A n \in Names : OptOf[n].kind = "list" =>
     /\ \A x \in Range(cfg[n]) \cup Range(file[n]) \cup Range(args[n]) \cup Range(OptOf[n].default) :
           Count(cfg[n], x) = Count(OptOf[n].default, x) + Count(file[n], x) + Count(args[n], x)
     /\ cfg[n] = OptOf[n].default \o file[n] \o args[n]
\* hooks accumulate per event; an event given by both sources takes the command-line script
MapOK(file, args, cfg) ==
  \A n \in Names : OptOf[n].kind = "map" =>
     /\ Keys(cfg[n]) = Keys(OptOf[n].default) \cup Keys(file[n]) \cup Keys(args[n])
     /\ \A k \in Keys(cfg[n]) :
           MapFun(cfg[n])[k] = IF k \in Keys(args[n]) THEN MapFun(args[n])[k]
                               ELSE IF k \in Keys(file[n]) THEN MapFun(file[n])[k]
                               ELSE MapFun(OptOf[n].default)[k]
ListValOK(file, args, cfg) ==
  \A n \in Names : OptOf[n].kind = "listval" =>
     \E v \in Admissible("listval", OptOf[n].default, file[n], args[n]) : ValEq("listval", cfg[n], v)
EffectiveOK(file, args, cfg) ==
  PrecedenceOK(file, args, cfg) /\ FlagOK(file, args, cfg) /\ AccumulateOK(file, args, cfg) /\ MapOK(file, args, cfg)
  /\ ListValOK(file, args, cfg)
\* an option no source mentions keeps its documented default
DefaultsSurvive(file, args, cfg) ==
  \A n \in Names : (file[n] = <<>> /\ args[n] = <<>>) => cfg[n] = OptOf[n].default
\* file form merged into defaults reproduces every setting the file format can express
RoundTripOK(eff, back) == \A n \in Names : OptOf[n].infile => ValEq(OptOf[n].kind, back[n], eff[n])

-----------------------------------------------------------------------------
(* Judging one observation of the real code (trace validation).                                                     *)
MergeObsOK(name, kind, fileVal, argVal, got) ==
  /\ name \in Names
  /\ LET o == OptOf[name] IN
       /\ kind = o.kind
       /\ ArgOK(o, argVal) /\ FileOK(o, fileVal)
       /\ \E v \in Admissible(o.kind, o.default, fileVal, argVal) : ValEq(o.kind, got, v)
RoundTripObsOK(name, orig, got) ==
  /\ name \in Names
  /\ LET o == OptOf[name] IN (o.infile => ValEq(o.kind, got, RoundTripValue(o, orig)))

\* "keepalive [default: peer-timeout/2-60]": Config::get_keepalive.  The documentation does not say how an odd timeout
\* is halved, and timeouts below 124 (result < 2) belong to C15: both are left open.
KeepaliveOK(ka, pt, res, got) ==
  /\ res \in {"ok", "panic"}
  /\ (ka # <<>> => (res = "ok" /\ got = ka[1]))
  /\ ((ka = <<>> /\ pt >= 124) =>
        (res = "ok" /\ (2 * (got + 60) = pt \/ 2 * (got + 60) = pt - 1 \/ 2 * (got + 60) = pt + 1)))

\* version-1 files (oldconfig.rs): `listen` wins over the legacy `port`, a lone `port` becomes the listen address
OldListen(listen, port) == IF listen # <<>> THEN listen ELSE port

-----------------------------------------------------------------------------
(* Interface address "a.b.c.d[/p]" -> (address, netmask).  Strings are sequences of character codes.               *)
RECURSIVE Pow2(_)
Pow2(n) == IF n = 0 THEN 1 ELSE 2 * Pow2(n - 1)
\* how many of the p leading one bits fall into octet i (1..4)
OnesIn(p, i) == LET k == p - 8 * (i - 1) IN IF k <= 0 THEN 0 ELSE IF k >= 8 THEN 8 ELSE k
Octet(p, i) == 256 - Pow2(8 - OnesIn(p, i))
Netmask(p) == IF p \in 0..32 THEN [res |-> "ok", mask |-> <<Octet(p, 1), Octet(p, 2), Octet(p, 3), Octet(p, 4)>>]
              ELSE [res |-> "err", mask |-> <<>>]
\* independent bitwise reading of a mask: bit j (1 = most significant) of four octets
Bit(mask, j) == (mask[((j - 1) \div 8) + 1] \div Pow2(7 - ((j - 1) % 8))) % 2
LeadingOnes(mask, p) == /\ Len(mask) = 4 /\ \A i \in 1..4 : mask[i] \in 0..255
                        /\ \A j \in 1..32 : Bit(mask, j) = IF j <= p THEN 1 ELSE 0

IsDigit(c) == c \in 48..57
AllDigits(t) == Len(t) >= 1 /\ \A i \in 1..Len(t) : IsDigit(t[i])
RECURSIVE DecVal(_)
DecVal(t) == IF t = <<>> THEN 0 ELSE DecVal(SubSeq(t, 1, Len(t) - 1)) * 10 + (t[Len(t)] - 48)
\* decimal without sign and without leading zeros, at most three digits
Canonical(t) == AllDigits(t) /\ Len(t) <= 3 /\ (Len(t) = 1 \/ t[1] # 48)
\* digits with leading zeros or a leading "+": readers disagree on these - accepted with the numeric value or refused
Loose(t) == \/ (AllDigits(t) /\ Len(t) <= 9)
            \/ (Len(t) >= 2 /\ Len(t) <= 9 /\ t[1] = 43 /\ AllDigits(Tail(t)))
LooseVal(t) == IF t[1] = 43 THEN DecVal(Tail(t)) ELSE DecVal(t)
\* long digit strings: only "no panic" is demanded
Long(t) == Len(t) > 9 /\ \A i \in 1..Len(t) : (IsDigit(t[i]) \/ (i = 1 /\ t[i] = 43))

FirstOf(s, c) == IF \E i \in 1..Len(s) : s[i] = c
                 THEN CHOOSE i \in 1..Len(s) : s[i] = c /\ \A j \in 1..(i - 1) : s[j] # c
                 ELSE 0
RECURSIVE Split(_, _)
Split(s, c) == LET i == FirstOf(s, c) IN
               IF i = 0 THEN <<s>> ELSE <<SubSeq(s, 1, i - 1)>> \o Split(SubSeq(s, i + 1, Len(s)), c)

\* classification of the address part: "strict" a.b.c.d canonical, "loose" four numeric groups <= 255 written
\* unusually, "bad" everything else
IpClass(s) == LET g == Split(s, 46) IN
  IF Len(g) = 4 /\ \A i \in 1..4 : Canonical(g[i]) /\ DecVal(g[i]) <= 255 THEN "strict"
  ELSE IF Len(g) = 4 /\ \A i \in 1..4 : (Canonical(g[i]) \/ Loose(g[i])) /\ LooseVal(g[i]) <= 255 THEN "loose"
  ELSE IF Len(g) = 4 /\ (\A i \in 1..4 : (Canonical(g[i]) \/ Loose(g[i]) \/ Long(g[i]))) /\ (\E i \in 1..4 : Long(g[i]))
       THEN "open"
  ELSE "bad"
IpVal(s) == LET g == Split(s, 46) IN <<LooseVal(g[1]), LooseVal(g[2]), LooseVal(g[3]), LooseVal(g[4])>>

\* the prefix part: [cls, p]
PrefixClass(s) == LET i == FirstOf(s, 47) IN
  IF i = 0 THEN [cls |-> "strict", p |-> 24]                       \* omitted: /24 (netmask 255.255.255.0)
  ELSE LET t == SubSeq(s, i + 1, Len(s)) IN
       IF Canonical(t) THEN [cls |-> "strict", p |-> DecVal(t)]
       ELSE IF Loose(t) THEN [cls |-> "loose", p |-> LooseVal(t)]
       ELSE IF Long(t) THEN [cls |-> "open", p |-> 0]
       ELSE [cls |-> "bad", p |-> 0]
AddrPart(s) == LET i == FirstOf(s, 47) IN IF i = 0 THEN s ELSE SubSeq(s, 1, i - 1)

\* what the property demands of the result for input s:
\*   "ok"  : must succeed with address IpVal and mask Netmask(p)   (well-formed, 1 <= p <= 32 or omitted)
\*   "err" : must be refused
\*   "okerr": either refused or the numeric reading; "open": anything but a panic
Demand(s) == LET ic == IpClass(AddrPart(s))  pc == PrefixClass(s) IN
  IF ic = "bad" \/ pc.cls = "bad" THEN [d |-> "err", p |-> 0]
  ELSE IF ic = "open" \/ pc.cls = "open" THEN [d |-> "open", p |-> 0]
  ELSE IF pc.p > 32 THEN [d |-> "err", p |-> pc.p]
  ELSE IF ic = "strict" /\ pc.cls = "strict" /\ pc.p >= 1 THEN [d |-> "ok", p |-> pc.p]
  ELSE [d |-> "okerr", p |-> pc.p]                \* incl. /0: the all-zero mask or a refusal, never a panic

NetmaskObsOK(s, res, ip, mask) ==
  LET dm == Demand(s)
      good == res = "ok" /\ mask = Netmask(dm.p).mask /\ ip = IpVal(AddrPart(s))
  IN /\ res \in {"ok", "err"}                                      \* never a panic
     /\ CASE dm.d = "ok"    -> good
          [] dm.d = "err"   -> res = "err"
          [] dm.d = "okerr" -> res = "err" \/ good
          [] OTHER          -> TRUE
=============================================================================
