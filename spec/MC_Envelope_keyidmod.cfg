\* expected to FAIL: a receiver that reduces the key-id field modulo the number of slots opens datagrams whose key-id
\* field was altered to another value naming the same slot.  checks/c02.py requires TLC to refute MechanismMeetsRule.
SPECIFICATION MCSpec
CONSTANTS Ends = {1, 2, 3}
          Slots = {0, 1}
          KeyIds = {0, 1, 2}
          Payloads = {"p", "q"}
          MaxGen = 2
          MaxSeals = 2
          HalfForced = TRUE
          KeyIdAliased = TRUE
          MaxRot = 1
INVARIANT TypeOK
INVARIANT MechanismMeetsRule
INVARIANT NothingDeliveredFromBad
INVARIANT DeliveredIdentical
INVARIANT PendingOpens
INVARIANT WireHidesCleartext
CHECK_DEADLOCK FALSE
