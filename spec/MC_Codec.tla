------------------------------ MODULE MC_Codec ------------------------------
(* Design run of Codec.tla: an exhaustive walk over a universe of structural cases.

   Every state is one case `c`:
     round trips   [fam |-> "ni" | "im" | "rot", m |-> abstract message, ins |-> unknown parts inserted, lvl]
                   messages are built level by level (peers; claims, time-out, own addresses; inserted unknown
                   parts) - every level is itself a case
     totality      [fam |-> "ni-seq" | "im-seq" | "rot-seq", ps |-> part / item sequence, base]
                   initial states = empty sequence / two genuine leading parts, one step = one more part (item) from a small alphabet that
                   contains well-formed and malformed bodies
   The invariant `CaseOK` applies the property formulas of Codec.tla to the case. *)
EXTENDS Codec, TLC

CONSTANTS FamCounts,      \* per-family address counts of the first peer, e.g. {0, 1, 7, 8, 9}
          FamCounts2,     \* ... of a second peer
          OwnCounts,      \* ... of the node's own address list
          PeerNums,       \* numbers of peers, subset of {0, 1, 2}
          ClaimNums,      \* subset of {0, 1, 2}
          MaxSeqNI, MaxSeqIM, MaxSeqRot,   \* lengths of the part sequences of the totality walks
          MaxKey          \* key lengths 0..MaxKey for the rotation message

VARIABLE c

-----------------------------------------------------------------------------
\* address lists with n4 IPv4 and n6 IPv6 entries in three interleavings
Mix(n4, n6, pat) ==
  CASE pat = 0 -> [i \in 1..n4 |-> Addr(4, i)] \o [i \in 1..n6 |-> Addr(6, i)]
    [] pat = 1 -> [i \in 1..n6 |-> Addr(6, i)] \o [i \in 1..n4 |-> Addr(4, i)]
    [] OTHER -> LET k == Min2(n4, n6) IN
                [i \in 1..(2 * k) |-> IF i % 2 = 1 THEN Addr(4, (i + 1) \div 2) ELSE Addr(6, i \div 2)]
                \o [i \in 1..(n4 - k) |-> Addr(4, k + i)] \o [i \in 1..(n6 - k) |-> Addr(6, k + i)]

Peers1 == {<<Peer(h, 11, Mix(a, b, p))>> : h \in BOOLEAN, a \in FamCounts, b \in FamCounts, p \in 0..2}
Peers2 == {q \o <<Peer(h, 12, Mix(a, b, 2))>> : q \in Peers1, h \in BOOLEAN, a \in FamCounts2, b \in FamCounts2}
PeerLists == (IF 0 \in PeerNums THEN {<<>>} ELSE {}) \cup (IF 1 \in PeerNums THEN Peers1 ELSE {})
             \cup (IF 2 \in PeerNums THEN Peers2 ELSE {})
ClaimLists == (IF 0 \in ClaimNums THEN {<<>>} ELSE {})
              \cup (IF 1 \in ClaimNums THEN {<<[len |-> 4, prefix |-> 24]>>} ELSE {})
              \cup (IF 2 \in ClaimNums THEN {<<[len |-> 16, prefix |-> 255], [len |-> 0, prefix |-> 0]>>} ELSE {})
OwnLists == {Mix(a, b, 2) : a \in OwnCounts, b \in OwnCounts}
Timeouts == {NoTimeout, SomeTimeout(300)}
NIBase == [id |-> 1, peers |-> <<>>, claims |-> <<>>, timeout |-> NoTimeout, addrs |-> <<>>]
\* the message universe (only used by the ASSUMEs below; the walk builds the messages level by level)
NIMessages == {[id |-> 1, peers |-> ps, claims |-> cs, timeout |-> t, addrs |-> o] :
                 ps \in PeerLists, cs \in ClaimLists, t \in Timeouts, o \in OwnLists}

\* unknown parts: empty, junk, and one whose body looks like a known part's body
U1 == Part(6, <<Item("junk", 1, 0)>>)
U2 == Part(9, <<>>)
U3 == Part(6, <<Item("nid", 99, 0)>>)
Insertions(n) ==       \* n = number of parts of the encoding (end marker included): positions 0..n-1
  {<<>>} \cup {<<[at |-> i, part |-> u]>> : i \in 0..(n - 1), u \in {U1, U2, U3}}
  \cup {<<[at |-> i, part |-> U1], [at |-> j, part |-> U2]>> : i \in 0..(n - 1), j \in 0..(n - 1)}
\* (pairs with i > j are filtered by SortedIns in Next)

AlgoLists == {<<>>} \cup {<<[id |-> a, speed |-> 1]>> : a \in {0, 1, 3, 7}}
             \cup {<<[id |-> a, speed |-> 1], [id |-> b, speed |-> 2]>> : a \in {0, 1, 3, 7}, b \in {0, 1, 3, 7}}
             \cup {<<[id |-> a, speed |-> 1], [id |-> b, speed |-> 2], [id |-> d, speed |-> 3]>> :
                     a \in {0, 1, 3, 7}, b \in {0, 2, 7}, d \in {0, 3, 7}}
Blob == <<Item("b", 5, 0)>>
Stages == {0, PING, PONG, PENG, 4}
EcdhChoices == {Absent, Present(Blob), Present(<<>>)}
AlgoChoices == {Absent} \cup {Present(l) : l \in AlgoLists}
PayloadChoices == {Absent, Present(Blob)}
IMMessages == {[stage |-> s, hash |-> 7, ecdh |-> e, algos |-> a, payload |-> p] :
                 s \in Stages, e \in EcdhChoices, a \in AlgoChoices, p \in PayloadChoices}

Keys == {[i \in 1..n |-> i] : n \in 0..MaxKey}
RotMessages == {[id |-> 1, propose |-> k, confirm |-> cf] : k \in Keys, cf \in {Absent} \cup {Present(k2) : k2 \in Keys}}

\* ---- alphabets of the totality walks ----
NIParts == {EndPart,
            Part(NI_NODEID, <<Item("nid", 1, 0)>>), Part(NI_NODEID, <<>>),
            Part(NI_PEERS, <<>>),
            Part(NI_PEERS, <<Item("flags", 137, 0), Item("nid", 2, 0), Item("a6", 1, 0), Item("a4", 1, 0)>>),
            Part(NI_PEERS, <<Item("flags", 9, 0), Item("a6", 1, 0)>>),                    \* cut short
            Part(NI_PEERS, <<Item("flags", 72, 0), Item("a6", 3, 0)>>),                   \* unused bit 6 set
            Part(NI_CLAIMS, <<Item("claim", 4, 24)>>), Part(NI_CLAIMS, <<Item("claim", 17, 0)>>),
            Part(NI_TIMEOUT, <<Item("u16", 300, 0)>>), Part(NI_TIMEOUT, <<Item("u16", 300, 0), Item("junk", 1, 0)>>),
            Part(NI_ADDRS, <<Item("flags", 9, 0), Item("a6", 1, 0), Item("a4", 1, 0)>>),
            Part(NI_ADDRS, <<Item("flags", 129, 0), Item("a4", 2, 0)>>),                  \* top bit means nothing here
            Part(NI_ADDRS, <<>>),
            U1, U2, U3}
IMParts == {EndPart,
            Part(IM_STAGE, <<Item("stage", PING, 0)>>), Part(IM_STAGE, <<Item("stage", PONG, 0)>>),
            Part(IM_STAGE, <<Item("stage", PENG, 0)>>), Part(IM_STAGE, <<Item("stage", 9, 0)>>), Part(IM_STAGE, <<>>),
            Part(IM_HASH, <<Item("hash", 7, 0)>>), Part(IM_HASH, <<>>),
            Part(IM_ECDH, Blob), Part(IM_ECDH, <<>>),
            Part(IM_ALGOS, <<Item("algo", 1, 1), Item("algo", 7, 2), Item("algo", 0, 3)>>), Part(IM_ALGOS, <<>>),
            Part(IM_ALGOS, <<Item("junk", 1, 0)>>),
            Part(IM_PAYLOAD, Blob),
            U1, U2}
\* the walks start from the empty sequence and from the first two parts of a genuine message, so that complete
\* messages of every stage lie within MaxSeq further parts
NISeeds == {<<>>, <<Part(NI_NODEID, <<Item("nid", 1, 0)>>),
                   Part(NI_PEERS, <<Item("flags", 137, 0), Item("nid", 2, 0), Item("a6", 1, 0), Item("a4", 1, 0)>>)>>}
IMSeeds == {<<>>} \cup {<<Part(IM_STAGE, <<Item("stage", s, 0)>>), Part(IM_HASH, <<Item("hash", 7, 0)>>)>> : s \in {PING, PONG, PENG}}
RotItems == {Item("u64", 1, 0), Item("len", 0, 0), Item("len", 1, 0), Item("len", 2, 0), Item("len", 256, 0), Item("b", 5, 0)}

-----------------------------------------------------------------------------
\* round-trip cases are built level by level (every intermediate level is a case of its own), which lets all TLC
\* workers share the enumeration
Init == \/ c = [fam |-> "ni", m |-> NIBase, ins |-> <<>>, lvl |-> 0]
        \/ \E s \in Stages : c = [fam |-> "im", m |-> [stage |-> s, hash |-> 7, ecdh |-> Absent, algos |-> Absent, payload |-> Absent],
                                    ins |-> <<>>, lvl |-> 0]
        \/ \E m \in RotMessages : c = [fam |-> "rot", m |-> m, ins |-> <<>>, lvl |-> 0]
        \/ \E s \in NISeeds : c = [fam |-> "ni-seq", ps |-> s, base |-> Len(s)]
        \/ \E s \in IMSeeds : c = [fam |-> "im-seq", ps |-> s, base |-> Len(s)]
        \/ c = [fam |-> "rot-seq", ps |-> <<>>, base |-> 0]

\* a sequence is extended while it could still become an accepted message and has no end marker yet
CompletableNI(ps) == DecodeNI(ps \o <<Part(NI_NODEID, <<Item("nid", 1, 0)>>), EndPart>>).ok
CompletableIM(ps) == DecIMParts(ps \o <<EndPart>>, IMState).ok

Next ==
  \/ /\ c.fam = "ni" /\ c.lvl = 0
     /\ \E ps \in PeerLists : c' = [c EXCEPT !.m.peers = ps, !.lvl = 1]
  \/ /\ c.fam = "ni" /\ c.lvl = 1
     /\ \E cs \in ClaimLists, t \in Timeouts, o \in OwnLists :
          c' = [c EXCEPT !.m.claims = cs, !.m.timeout = t, !.m.addrs = o, !.lvl = 2]
  \/ /\ c.fam = "ni" /\ c.lvl = 2
     /\ \E ins \in Insertions(Len(EncodeNI(c.m))) : ins # <<>> /\ SortedIns(ins) /\ c' = [c EXCEPT !.ins = ins, !.lvl = 3]
  \/ /\ c.fam = "im" /\ c.lvl = 0
     /\ \E e \in EcdhChoices, a \in AlgoChoices, p \in PayloadChoices :
          c' = [c EXCEPT !.m.ecdh = e, !.m.algos = a, !.m.payload = p, !.lvl = 1]
  \/ /\ c.fam = "im" /\ c.lvl = 1
     /\ \E ins \in Insertions(Len(EncodeIM(c.m))) : ins # <<>> /\ SortedIns(ins) /\ c' = [c EXCEPT !.ins = ins, !.lvl = 2]
  \/ /\ c.fam = "ni-seq" /\ Len(c.ps) < c.base + MaxSeqNI /\ ~HasEnd(c.ps) /\ CompletableNI(c.ps)
     /\ \E p \in NIParts : c' = [c EXCEPT !.ps = Append(@, p)]
  \/ /\ c.fam = "im-seq" /\ Len(c.ps) < c.base + MaxSeqIM /\ ~HasEnd(c.ps) /\ CompletableIM(c.ps)
     /\ \E p \in IMParts : c' = [c EXCEPT !.ps = Append(@, p)]
  \/ /\ c.fam = "rot-seq" /\ Len(c.ps) < MaxSeqRot
     /\ \E p \in RotItems : c' = [c EXCEPT !.ps = Append(@, p)]

Spec == Init /\ [][Next]_c

CaseOK ==
  CASE c.fam = "ni" -> RoundTripNI(c.m, c.ins)
    [] c.fam = "im" -> RoundTripIM(c.m, c.ins) /\ TamperIM(c.m, c.ins)
    [] c.fam = "rot" -> RoundTripRot(c.m)
    [] c.fam = "ni-seq" -> TotalNI(c.ps)
    [] c.fam = "im-seq" -> TotalIM(c.ps)
    [] c.fam = "rot-seq" -> TotalRot(c.ps)
    [] OTHER -> FALSE

\* sanity of the universe itself: the interesting classes are inhabited (checked once, as ASSUME)
ASSUME \E m \in NIMessages : NormaliseNI(m) # m
ASSUME \E m \in NIMessages : NormaliseNI(m) = m /\ m.peers # <<>>
ASSUME \E m \in IMMessages : CompleteIM(m) /\ NormaliseIM(m) # m
ASSUME \E m \in IMMessages : ~CompleteIM(m)
=============================================================================
