SPECIFICATION Spec
CONSTANTS DataPlane = "off"
          N = 3
          MaxTime = 8
          Silent = 0
          FaultKind = "silent"
          DialKind = "reconnect"
          MAX_RETRIES <- McRetries
          LINGER <- McLinger
          OWN_RESET <- McOwnReset
INVARIANT NodeInvariants
INVARIANT ClaimsAreLastAnnouncement
INVARIANT OwnNeverDialled
INVARIANT FullMeshBy
INVARIANT SilentTimedOut
PROPERTY HealthyNeverTimedOut
CHECK_DEADLOCK FALSE
