//! C10 / C13 / C11 (node level): the data plane of a full mesh of real mock-backed nodes.
//! `node fwd sched <schedules.ndjson> <trace> <mode>`  TLC schedules (labels of MC_Forward)
//! `node fwd random <runs> <len> <trace> <mode> <nodes>`  seeded random sequences of frames, deliveries, time steps, leaves
//! Every interface read, every delivery of a payload datagram and every time step is one event; the trace
//! specification (Trace_Forward) replays them through Forward.tla's own actions.
use super::node::*;
use super::util::*;
use crate::payload::{Frame, Packet, Protocol};
use crate::types::Mode;
use rand::Rng;
use serde_json::{json, Value};
use std::collections::HashMap;

pub const UNTAGGED: u64 = 65536;
pub const SWITCH_TIMEOUT: u32 = 10;

fn mode_of(m: &str) -> Mode {
    match m {
        "hub" => Mode::Hub,
        "router" => Mode::Router,
        _ => Mode::Switch,
    }
}

/// claims of node n (1-based) in router mode on a 4-bit universe embedded in 10.0.0.x: value v -> 10.0.0.(v*16)
/// node 1: 8/1, node 2: 12/2 and 0/0, node 3: 12/4, node 4: nothing
fn router_claims(n: usize) -> Vec<(u8, u8)> {
    match n {
        1 => vec![(8, 1)],
        2 => vec![(12, 2), (0, 0)],
        3 => vec![(12, 4)],
        _ => vec![],
    }
}

fn ip_of(v: u8) -> [u8; 4] {
    [10, 0, 0, v << 4]
}

fn ip6_of(v: u8) -> [u8; 16] {
    let mut a = [0u8; 16];
    a[..4].copy_from_slice(&ip_of(v));
    a
}

struct Mesh<P: Protocol> {
    sim: Sim<P>,
    data: HashMap<u64, (u64, Vec<u8>)>, // datagram id -> (fid, frame bytes)
    nframes: u64,
    dead: Vec<bool>,
    ctrl_iface: u64,
    plain: bool,
}

impl<P: Protocol> Mesh<P> {
    fn new(mode: &str, nodes: usize, stream: u64) -> Self {
        let mut sim: Sim<P> = Sim::new(stream);
        for n in 1..=nodes {
            let mut cfg = base_config(mode_of(mode));
            cfg.switch_timeout = SWITCH_TIMEOUT;
            if stream % 4 == 3 {
                // every fourth mesh runs unencrypted sessions ("plain" enabled on all nodes)
                cfg.crypto.algorithms = vec!["plain".into()];
            }
            if mode == "router" {
                cfg.claims = router_claims(n).iter().map(|(b, l)| format!("10.0.0.{}/{}", b << 4, 24 + l)).collect();
            }
            sim.add_node(false, &cfg);
        }
        for i in 0..nodes {
            for j in 0..i {
                let a = sim.nodes[j].addr;
                sim.connect(i, a);
            }
        }
        sim.deliver_due();
        for _ in 0..3 {
            sim.tick();
        }
        sim.capture = false;
        if !sim.full_mesh() {
            eprintln!("warning: mesh not fully connected after setup");
        }
        Mesh { sim, data: HashMap::new(), nframes: 0, dead: vec![false; nodes], ctrl_iface: 0, plain: stream % 4 == 3 }
    }

    /// delivers every queued datagram that is not a payload datagram of a frame we injected (control plane)
    fn deliver_ctrl(&mut self) {
        let mut rounds = 0;
        loop {
            rounds += 1;
            let idxs: Vec<usize> = (0..self.sim.queue.len()).filter(|k| !self.data.contains_key(&self.sim.queue[*k].id)).collect();
            if idxs.is_empty() || rounds > 50 {
                break;
            }
            let mut taken = vec![];
            for k in idxs.into_iter().rev() {
                taken.push(self.sim.queue.swap_remove(k));
            }
            taken.sort_by_key(|m| m.seq);
            for m in taken {
                if self.dead[(m.to - 1) as usize] {
                    continue;
                }
                let r = self.sim.present((m.to - 1) as usize, m.src, &m.bytes);
                self.ctrl_iface += r.iface.len() as u64;
            }
        }
    }

    fn iface(&mut self, n: usize, frame: Vec<u8>, src: Value, dst: Value, t: &mut Trace) -> u64 {
        self.nframes += 1;
        let fid = self.nframes;
        let r = self.sim.iface(n, &frame);
        let mut out = vec![];
        let mut other = 0;
        for d in &r.sent {
            match self.sim.idx_of(&d.to) {
                Some(j) if d.bytes.first() != Some(&0xff) => {
                    self.data.insert(d.id, (fid, frame.clone()));
                    out.push(j as u64 + 1);
                }
                _ => other += 1,
            }
        }
        out.sort();
        t.ev(json!({"op":"iface","n":n + 1,"fid":fid,"src":src,"dst":dst,"out":out,"other":other,"wrote":r.iface.len(),"panicked":r.panicked}));
        fid
    }

    /// delivers the payload datagram of frame fid addressed to node `to` (1-based); false when it is not in flight
    fn recv(&mut self, fid: u64, to: u64, t: &mut Trace) -> bool {
        let pos = self.sim.queue.iter().position(|m| m.to as u64 == to && self.data.get(&m.id).map(|x| x.0) == Some(fid));
        let m = match pos {
            Some(k) => self.sim.queue.swap_remove(k),
            None => return false,
        };
        let frame = self.data[&m.id].1.clone();
        let from = self.sim.idx_of(&m.src).map(|x| x as u64 + 1).unwrap_or(0);
        let r = self.sim.present((to - 1) as usize, m.src, &m.bytes);
        let same = r.iface.len() == 1 && r.iface[0] == frame;
        t.ev(json!({"op":"recv","fid":fid,"to":to,"from":from,"wrote":r.iface.len(),"same":same,"sent":r.sent.len(),"panicked":r.panicked}));
        true
    }

    fn tick(&mut self, secs: u64, t: &mut Trace) {
        // payload is delivered within the second it was sent: a datagram held back across housekeeping ticks while newer
        // ones are accepted is (rightly) refused by the replay window (C03), which is not what C10 is about
        while let Some((fid, to)) = self.in_flight().first().copied() {
            self.recv(fid, to, t);
        }
        let before = self.ctrl_iface;
        for _ in 0..secs {
            self.sim.now += 1;
            crate::util::MockTimeSource::set_time(self.sim.now);
            for i in 0..self.sim.nodes.len() {
                if !self.dead[i] {
                    let r = self.sim.housekeep(i);
                    self.ctrl_iface += r.iface.len() as u64;
                }
            }
            self.deliver_ctrl();
        }
        t.ev(json!({"op":"tick","secs":secs,"ctrl_iface":self.ctrl_iface - before}));
    }

    fn leave(&mut self, n: usize, t: &mut Trace) {
        self.sim.close(n);
        self.deliver_ctrl();
        self.dead[n] = true;
        self.sim.faults.silent.insert(n as u16 + 1);
        // payload still in flight to or from the node that left is discarded
        let data = &self.data;
        self.sim.queue.retain(|m| !(data.contains_key(&m.id) && (m.to as usize == n + 1 || m.src.port() as usize == n + 1)));
        t.ev(json!({"op":"leave","n":n + 1}));
    }

    fn in_flight(&self) -> Vec<(u64, u64)> {
        let mut v: Vec<(u64, u64)> = self.sim.queue.iter().filter_map(|m| self.data.get(&m.id).map(|x| (x.0, m.to as u64))).collect();
        v.sort();
        v
    }
}

fn eth(src_mac: u8, src_tci: u64, dst_mac: u8, rng: &mut impl Rng, fid: u64) -> (Vec<u8>, u64) {
    let mut payload = vec![0u8; 30];
    rng.fill(&mut payload[..]);
    payload[..8].copy_from_slice(&fid.to_be_bytes());
    if src_tci >= UNTAGGED {
        (eth_frame(mac(dst_mac), mac(src_mac), None, &payload), UNTAGGED)
    } else {
        // all 16 PCP/DEI nibbles; sometimes a nested (inner) tag that the dissector must ignore
        let tci = (src_tci & 0x0fff) | ((rng.gen_range(0..16u64)) << 12);
        let mut f = eth_frame(mac(dst_mac), mac(src_mac), Some(tci as u16), &payload);
        if rng.gen_bool(0.2) {
            let inner = [0x81u8, 0x00, 0x0f, 0xff];
            let tail = f.split_off(16);
            f.extend_from_slice(&inner);
            f.extend_from_slice(&tail);
        }
        (f, tci)
    }
}

const VIDS: [u64; 5] = [UNTAGGED, 0, 1, 0x67, 0xfff];

pub fn run_random(nruns: u64, len: u64, out_path: &str, mode: &str, nodes: usize) -> Value {
    let mut t = Trace::create(out_path);
    let mut steps = 0u64;
    let mut rng = rng(60);
    for run in 0..nruns {
        t.ev(json!({"op":"fwdreset","run":run + 1,"mode":mode,"nodes":nodes,"st":SWITCH_TIMEOUT}));
        if mode == "router" {
            let mut m: Mesh<Packet> = Mesh::new(mode, nodes, 600 + run);
            for _ in 0..len {
                steps += 1;
                let x = rng.gen_range(0..100);
                let alive: Vec<usize> = (0..nodes).filter(|i| !m.dead[*i]).collect();
                if x < 45 {
                    let n = alive[rng.gen_range(0..alive.len())];
                    let dstv: u8 = [0, 3, 8, 9, 12, 13, 15, 11][rng.gen_range(0..8)];
                    let srcv: u8 = rng.gen_range(0..16);
                    let mut payload = vec![0u8; 24];
                    rng.fill(&mut payload[..]);
                    if rng.gen_bool(0.25) {
                        // the same leading bytes as an IPv6 address: another family, covered by no (IPv4) claim
                        let f = ipv6_packet(ip6_of(srcv), ip6_of(dstv), &payload);
                        m.iface(n, f, json!([6, srcv]), json!([6, dstv]), &mut t);
                    } else {
                        let f = ipv4_packet(ip_of(srcv), ip_of(dstv), &payload);
                        m.iface(n, f, json!([UNTAGGED, srcv]), json!([UNTAGGED, dstv]), &mut t);
                    }
                } else if x < 85 {
                    let fl = m.in_flight();
                    if !fl.is_empty() {
                        let (fid, to) = fl[rng.gen_range(0..fl.len())];
                        m.recv(fid, to, &mut t);
                    }
                } else {
                    let s = [1u64, 1, 2, SWITCH_TIMEOUT as u64][rng.gen_range(0..4)];
                    m.tick(s, &mut t);
                }
            }
            while let Some((fid, to)) = m.in_flight().first().copied() {
                m.recv(fid, to, &mut t);
            }
            t.ev(json!({"op":"quiet","panics":m.sim.total_panics()}));
        } else {
            let mut m: Mesh<Frame> = Mesh::new(mode, nodes, 600 + run);
            let mut left = 0;
            // a "hot" conversation per run: two hosts in one VLAN talking all the time (re-learning, expiry while active)
            let hot = (VIDS[rng.gen_range(0..VIDS.len())], rng.gen_range(1..=3u8), rng.gen_range(1..=3u8), rng.gen_range(0..nodes), rng.gen_range(0..nodes));
            for _ in 0..len {
                steps += 1;
                let x = rng.gen_range(0..100);
                let alive: Vec<usize> = (0..nodes).filter(|i| !m.dead[*i]).collect();
                if x < 45 {
                    let mut n = alive[rng.gen_range(0..alive.len())];
                    let (mut sm, mut dm) = (rng.gen_range(1..=3u8), rng.gen_range(1..=3u8));
                    let mut vid = VIDS[rng.gen_range(0..VIDS.len())];
                    if rng.gen_bool(0.55) {
                        vid = hot.0;
                        if rng.gen_bool(0.5) {
                            sm = hot.1;
                            dm = hot.2;
                            if alive.contains(&hot.3) {
                                n = hot.3;
                            }
                        } else {
                            sm = hot.2;
                            dm = hot.1;
                            if alive.contains(&hot.4) {
                                n = hot.4;
                            }
                        }
                    }
                    let fid = m.nframes + 1;
                    let (f, tci) = eth(sm, vid, dm, &mut rng, fid);
                    m.iface(n, f, json!([tci, sm]), json!([tci, dm]), &mut t);
                } else if x < 84 {
                    let fl = m.in_flight();
                    if !fl.is_empty() {
                        let (fid, to) = fl[rng.gen_range(0..fl.len())];
                        m.recv(fid, to, &mut t);
                    }
                } else if x < 99 || left > 0 || alive.len() <= 2 || m.plain {
                    // (in an unencrypted session the close message, type 0xff, is taken for a handshake datagram and
                    //  ignored, so a leaving node is only forgotten by time-out: no leave events in plain meshes)
                    let st = SWITCH_TIMEOUT as u64;
                    let s = [1u64, 1, 2, st - 1, st, st + 1][rng.gen_range(0..6)];
                    m.tick(s, &mut t);
                } else {
                    let n = alive[rng.gen_range(0..alive.len())];
                    m.leave(n, &mut t);
                    left += 1;
                }
            }
            while let Some((fid, to)) = m.in_flight().first().copied() {
                m.recv(fid, to, &mut t);
            }
            t.ev(json!({"op":"quiet","panics":m.sim.total_panics()}));
        }
    }
    let events = t.finish();
    json!({"runs": nruns, "steps": steps, "events": events})
}

/// TLC schedules: labels {op: iface, n, src:[tci,mac], dst:[tci,mac]} / {op: recv, fid, to} / {op: tick}
pub fn run_sched(sched_path: &str, out_path: &str, mode: &str) -> Value {
    let scheds = read_ndjson(sched_path);
    let mut t = Trace::create(out_path);
    let mut rng = rng(61);
    let (mut runs, mut steps, mut skipped) = (0u64, 0u64, 0u64);
    for sched in &scheds {
        runs += 1;
        t.ev(json!({"op":"fwdreset","run":runs,"mode":mode,"nodes":3,"st":SWITCH_TIMEOUT}));
        macro_rules! drive {
            ($m:ident, $mk:expr) => {{
                for st in sched.as_array().unwrap() {
                    steps += 1;
                    match st["op"].as_str().unwrap() {
                        "iface" => {
                            let n = st["n"].as_u64().unwrap() as usize - 1;
                            let (stci, sm) = (st["src"][0].as_u64().unwrap(), st["src"][1].as_u64().unwrap() as u8);
                            let (_dtci, dm) = (st["dst"][0].as_u64().unwrap(), st["dst"][1].as_u64().unwrap() as u8);
                            let fid = $m.nframes + 1;
                            let (f, tci, s, d) = $mk(sm, stci, dm, &mut rng, fid);
                            let _ = tci;
                            $m.iface(n, f, s, d, &mut t);
                        }
                        "recv" => {
                            if !$m.recv(st["fid"].as_u64().unwrap(), st["to"].as_u64().unwrap(), &mut t) {
                                skipped += 1;
                            }
                        }
                        "tick" => $m.tick(st["secs"].as_u64().unwrap_or(1), &mut t),
                        other => panic!("unknown op {}", other),
                    }
                }
                while let Some((fid, to)) = $m.in_flight().first().copied() {
                    $m.recv(fid, to, &mut t);
                }
                t.ev(json!({"op":"quiet","panics":$m.sim.total_panics()}));
            }};
        }
        if mode == "router" {
            let mut m: Mesh<Packet> = Mesh::new(mode, 3, 700 + runs);
            drive!(m, |sm: u8, _stci: u64, dm: u8, rng: &mut rand::rngs::StdRng, _fid: u64| {
                let mut payload = vec![0u8; 24];
                rng.fill(&mut payload[..]);
                (ipv4_packet(ip_of(sm), ip_of(dm), &payload), UNTAGGED, json!([UNTAGGED, sm]), json!([UNTAGGED, dm]))
            });
        } else {
            let mut m: Mesh<Frame> = Mesh::new(mode, 3, 700 + runs);
            drive!(m, |sm: u8, stci: u64, dm: u8, rng: &mut rand::rngs::StdRng, fid: u64| {
                let (f, tci) = eth(sm, stci, dm, rng, fid);
                (f, tci, json!([tci, sm]), json!([tci, dm]))
            });
        }
    }
    let events = t.finish();
    json!({"runs": runs, "steps": steps, "events": events, "skipped_steps": skipped})
}

/// C13 tag normalisation: Frame::parse on a tagged frame for every one of the 65536 tag-control values (and untagged)
pub fn run_vlan(out_path: &str) -> Value {
    let mut t = Trace::create(out_path);
    let mut n = 0u64;
    let f0 = eth_frame(mac(1), mac(2), None, &[0u8; 8]);
    let (s0, _) = Frame::parse(&f0).expect("untagged frame");
    t.ev(json!({"op":"vlan","tci":UNTAGGED,"alen":s0.len,"key":[0, 0],"res":"ok"}));
    for tci in 0..=65535u32 {
        let f = eth_frame(mac(1), mac(2), Some(tci as u16), &[0u8; 8]);
        n += 1;
        match guarded(|| Frame::parse(&f)) {
            Ok(Ok((src, dst))) => {
                let key = if src.len == 8 { [src.data[0] as u64, src.data[1] as u64] } else { [0, 0] };
                let same = src.len == dst.len && (src.len == 6 || src.data[..2] == dst.data[..2]);
                t.ev(json!({"op":"vlan","tci":tci,"alen":src.len,"key":key,"res": if same { "ok" } else { "mismatch" }}));
            }
            Ok(Err(_)) => t.ev(json!({"op":"vlan","tci":tci,"alen":0,"key":[0,0],"res":"reject"})),
            Err(_) => t.ev(json!({"op":"vlan","tci":tci,"alen":0,"key":[0,0],"res":"panic"})),
        }
    }
    let events = t.finish();
    json!({"runs": 1, "steps": n, "events": events})
}
