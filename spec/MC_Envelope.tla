---------------------------- MODULE MC_Envelope ----------------------------
(* TLC-only definitions for the exhaustive run of Envelope: a 3-node mesh (three connections, every ordered pair of
   connections for cross-connection injection), two slots + one key id that names no slot, all tamper classes,
   reflection, one rotation per connection, every assignment of unencrypted sessions. *)
EXTENDS Envelope, TLC, Json

CONSTANTS MaxSeals, MaxRot

RECURSIVE SumSeals(_)
SumSeals(S) == IF S = {} THEN 0
               ELSE LET c == CHOOSE x \in S : TRUE
                        e == Lower(c)
                    IN nseal[c][e] + nseal[c][Peer(c, e)] + SumSeals(S \ {c})

RECURSIVE SumFresh(_)
SumFresh(S) == IF S = {} THEN 0 ELSE LET c == CHOOSE x \in S : TRUE IN (fresh[c] - 2) + SumFresh(S \ {c})

\* the bounds are guards of the steps (a CONSTRAINT would still have TLC evaluate the invariants on the states beyond it)
MCNext == \/ SumSeals(Conns) < MaxSeals /\ SealStep
          \/ PresentStep
          \/ PlainStep
          \/ SumFresh(Conns) < MaxRot /\ RotateStep

\* unencrypted sessions: none, one connection, two connections, all (the ends are interchangeable)
MCPlainChoices == {[c \in Conns |-> FALSE], [c \in Conns |-> c = {1, 2}], [c \in Conns |-> c # {2, 3}], [c \in Conns |-> TRUE]}
MCInit == Init /\ plain \in MCPlainChoices
MCSpec == MCInit /\ [][MCNext]_vars

\* every way an unaltered datagram can arrive in this mesh: <<sealed for, sealed by, presented on, presented at>>
\* (6 rightful deliveries, 6 reflections, 24 cross-connection injections); exported so that the check can demand that
\* the driver exercised each of them on the real code
IntactShapes == {s \in Conns \X Ends \X Conns \X Ends : s[2] \in s[1] /\ s[4] \in s[3]}
ASSUME \A s \in IntactShapes : PrintT(<<"SHAPE", ToJson(s)>>)
=============================================================================
