//! C17: beacons round-trip, are found inside arbitrary text, respect age and password.
//! `beacon roundtrip <quick|thorough> <trace>`  encode/decode at the same hour: all 65 536 hour stamps for one list (four
//!        in thorough), 200 passwords x 45 list shapes (0..8 IPv4, 0..4 IPv6) at sampled hours (1 / 4 per cell)
//! `beacon age <quick|thorough> <trace>`        encode at `then`, decode at `now` with limit `ttl`: boundary stamps for the
//!        limits {0,1,24,50,32767,32768,65535} and random ones, one full sweep over all 65 536 clocks
//! `beacon embed <quick|thorough> <trace>`      token sequences of Beacon.tla instantiated as text (all up to a length,
//!        sampled beyond), beacons of other passwords, arbitrary text
//! Events carry all inputs and what BeaconSerializer::decode returned; panics are results.
use super::util::*;
use crate::beacon::BeaconSerializer;
use crate::util::{from_base62, MockTimeSource};
use rand::{seq::SliceRandom, Rng};
use serde_json::{json, Value};
use std::net::{IpAddr, Ipv4Addr, Ipv6Addr, SocketAddr};

type Ser = BeaconSerializer<MockTimeSource>;

const NO_LIMIT: u32 = 65536;
pub const KINDS: [&str; 11] = ["junk", "sep", "beacon", "wrongpw", "old", "begin", "end", "pbegin", "pend", "ovbe", "oveb"];
/// the token alphabet of MC_Beacon (two beacon entries: two different lists)
const ALPHA: [&str; 12] = ["junk", "sep", "beacon", "beacon", "wrongpw", "old", "begin", "end", "pbegin", "pend", "ovbe", "oveb"];
const SEPS: [&str; 16] = [" ", "\n", "\t", "-", ".", ":", "/", "_", "=", "+", "\"", "{", "é", "—", "密", "٣"];
const ALNUM: &[u8] = b"0123456789ABCDEFGHIJKLMNOPQRSTUVWXYZabcdefghijklmnopqrstuvwxyz";

fn set_hour(hour: u32, rng: &mut impl Rng) {
    // the clock is not limited to 16 bits of hours; seconds within the hour are arbitrary
    let k: i64 = *[0i64, 0, 7, 1, 100].choose(rng).unwrap();
    MockTimeSource::set_time((hour as i64 + 65536 * k) * 3600 + rng.gen_range(0..3600));
}

fn ttl_opt(ttl: u32) -> Option<u16> {
    if ttl >= NO_LIMIT {
        None
    } else {
        Some(ttl as u16)
    }
}

fn passwords() -> Vec<Vec<u8>> {
    let mut p: Vec<Vec<u8>> = vec![
        b"".to_vec(),
        b"mysecretkey".to_vec(),
        b"a".to_vec(),
        b" ".to_vec(),
        b"password".to_vec(),
        "pässwörd".as_bytes().to_vec(),
        "密码".as_bytes().to_vec(),
        "🔑".as_bytes().to_vec(),
        vec![0u8],
        vec![0xff, 0xfe, 0x00, 0x80],
        vec![b'x'; 1024],
        vec![b'y'; 127],
        vec![b'y'; 128],
        vec![b'y'; 125],
    ];
    let mut i = 0;
    while p.len() < 200 {
        p.push(format!("pw{}", i).into_bytes());
        i += 1;
    }
    p
}

struct Markers {
    begin: String,
    end: String,
}

fn markers(ser: &Ser) -> Markers {
    let e = ser.encode(&[]);
    Markers { begin: e[..5].to_string(), end: e[e.len() - 5..].to_string() }
}

/// largest k in 1..=4 such that the last k characters of a are the first k characters of b (0: none)
fn overlap(a: &str, b: &str) -> usize {
    (1..=4).rev().find(|k| a[5 - k..] == b[..*k]).unwrap_or(0)
}

fn rand_v4(rng: &mut impl Rng) -> SocketAddr {
    let ip = match rng.gen_range(0..10) {
        0 => Ipv4Addr::new(0, 0, 0, 0),
        1 => Ipv4Addr::new(255, 255, 255, 255),
        2 => Ipv4Addr::new(0, 0, 0, rng.gen()),
        3 => Ipv4Addr::new(127, 0, 0, 1),
        _ => Ipv4Addr::from(rng.gen::<u32>()),
    };
    let port = match rng.gen_range(0..8) {
        0 => 0,
        1 => 65535,
        2 => 3210,
        _ => rng.gen(),
    };
    SocketAddr::new(IpAddr::V4(ip), port)
}

fn rand_v6(rng: &mut impl Rng) -> SocketAddr {
    let ip = match rng.gen_range(0..10) {
        0 => Ipv6Addr::UNSPECIFIED,
        1 => Ipv6Addr::LOCALHOST,
        2 => Ipv4Addr::from(rng.gen::<u32>()).to_ipv6_mapped(),
        3 => Ipv6Addr::new(0xfe80, 0, 0, 0, 0, 0, 0, rng.gen()),
        4 => Ipv6Addr::new(0xffff, 0xffff, 0xffff, 0xffff, 0xffff, 0xffff, 0xffff, 0xffff),
        _ => Ipv6Addr::from(rng.gen::<u128>()),
    };
    let port = match rng.gen_range(0..8) {
        0 => 0,
        1 => 65535,
        _ => rng.gen(),
    };
    SocketAddr::new(IpAddr::V6(ip), port)
}

/// list with n4 IPv4 and n6 IPv6 entries in mixed order
fn rand_list(rng: &mut impl Rng, n4: usize, n6: usize) -> Vec<SocketAddr> {
    let mut l: Vec<SocketAddr> = vec![];
    for _ in 0..n4 {
        l.push(rand_v4(rng));
    }
    for _ in 0..n6 {
        l.push(rand_v6(rng));
    }
    l.shuffle(rng);
    l
}

fn strs(l: &[SocketAddr]) -> Vec<String> {
    l.iter().map(|a| a.to_string()).collect()
}

/// decode under panic capture: (res, addresses, panic message)
fn decode(ser: &Ser, text: &str, ttl: u32) -> (&'static str, Vec<SocketAddr>, String) {
    match guarded(|| ser.decode(text, ttl_opt(ttl))) {
        Ok(v) => ("ok", v, String::new()),
        Err(p) => ("panic", vec![], p),
    }
}

fn plain_len(n4: usize, n6: usize) -> usize {
    4 + 6 * n4 + 18 * n6
}

/// number of bytes the body text decodes to (classification only: shorter than the plain length = leading zero lost)
fn body_bytes(beacon: &str) -> i64 {
    if beacon.len() < 10 {
        return -1;
    }
    from_base62(&beacon[5..beacon.len() - 5]).map(|v| v.len() as i64).unwrap_or(-1)
}

struct RtStat {
    events: u64,
    lost: u64,
}

fn roundtrip_event(t: &mut Trace, st: &mut RtStat, ser: &Ser, pw: usize, hour: u32, ttl: u32, list: &[SocketAddr], fam: &str) -> bool {
    let (n4, n6) = (list.iter().filter(|a| a.is_ipv4()).count(), list.iter().filter(|a| a.is_ipv6()).count());
    let enc = guarded(|| ser.encode(list));
    let (res, got, text, why) = match enc {
        Ok(text) => {
            let (res, got, why) = decode(ser, &text, ttl);
            (res, got, text, why)
        }
        Err(p) => ("panic", vec![], String::new(), p),
    };
    let mut g = strs(&got);
    let mut a = strs(list);
    g.sort();
    a.sort();
    let same = g == a;
    st.events += 1;
    st.lost += (!same) as u64;
    t.ev(json!({"op":"roundtrip","fam":fam,"pw":pw,"hour":hour,"ttl":ttl,"v4":n4,"v6":n6,"addrs":strs(list),"got":strs(&got),"res":res,
        "plain_len":plain_len(n4, n6),"body_bytes":body_bytes(&text),"text": if same { String::new() } else { text }, "why": why}));
    same
}

pub fn run_roundtrip(quick: bool, out: &str) -> Value {
    let mut t = Trace::create(out);
    let mut rng = rng(170);
    let pws = passwords();
    let mut st = RtStat { events: 0, lost: 0 };
    // (a) every hour stamp for one list (and three more in thorough)
    let combos: Vec<(usize, usize, usize)> = if quick { vec![(1, 1, 1)] } else { vec![(1, 2, 1), (5, 0, 1), (17, 1, 0), (0, 3, 0)] };
    for (pw, n4, n6) in combos {
        let ser = Ser::new(&pws[pw]);
        let list = rand_list(&mut rng, n4, n6);
        for hour in 0..65536u32 {
            set_hour(hour, &mut rng);
            let ttl = [NO_LIMIT, 0, 50, 1][(hour % 4) as usize];
            roundtrip_event(&mut t, &mut st, &ser, pw, hour, ttl, &list, "allhours");
        }
    }
    // (b) 200 passwords x 45 shapes at sampled hours
    let per = if quick { 1 } else { 4 };
    for (pw, key) in pws.iter().enumerate() {
        let ser = Ser::new(key);
        for n4 in 0..=8usize {
            for n6 in 0..=4usize {
                for _ in 0..per {
                    let list = rand_list(&mut rng, n4, n6);
                    let hour = match rng.gen_range(0..10) {
                        0 => 0,
                        1 => 65535,
                        _ => rng.gen_range(0..65536),
                    };
                    set_hour(hour, &mut rng);
                    let ttl = *[NO_LIMIT, 0, 50, 65535].choose(&mut rng).unwrap();
                    roundtrip_event(&mut t, &mut st, &ser, pw, hour, ttl, &list, "sampled");
                }
            }
        }
    }
    let events = t.finish();
    json!({"runs": st.events, "steps": st.events, "events": events, "lost": st.lost})
}

fn fwd(a: u32, b: u32) -> u32 {
    (a + 65536 - b) % 65536
}

pub fn run_age(quick: bool, out: &str) -> Value {
    let mut t = Trace::create(out);
    let mut rng = rng(171);
    let pws = passwords();
    let mut steps = 0u64;
    let mut not_rt = 0u64;
    let mut age_ev = |t: &mut Trace, rng: &mut rand::rngs::StdRng, ser: &Ser, text: &str, rt: bool, n: usize, now: u32, then: u32, ttl: u32| {
        set_hour(now, rng);
        let (res, got, why) = decode(ser, text, ttl);
        t.ev(json!({"op":"age","now":now,"then":then,"ttl":ttl,"n":n,"got_n":got.len(),"rt":rt,"res":res,"why":why}));
    };
    // encode at `then`; rt = decodes without limit (the round trip itself is the subject of the other family)
    let make = |rng: &mut rand::rngs::StdRng, ser: &Ser, then: u32| -> (String, bool, usize) {
        let (n4, n6) = (rng.gen_range(0..=3usize), rng.gen_range(0..=2usize));
        let list = rand_list(rng, n4.max(1 - n6.min(1)), n6);
        set_hour(then, rng);
        let text = ser.encode(&list);
        let (res, got, _) = decode(ser, &text, NO_LIMIT);
        let mut g = strs(&got);
        let mut a = strs(&list);
        g.sort();
        a.sort();
        (text, res == "ok" && g == a, list.len())
    };
    let limits: [u32; 7] = [0, 1, 24, 50, 32767, 32768, 65535];
    let rounds = if quick { 40 } else { 400 };
    for round in 0..rounds {
        let ser = Ser::new(&pws[round % pws.len()]);
        for li in 0..limits.len() + 3 {
            let ttl = if li < limits.len() { limits[li] } else { *[rng.gen_range(0..65536), rng.gen_range(0..200), NO_LIMIT].choose(&mut rng).unwrap() };
            let then = match rng.gen_range(0..8) {
                0 => 0,
                1 => 65535,
                2 => ttl.min(65535),
                3 => 32768,
                _ => rng.gen_range(0..65536),
            };
            let (text, rt, n) = make(&mut rng, &ser, then);
            not_rt += (!rt) as u64;
            let tt = ttl.min(65535);
            let mut nows: Vec<u32> = vec![then, (then + 1) % 65536, fwd(then, 1), (then + 32768) % 65536, (then + 32767) % 65536, 0, 65535, rng.gen_range(0..65536)];
            for d in [tt, tt + 1, tt + 2, tt.saturating_sub(1)] {
                nows.push((then + d) % 65536);
                nows.push(fwd(then, d % 65536));
            }
            for now in nows {
                age_ev(&mut t, &mut rng, &ser, &text, rt, n, now, then, ttl);
                steps += 1;
            }
        }
    }
    // full sweeps over all clocks
    let sweeps: Vec<(u32, u32)> = if quick { vec![(40000, 50)] } else { vec![(40000, 50), (3, 24), (65530, 32767), (12345, 0), (777, 32768)] };
    for (then0, ttl) in sweeps {
        let ser = Ser::new(&pws[1]);
        let mut then = then0;
        let (text, n, rt_ok) = loop {
            let (text, rt, n) = make(&mut rng, &ser, then);
            if rt || not_rt > 2000 {
                break (text, n, rt);
            }
            not_rt += 1;
            then = (then + 1) % 65536;
        };
        for now in 0..65536u32 {
            age_ev(&mut t, &mut rng, &ser, &text, rt_ok, n, now, then, ttl);
            steps += 1;
        }
    }
    let events = t.finish();
    json!({"runs": steps, "steps": steps, "events": events, "not_roundtripping": not_rt})
}

fn rand_alnum(rng: &mut impl Rng, lo: usize, hi: usize) -> String {
    let n = rng.gen_range(lo..=hi);
    (0..n).map(|_| ALNUM[rng.gen_range(0..62)] as char).collect()
}

fn rand_sep(rng: &mut impl Rng) -> String {
    let n = rng.gen_range(1..=3);
    (0..n).map(|_| *SEPS.choose(rng).unwrap()).collect()
}

fn interleave(rng: &mut impl Rng, s: &str) -> String {
    let mut o = String::new();
    for c in s.chars() {
        if rng.gen_range(0..6) == 0 {
            o.push_str(&rand_sep(rng));
        }
        o.push(c);
    }
    o
}

fn sanitized(s: &str) -> String {
    s.chars().filter(|c| c.is_ascii_alphanumeric()).collect()
}

/// all (overlapping) occurrences of `needle`
fn occurrences(hay: &str, needle: &str) -> Vec<usize> {
    let (h, n) = (hay.as_bytes(), needle.as_bytes());
    if n.is_empty() || h.len() < n.len() {
        return vec![];
    }
    (0..=h.len() - n.len()).filter(|i| &h[*i..*i + n.len()] == n).collect()
}

struct PwCtx {
    id: i64,
    ser: Ser,
    m: Markers,
    ov_be: usize,
    ov_eb: usize,
}

fn pwctx(id: i64, key: &[u8]) -> PwCtx {
    let ser = Ser::new(key);
    let m = markers(&ser);
    let (ov_be, ov_eb) = (overlap(&m.begin, &m.end), overlap(&m.end, &m.begin));
    PwCtx { id, ser, m, ov_be, ov_eb }
}

/// A beacon of `p` for a random list stamped `then` that round-trips standalone (others are recorded as round-trip events).
fn good_beacon(rng: &mut rand::rngs::StdRng, t: &mut Trace, st: &mut RtStat, p: &PwCtx, then: u32, allow_empty: bool) -> (String, Vec<SocketAddr>) {
    for attempt in 0.. {
        let (n4, n6) = (rng.gen_range(0..=3usize), rng.gen_range(0..=2usize));
        let list = if allow_empty && rng.gen_range(0..12) == 0 { vec![] } else { rand_list(rng, n4.max(1 - n6.min(1)), n6) };
        set_hour(then, rng);
        let text = p.ser.encode(&list);
        let (res, got, _) = decode(&p.ser, &text, NO_LIMIT);
        let mut g = strs(&got);
        let mut a = strs(&list);
        g.sort();
        a.sort();
        if res == "ok" && g == a {
            return (text, list);
        }
        roundtrip_event(t, st, &p.ser, p.id as usize, then, NO_LIMIT, &list, "embed-candidate");
        if attempt >= 8 {
            // round trips fail systematically: use the beacon as it is (the embedding event will be judged as well)
            return (text, list);
        }
    }
    unreachable!()
}

struct Built {
    text: String,
    tokens: Vec<Value>,
    clean: bool,
}

/// Instantiate a sequence of token kinds for password `p` read at hour `now` with limit `ttl`.
fn build(rng: &mut rand::rngs::StdRng, t: &mut Trace, st: &mut RtStat, p: &PwCtx, other: &PwCtx, kinds: &[&str], now: u32, ttl: u32) -> Option<Built> {
    // the genuine beacons are fixed, junk is regenerated until the marker occurrences are the intended ones
    let mut fixed: Vec<Option<(String, Vec<SocketAddr>)>> = vec![];
    for k in kinds {
        fixed.push(match *k {
            "beacon" => {
                let d = if ttl >= NO_LIMIT { rng.gen_range(0..65536) } else { rng.gen_range(0..=ttl.min(32767)) };
                let then = if rng.gen_bool(0.5) { (now + d) % 65536 } else { fwd(now, d) };
                Some(good_beacon(rng, t, st, p, then, true))
            }
            "old" => {
                // outside the limit in either direction: distance in ttl+1 ..= 65535-ttl
                let d = rng.gen_range(ttl + 1..=65535 - ttl);
                Some(good_beacon(rng, t, st, p, (now + d) % 65536, false))
            }
            "wrongpw" => {
                set_hour(now, rng);
                let list = rand_list(rng, 1, 1);
                Some((other.ser.encode(&list), list))
            }
            _ => None,
        });
    }
    for _attempt in 0..30 {
        let mut text = String::new();
        let mut tokens = vec![];
        let mut want_b: Vec<usize> = vec![];
        let mut want_e: Vec<usize> = vec![];
        let mut off = 0usize; // length of the sanitized text so far
        for (i, k) in kinds.iter().enumerate() {
            let mut addrs: Vec<String> = vec![];
            let piece: String = match *k {
                "junk" => rand_alnum(rng, 1, 12),
                "sep" => rand_sep(rng),
                "beacon" | "old" => {
                    let (b, list) = fixed[i].as_ref().unwrap();
                    want_b.push(off);
                    want_e.push(off + b.len() - 5);
                    if *k == "beacon" {
                        addrs = strs(list);
                    }
                    if rng.gen_bool(0.5) {
                        interleave(rng, b)
                    } else {
                        b.clone()
                    }
                }
                "wrongpw" => fixed[i].as_ref().unwrap().0.clone(),
                "begin" => {
                    want_b.push(off);
                    p.m.begin.clone()
                }
                "end" => {
                    want_e.push(off);
                    p.m.end.clone()
                }
                "pbegin" | "pend" => {
                    let m = if *k == "pbegin" { &p.m.begin } else { &p.m.end };
                    let c = rng.gen_range(1..=4);
                    if rng.gen_bool(0.5) {
                        m[..c].to_string()
                    } else {
                        m[c..].to_string()
                    }
                }
                "ovbe" => {
                    want_b.push(off);
                    want_e.push(off + 5 - p.ov_be);
                    format!("{}{}", p.m.begin, &p.m.end[p.ov_be..])
                }
                "oveb" => {
                    want_e.push(off);
                    want_b.push(off + 5 - p.ov_eb);
                    format!("{}{}", p.m.end, &p.m.begin[p.ov_eb..])
                }
                other => panic!("unknown token kind {}", other),
            };
            off += sanitized(&piece).len();
            text.push_str(&piece);
            tokens.push(json!({"k": k, "a": addrs}));
        }
        let san = sanitized(&text);
        want_b.sort();
        want_e.sort();
        if occurrences(&san, &p.m.begin) == want_b && occurrences(&san, &p.m.end) == want_e {
            return Some(Built { text, tokens, clean: true });
        }
    }
    None
}

fn kinds_of(mut idx: usize, len: usize) -> Vec<&'static str> {
    let mut v = vec![];
    for _ in 0..len {
        v.push(ALPHA[idx % ALPHA.len()]);
        idx /= ALPHA.len();
    }
    v
}

pub fn run_embed(quick: bool, out: &str) -> Value {
    let mut t = Trace::create(out);
    let mut rng = rng(172);
    let mut st = RtStat { events: 0, lost: 0 };
    let pws: Vec<PwCtx> = passwords().iter().enumerate().map(|(i, k)| pwctx(i as i64, k)).filter(|p| p.m.begin != p.m.end).collect();
    // passwords whose markers overlap (searched: about 1 in 62 each, 1 in 3844 both)
    let (mut pool_be, mut pool_eb, mut pool_both): (Vec<PwCtx>, Vec<PwCtx>, Vec<PwCtx>) = (vec![], vec![], vec![]);
    let mut searched = 0u64;
    for i in 0..400000u64 {
        if pool_be.len() >= 6 && pool_eb.len() >= 6 && pool_both.len() >= 2 {
            break;
        }
        searched += 1;
        let p = pwctx(1000 + i as i64, format!("ov{}", i).as_bytes());
        if p.m.begin == p.m.end {
            continue;
        }
        if p.ov_be > 0 && p.ov_eb > 0 {
            if pool_both.len() < 2 {
                pool_both.push(p);
            }
        } else if p.ov_be > 0 {
            if pool_be.len() < 6 {
                pool_be.push(p);
            }
        } else if p.ov_eb > 0 && pool_eb.len() < 6 {
            pool_eb.push(p);
        }
    }
    let (mut embeds, mut skipped, mut panics) = (0u64, 0u64, 0u64);
    let full_len = if quick { 3 } else { 5 };
    let mut seqs: Vec<Vec<&'static str>> = vec![];
    for len in 0..=full_len {
        for idx in 0..ALPHA.len().pow(len as u32) {
            seqs.push(kinds_of(idx, len));
        }
    }
    let nrand = if quick { 5000 } else { 0 };
    for i in 0..nrand {
        let len = if i % 4 == 0 && full_len < 4 { 4 } else { 5 };
        seqs.push(kinds_of(rng.gen_range(0..ALPHA.len().pow(len as u32)), len));
    }
    for (n, kinds) in seqs.iter().enumerate() {
        let (has_be, has_eb) = (kinds.contains(&"ovbe"), kinds.contains(&"oveb"));
        let p: &PwCtx = match (has_be, has_eb) {
            (true, true) => &pool_both[n % pool_both.len()],
            (true, false) => {
                if n % 5 == 0 {
                    &pool_both[n % pool_both.len()]
                } else {
                    &pool_be[n % pool_be.len()]
                }
            }
            (false, true) => &pool_eb[n % pool_eb.len()],
            _ => match n % 7 {
                0 => &pool_be[n % pool_be.len()],
                1 => &pool_eb[n % pool_eb.len()],
                _ => &pws[n % pws.len()],
            },
        };
        let other = &pws[(n * 7 + 3) % pws.len()];
        if other.id == p.id {
            continue;
        }
        let now = match rng.gen_range(0..6) {
            0 => 0,
            1 => 65535,
            _ => rng.gen_range(0..65536),
        };
        let ttl = if kinds.contains(&"old") { *[0u32, 1, 50, 50, 24, 32767, 1000].choose(&mut rng).unwrap() } else { *[0u32, 50, 50, 32768, 65535, NO_LIMIT].choose(&mut rng).unwrap() };
        match build(&mut rng, &mut t, &mut st, p, other, kinds, now, ttl) {
            None => {
                skipped += 1;
                t.ev(json!({"op":"skip","why":"marker occurrences could not be controlled"}));
            }
            Some(b) => {
                set_hour(now, &mut rng);
                let (res, got, why) = decode(&p.ser, &b.text, ttl);
                embeds += 1;
                panics += (res == "panic") as u64;
                let _ = b.clean;
                t.ev(json!({"op":"embed","pw":p.id,"now":now,"ttl":ttl,"tokens":b.tokens,"got":strs(&got),"res":res,"why":why,"text":b.text,
                    "begin":p.m.begin,"end":p.m.end}));
            }
        }
    }
    // beacons of another password
    let mut wrong = 0u64;
    let nwrong = if quick { 2000 } else { 20000 };
    for i in 0..nwrong {
        let a = &pws[i % pws.len()];
        let b = &pws[(i / pws.len() * 13 + i + 1 + i % 17) % pws.len()];
        if a.id == b.id {
            continue;
        }
        let now = rng.gen_range(0..65536);
        set_hour(now, &mut rng);
        let (w4, w6) = (rng.gen_range(1..=4), rng.gen_range(0..=2));
        let list = rand_list(&mut rng, w4, w6);
        let text = a.ser.encode(&list);
        let san = sanitized(&text);
        if !occurrences(&san, &b.m.begin).is_empty() && !occurrences(&san, &b.m.end).is_empty() {
            t.ev(json!({"op":"skip","why":"markers of the reader occur in the other password's beacon"}));
            continue;
        }
        let ttl = *[NO_LIMIT, 50, 65535].choose(&mut rng).unwrap();
        let (res, got, why) = decode(&b.ser, &text, ttl);
        wrong += 1;
        t.ev(json!({"op":"wrongpw","pw":b.id,"made_by":a.id,"now":now,"ttl":ttl,"n":list.len(),"got":strs(&got),"res":res,"why":why,"text":text}));
    }
    // arbitrary text: fragments of everything, only "no panic" is demanded
    let mut texts = 0u64;
    let ntext = if quick { 6000 } else { 60000 };
    let mut all: Vec<&PwCtx> = pws.iter().collect();
    all.extend(pool_be.iter());
    all.extend(pool_eb.iter());
    all.extend(pool_both.iter());
    for i in 0..ntext {
        let p = all[(i * 31 + i / 3) % all.len()];
        let now = rng.gen_range(0..65536);
        set_hour(now, &mut rng);
        let (w4, w6) = (rng.gen_range(0..=2), rng.gen_range(0..=1));
        let beacon = p.ser.encode(&rand_list(&mut rng, w4, w6));
        let mut text = String::new();
        let nfrag = rng.gen_range(0..=8);
        for _ in 0..nfrag {
            let c = rng.gen_range(1..=4);
            match rng.gen_range(0..14) {
                0 => text.push_str(&p.m.begin),
                1 => text.push_str(&p.m.end),
                2 => text.push_str(&p.m.begin[..c]),
                3 => text.push_str(&p.m.end[c..]),
                4 => text.push_str(&p.m.end[..c]),
                5 => text.push_str(&p.m.begin[c..]),
                6 => text.push_str(&rand_alnum(&mut rng, 1, 8)),
                7 => text.push_str(&rand_sep(&mut rng)),
                8 => text.push_str(&beacon),
                9 => {
                    let cut = rng.gen_range(0..=beacon.len());
                    text.push_str(&beacon[..cut])
                }
                10 => {
                    let cut = rng.gen_range(0..=beacon.len());
                    text.push_str(&beacon[cut..])
                }
                11 => text.push(char::from_u32(rng.gen_range(0x20..0x2fff)).unwrap_or('x')),
                12 => text.push_str(&p.m.end[1..]),
                _ => text.push_str(&p.m.begin[..4]),
            }
        }
        let san = sanitized(&text);
        let (ob, oe) = (occurrences(&san, &p.m.begin), occurrences(&san, &p.m.end));
        let ovl = ob.iter().any(|b| oe.iter().any(|e| e >= b && *e < b + 5));
        let ttl = *[NO_LIMIT, 50, 0].choose(&mut rng).unwrap();
        let (res, got, why) = decode(&p.ser, &text, ttl);
        texts += 1;
        panics += (res == "panic") as u64;
        t.ev(json!({"op":"text","pw":p.id,"ttl":ttl,"ovl":ovl,"got_n":got.len(),"res":res,"why":why,"text":text,"begin":p.m.begin,"end":p.m.end}));
    }
    // very short bodies between valid markers: every base-62 string of up to 3 characters (all 1- and 2-byte bodies and
    // more), sampled strings of 4 and 5 characters (3-byte bodies), with and without an age limit.  About one in 256
    // passes the one-byte seed check and reaches the header parser.
    let alphabet: Vec<char> = "0123456789ABCDEFGHIJKLMNOPQRSTUVWXYZabcdefghijklmnopqrstuvwxyz".chars().collect();
    let mut short_members = 0u64;
    for (pi, p) in pws.iter().enumerate().take(if quick { 3 } else { 8 }) {
        for ttl in [NO_LIMIT, 50] {
            let now = 2000 + pi as u32;
            set_hour(now, &mut rng);
            let (mut members, mut fam_panics, mut found) = (0u64, 0u64, 0u64);
            let mut first_bad = String::new();
            let mut probe = |body: &str, members: &mut u64, fam_panics: &mut u64, found: &mut u64, first_bad: &mut String| {
                let text = format!("{}{}{}", p.m.begin, body, p.m.end);
                let (res, got, _) = decode(&p.ser, &text, ttl);
                *members += 1;
                if res == "panic" {
                    *fam_panics += 1;
                    if first_bad.is_empty() {
                        *first_bad = text;
                    }
                } else if !got.is_empty() {
                    *found += 1;
                }
            };
            probe("", &mut members, &mut fam_panics, &mut found, &mut first_bad);
            for a in &alphabet {
                probe(&a.to_string(), &mut members, &mut fam_panics, &mut found, &mut first_bad);
                for b in &alphabet {
                    probe(&format!("{}{}", a, b), &mut members, &mut fam_panics, &mut found, &mut first_bad);
                    for c in &alphabet {
                        probe(&format!("{}{}{}", a, b, c), &mut members, &mut fam_panics, &mut found, &mut first_bad);
                    }
                }
            }
            for _ in 0..(if quick { 60_000 } else { 600_000 }) {
                let len = rng.gen_range(4..=5);
                let body: String = (0..len).map(|_| alphabet[rng.gen_range(0..62)]).collect();
                probe(&body, &mut members, &mut fam_panics, &mut found, &mut first_bad);
            }
            short_members += members;
            panics += fam_panics;
            t.ev(json!({"op":"textfam","kind":"short-body","pw":p.id,"ttl":ttl,"members":members,"panics":fam_panics,"decoded_nonempty":found,"first_bad":first_bad}));
        }
    }
    let events = t.finish();
    json!({"runs": embeds + wrong + texts, "steps": embeds + wrong + texts + short_members, "events": events, "embeds": embeds, "skipped": skipped, "wrongpw": wrong, "short_bodies": short_members,
           "texts": texts, "panics": panics, "overlap_password_search": searched, "sequences": seqs.len(),
           "candidate_beacons_lost": st.lost, "pools": [pool_be.len(), pool_eb.len(), pool_both.len()]})
}

pub fn run(args: &[String]) -> Value {
    let a = |i: usize| args.get(i).map(|s| s.as_str()).unwrap_or("");
    let quick = a(1) != "thorough";
    let _ = KINDS;
    match a(0) {
        "roundtrip" => run_roundtrip(quick, a(2)),
        "age" => run_age(quick, a(2)),
        "embed" => run_embed(quick, a(2)),
        _ => json!({"error": "usage: beacon <roundtrip|age|embed> <quick|thorough> <trace.ndjson>"}),
    }
}
