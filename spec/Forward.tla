------------------------------ MODULE Forward ------------------------------
(***************************************************************************)
(* The data plane of a fully meshed overlay: what a node sends when it     *)
(* reads a frame from its interface, what it does with payload received    *)
(* from a peer, switch learning and its expiry.                            *)
(*                                                                         *)
(* Code: src/cloud.rs GenericCloud::{handle_interface_data, broadcast_msg, *)
(*       send_msg, handle_payload_from}, mode flags in GenericCloud::new,  *)
(*       src/table.rs ClaimTable::{lookup, cache, housekeep},              *)
(*       src/payload.rs Frame::parse (address = 12-bit VLAN id + MAC).     *)
(*                                                                         *)
(* Properties: C10 (no relaying, exact once-only delivery), C13 (learning  *)
(* per VLAN, last writer wins, expiry, hub/router learn nothing), node     *)
(* level of C11 (claimed destination -> longest prefix, unknown ->         *)
(* all peers or drop).                                                     *)
(***************************************************************************)
EXTENDS Naturals, Sequences, FiniteSets

CONSTANTS Nodes,       \* node ids (every pair is connected)
          Mode,        \* "switch" | "hub" | "router"
          ST,          \* switch timeout (seconds a learned address lives without refresh)
          Claim        \* Claim[n]: set of <<base, plen, width>> ranges announced by n (router mode)

Learning == Mode = "switch"
Broadcast == Mode \in {"switch", "hub"}
None == <<>>

\* addresses: <<vlan key, a>>; the vlan key of an untagged frame and of a priority-tagged frame (VLAN id 0) is 0
Untagged == 65536                    \* "tag control" value standing for "no 802.1Q tag"
VlanKey(tci) == IF tci >= Untagged THEN 0 ELSE tci % 4096
Addr(tci, a) == <<VlanKey(tci), a>>

RECURSIVE Pow2(_)
Pow2(k) == IF k = 0 THEN 1 ELSE 2 * Pow2(k - 1)
Covers(r, a) == r[2] <= r[3] /\ (a \div Pow2(r[3] - r[2])) = (r[1] \div Pow2(r[3] - r[2]))

VARIABLES now,
          learned,    \* learned[n]: set of [addr, peer, at]: at most one entry per address (last writer wins)
          net,        \* datagrams in flight: set of [id, from, to, fid]
          nextId,
          frames,     \* frames[fid] = [at (node that read it), src, dst, sentTo (set of nodes)]
          delivered,  \* delivered: set of <<fid, node, k>> (k-th delivery of that frame at that node)
          down        \* nodes that left the mesh (sent a close message)

vars == <<now, learned, net, nextId, frames, delivered, down>>

Init == /\ now = 0 /\ learned = [n \in Nodes |-> {}] /\ net = {} /\ nextId = 1 /\ frames = <<>> /\ delivered = {} /\ down = {}

Peers(n) == Nodes \ ({n} \cup down)
Entry(n, a) == {e \in learned[n] : e.addr = a}
\* a learned entry is live while at + ST >= now (the sweep keeps entries whose expiry is not in the past)
Live(e) == e.at + ST >= now

\* longest-prefix match over the claims of the peers (router mode); ties: any of the tied peers
LpmPeers(n, a) ==
  \* (claims are ranges of ONE address family - the claims of the model are family 0 - and never match an address of
  \*  another family, however short the prefix: Range::matches demands equal address lengths; in router mode the first
  \*  address component is the family: 0 = IPv4, 6 = IPv6)
  LET cand == {<<p, r>> \in UNION {{<<p, r>> : r \in Claim[p]} : p \in Peers(n)} : a[1] = 0 /\ Covers(r, a[2])}
      best == {c \in cand : \A d \in cand : d[2][2] <= c[2][2]} IN
  {c[1] : c \in best}

\* every set of next hops the properties admit for destination a at node n.
\* Boundary don't-care: an entry that is exactly ST old may already be gone or still be used.
Targets(n, a) ==
  LET es == Entry(n, a)
      unknown == IF Mode = "router"
                 THEN (IF LpmPeers(n, a) = {} THEN {{}} ELSE {{p} : p \in LpmPeers(n, a)})
                 ELSE (IF Broadcast THEN {Peers(n)} ELSE {{}}) IN
  IF es = {} THEN unknown
  ELSE LET e == CHOOSE x \in es : TRUE IN
       IF e.at + ST > now THEN {{e.peer}}
       ELSE IF e.at + ST = now THEN {{e.peer}} \cup unknown
       ELSE unknown

\* a frame <<src, dst>> (addresses) is read from the interface of n and goes to the next hops T
IfaceRead(n, src, dst, T) ==
  /\ T \in Targets(n, dst)
  /\ LET fid == Len(frames) + 1
         ids == [p \in T |-> nextId + Cardinality({q \in T : q < p})] IN
     /\ frames' = Append(frames, [at |-> n, src |-> src, dst |-> dst, sentTo |-> T])
     /\ net' = net \cup {[id |-> ids[p], from |-> n, to |-> p, fid |-> fid] : p \in T}
     /\ nextId' = nextId + Cardinality(T)
  /\ UNCHANGED <<now, learned, delivered, down>>

\* payload datagram d arrives: written to the interface once, nothing is sent; the source is learned in switch mode
NetRecv(d) ==
  /\ d \in net
  /\ net' = net \ {d}
  /\ delivered' = delivered \cup {<<d.fid, d.to, Cardinality({x \in delivered : x[1] = d.fid /\ x[2] = d.to}) + 1>>}
  /\ learned' = IF Learning
                THEN [learned EXCEPT ![d.to] = (@ \ Entry(d.to, frames[d.fid].src)) \cup {[addr |-> frames[d.fid].src, peer |-> d.from, at |-> now]}]
                ELSE learned
  /\ UNCHANGED <<now, nextId, frames, down>>

\* one housekeeping round: the clock advances, expired entries are swept
Tick ==
  /\ now' = now + 1
  /\ learned' = [n \in Nodes |-> {e \in learned[n] : e.at + ST >= now + 1}]
  /\ UNCHANGED <<net, nextId, frames, delivered, down>>

\* node n leaves (close message): every other node drops it as peer together with the addresses learned from it;
\* payload still in flight to or from it is discarded
Leave(n) ==
  /\ n \notin down /\ down' = down \cup {n}
  /\ learned' = [m \in Nodes |-> {e \in learned[m] : e.peer # n}]
  /\ net' = {d \in net : d.from # n /\ d.to # n}
  /\ UNCHANGED <<now, nextId, frames, delivered>>

-----------------------------------------------------------------------------
\* C10: traffic received from a peer is never forwarded: only interface reads create datagrams
NoRelay == [][\A d \in net : NetRecv(d) => net' \subseteq net]_vars
\* C10: once the network is quiet every frame was delivered exactly once to every node it was sent to, to no other
ExactlyOnce == net = {} => \A fid \in 1..Len(frames) :
                 /\ {x \in delivered : x[1] = fid} \subseteq {<<fid, p, 1>> : p \in frames[fid].sentTo}
                 /\ \A p \in frames[fid].sentTo \ down : <<fid, p, 1>> \in delivered \/ frames[fid].at \in down
\* C10: one datagram per selected peer - the overlay cannot amplify
NoAmplification == \A fid \in 1..Len(frames) : Cardinality({d \in net : d.fid = fid}) <= Cardinality(frames[fid].sentTo)
\* C13: hub and router learn nothing
OnlySwitchLearns == ~Learning => \A n \in Nodes : learned[n] = {}
\* C13: at most one next hop per address, and it is a peer
OneHopPerAddr == \A n \in Nodes : \A e1, e2 \in learned[n] : e1.addr = e2.addr => e1 = e2
LearnedArePeers == \A n \in Nodes : \A e \in learned[n] : e.peer \in Peers(n)
=============================================================================
