----------------------------- MODULE Trace_Keys -----------------------------
(* Trace validation for C18.  Every event recorded from the real code is a step of Keys.tla with the logged
   parameters; the logged observations (text, configuration result, handshake) are judged by the specification's
   operators.  An event that the specification cannot explain is printed as <<"BAD", line>> and counted in `bad`, and the run goes on,
   so that one run reports every failing input class; Accepted prints the first such line as REJECTED. *)
EXTENDS Keys, TLC, Json, IOUtils

Rec == ndJsonDeserialize(IOEnv.TRACE)
N == Len(Rec)
VARIABLES l, bad
tvars == <<vars, l, bad>>

TracePasswords == 0..255
TraceKeyOf == [p \in TracePasswords |-> p]

\* representative of a zero class, used where the trace does not carry the key bytes
ClassRep(z, salt) == [i \in 1..KeyWidth |-> IF i <= z THEN 0 ELSE ((i * 37 + salt * 11) % 255) + 1]

\* outcome the specification predicts for a key of class (k, j) configured in role r
OutcomeOf(k, j, r) == LET p == ClassRep(k, 1)
                          q == ClassRep(j, 2)
                          c == ConfigureResultFor(r, Enc(p), Enc(q), p, q)
                      IN [ok |-> c.ok, hs |-> c.ok /\ SameKeyFor(r, c, p, q)]
TableZeros == 4     \* classes up to here are tabulated once, rarer ones are computed per event
OutcomeTable == [k \in 0..TableZeros, j \in 0..TableZeros |-> [r \in Roles |-> OutcomeOf(k, j, r)]]
Outcome(k, j, r) == IF k <= TableZeros /\ j <= TableZeros THEN OutcomeTable[k, j][r] ELSE OutcomeOf(k, j, r)

ResStr(ok) == IF ok THEN "ok" ELSE "err"

\* each arm: <<the specification's step, judgement of the observations>>
Judge(e) ==
  CASE e.op = "codec" ->
         /\ e.res = "ok" /\ TextDenotes(e.text, e.bytes) /\ BytesDenote(e.back, e.bytes)
    [] e.op = "gen" ->
         IF e.full THEN LeadingZeros(e.seed) = e.seed_zeros /\ LeadingZeros(e.pub) = e.pub_zeros ELSE TRUE
    [] e.op = "print" ->
         IF e.full THEN TextDenotes(e.priv_text, priv) /\ TextDenotes(e.pub_text, pub) ELSE TRUE
    [] e.op = "configure" -> e.res = ResStr(cfg'.ok)
    [] e.op = "use" -> e.hs = hs' /\ (role = "priv" => e.pfp = "ok")
    [] e.op \in {"again", "done"} -> TRUE
    [] e.op = "lifecycle" ->
         LET o == Outcome(e.seed_zeros, e.pub_zeros, e.role)
         IN e.res = ResStr(o.ok) /\ e.hs = o.hs /\ (e.role = "priv" => e.pfp = "ok")
    [] e.op = "password" ->
         /\ e.res = "ok" /\ e.same_twice
         /\ e.peers = PeersByPassword(e.pw_id, e.pw_id)
         /\ e.other_pw_peers = PeersByPassword(e.pw_id, e.other_id)
    [] OTHER -> FALSE

Step(e) ==
  CASE e.op = "gen" -> IF e.full THEN GenKeyBytes(e.seed, e.pub)
                       ELSE GenKeyBytes(ClassRep(e.seed_zeros, 1), ClassRep(e.pub_zeros, 2))
    [] e.op = "print" -> PrintKeys
    [] e.op = "configure" -> Configure(e.role)
    [] e.op = "use" -> Use
    [] e.op = "again" -> Again
    [] e.op = "done" -> Done
    [] e.op \in {"codec", "lifecycle", "password"} -> UNCHANGED vars
    [] OTHER -> FALSE

TraceInit == Init /\ l = 1 /\ bad = 0 /\ TLCSet(1, 0) /\ TLCSet(2, 0)
TraceNext == /\ l <= N /\ l' = l + 1
             /\ Step(Rec[l])
             /\ IF Judge(Rec[l]) THEN bad' = bad
                ELSE /\ bad' = bad + 1 /\ PrintT(<<"BAD", l>>)
                     /\ TLCSet(1, bad') /\ (IF bad = 0 THEN TLCSet(2, l) ELSE TRUE)
TraceSpec == TraceInit /\ [][TraceNext]_tvars

Accepted == IF TLCGet(1) = 0 /\ TLCGet("stats").diameter - 1 = N THEN TRUE
            ELSE LET first == IF TLCGet(1) = 0 THEN TLCGet("stats").diameter ELSE TLCGet(2)
                 IN Print(<<"REJECTED", first, Rec[first], "BADCOUNT", TLCGet(1)>>, FALSE)
=============================================================================
