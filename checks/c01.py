"""C01 - only holders of a mutually trusted key can become peers.

Design level: Handshake.tla (AuthOnly, MutualTrust for every trust relation over the party keys and a bystander key,
RecvBad changes nothing) and Node.tla (BadIsStutter).  Impl -> spec on real mock-backed nodes: for the genuine ping,
pong and peng of a run - every single-bit flip, every truncation point, field edits at every byte, random datagrams
with the handshake marker, and well-formed messages signed with an untrusted key - presented to a receiver in every
handshake stage (unknown sender / awaiting pong / awaiting peng / completed with lingering object / completed), with
three receive-buffer residues (zero, the genuine datagram, random) and from the peer's and an unknown address; then the
genuine datagram must still advance the handshake.  Trust graphs: all relations among 3 keys, sampled among 4
(passwords and explicit key pairs): peers exactly when trust is mutual.  TLC judges every record."""
import os
import vplib as V
from checks import cloudcommon
from checks import noderuns

PID = "C01"


def classify(e):
    if e.get("op") == "trustrun":
        return "c01|trust-graph|n=%d" % e["n"]
    if e.get("op") != "nodefam":
        return "c01|%s" % e.get("op")
    if e["panics"]:
        what = "panic"
    elif e["bad_other"]:
        what = "accepted"
    elif e["bad_tail"]:
        what = "stale-tail"
    elif e["then_completes"] == "no":
        what = "genuine-blocked"
    else:
        what = "other"
    return "c01|%s|%s|%s|%s" % (e["state"], e["family"], e["kind"], what)


def run(tier, out):
    wd = V.workdir(PID)
    quick = tier == "quick"
    V.build_harness()
    designs = [("Handshake(trust)", V.tlc_design("MC_Handshake.tla", "MC_Handshake_trust_quick.cfg" if quick else "MC_Handshake_trust.cfg", PID, workers=10, timeout=1500)),
               ("Node", V.tlc_design("Node.tla", "MC_Node_peerfirst_quick.cfg", PID, workers=10, timeout=900, xmx="12g"))]
    for n, d in designs:
        if d.invariant_violated or d.property_violated:
            out.violation("design|%s" % n, "%s violates C01 at design level" % n, {"tlc": d.out[-2000:]})
    tp = os.path.join(wd, "trace.ndjson")
    s = V.harness_json(["node", "fam", "c01", tier, tp])
    accepted = noderuns.validate_records(PID, out, tp, classify, "C01 families", max_rounds=40)
    tt = os.path.join(wd, "trust.ndjson")
    s2 = V.harness_json(["node", "trust", tier, tt])
    accepted += noderuns.validate_records(PID, out, tt, classify, "C01 trust graphs")
    st = "skipped (unlisted violations found)"
    known = V.load_known()
    import re
    unknown = [v for v in out.violations if not any(k["property"] == PID and re.fullmatch(k["signature"], v[0]) for k in known.get("findings", []))]
    if not unknown:
        dst = os.path.join(wd, "selftest.ndjson")
        hit = V.corrupt_trace(tt, dst, lambda e: e["op"] == "trustrun" and e["n"] == 3 and e["conn"][0][1], lambda e: e["conn"][0].__setitem__(1, False))
        v = V.tlc_trace("Trace_NodeRuns.tla", "Trace_NodeRuns.cfg", PID, dst, s2["events"], sub="selftest")
        if hit is None or v.accepted or v.matched != hit - 1:
            V.selftest_fail(PID, "trust record with a missing connection (line %s) not rejected there" % hit)
        st = "trust record with a dropped connection at line %d rejected by TLC" % hit
    evs = V.read_ndjson(tp)
    cov = {
        "states": sum(d.distinct for _, d in designs), "transitions": sum(d.generated for _, d in designs),
        "traces_validated_against_impl": accepted,
        "samples": [evs[0], V.read_ndjson(tt)[100]],
        "evaluations": s["steps"] + s2["runs"], "distinct_nontrivial": s["steps"] + s2["runs"],
        "rule": "%d tampered / forged handshake datagrams in %d families (5 stages x 3 buffer residues x 2 sources x {bit flip, truncation, field edit, random, untrusted signer}); "
                "%d trust relations (all 512 among 3 nodes, sampled among 4, passwords and explicit keys)" % (s["steps"], s["events"], s2["runs"]),
        "self_test": st,
        "oracle_applied_in": "harness per member, TLC per family / trust record",
    }
    cloudcommon.part(PID, tier, out, cov, extra={"trust graphs": tt + ".cloud"})
    return out.finish("model_checking", cov, assumptions=[
        "Ed25519 / SHA-256 are not attacked: 'not produced with a trusted key' is realised as alteration of genuine datagrams and signing with other keys",
        "a replayed verbatim genuine datagram verifies by construction; what it may cause is bounded by C05 / C09"])
