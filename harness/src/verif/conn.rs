//! Real PeerCrypto endpoints for object-level drivers (handshake, rotation, envelopes).
use crate::config::CryptoConfig;
use crate::crypto::{Crypto, MessageResult, PeerCrypto, VERIF_SPEEDS};
use crate::error::Error;
use crate::messages::NodeInfo;
use crate::util::MsgBuffer;

pub fn set_speeds(s: [f32; 3]) {
    VERIF_SPEEDS.with(|v| *v.borrow_mut() = Some(s));
}

pub fn node_info(id: u8) -> NodeInfo {
    NodeInfo {
        node_id: [id; 16],
        peers: smallvec::smallvec![],
        claims: smallvec::smallvec![],
        peer_timeout: Some(300 + id as u16),
        addrs: smallvec::smallvec![],
    }
}

pub fn pw_crypto(id: u8, pw: &str) -> Crypto {
    let cfg = CryptoConfig { password: Some(pw.into()), ..Default::default() };
    Crypto::new([id; 16], &cfg).unwrap()
}

/// What one call into a PeerCrypto produced.
pub struct Outcome {
    pub res: Result<MessageResult<NodeInfo>, Error>,
    pub out: Vec<u8>,
}

pub fn feed(pc: &mut PeerCrypto<NodeInfo>, bytes: &[u8]) -> Outcome {
    let mut buf = MsgBuffer::new(100);
    buf.set_length(bytes.len());
    buf.message_mut().copy_from_slice(bytes);
    let res = pc.handle_message(&mut buf);
    let out = if res.is_ok() { buf.message().to_vec() } else { vec![] };
    Outcome { res, out }
}

pub fn tick(pc: &mut PeerCrypto<NodeInfo>) -> Outcome {
    let mut buf = MsgBuffer::new(100);
    let res = pc.every_second(&mut buf);
    let out = match res {
        Ok(MessageResult::Reply) => buf.message().to_vec(),
        _ => vec![],
    };
    Outcome { res, out }
}

/// Lock-step handshake: returns (A = initiator, B = responder and rotation starter, first rotation datagram B -> A).
pub fn handshake(crypto: &[Crypto; 2]) -> (PeerCrypto<NodeInfo>, PeerCrypto<NodeInfo>, Vec<u8>) {
    let mut a = crypto[0].peer_instance(node_info(1));
    let mut b = crypto[1].peer_instance(node_info(2));
    let mut m = MsgBuffer::new(100);
    a.initialize(&mut m).unwrap();
    let ping = m.message().to_vec();
    let pong = feed(&mut b, &ping).out;
    let peng = feed(&mut a, &pong).out;
    let last = feed(&mut b, &peng);
    assert!(matches!(last.res, Ok(MessageResult::InitializedWithReply(_))));
    (a, b, last.out)
}

/// Seals a data message at `from`, returns the datagram.
pub fn seal_data(from: &mut PeerCrypto<NodeInfo>, payload: &[u8]) -> Vec<u8> {
    let mut buf = MsgBuffer::new(100);
    buf.set_length(payload.len());
    buf.message_mut().copy_from_slice(payload);
    from.send_message(0, &mut buf).unwrap();
    buf.message().to_vec()
}

/// Opens a datagram at `to`; Some(payload) when it is accepted as a data message.
pub fn open_data(to: &mut PeerCrypto<NodeInfo>, dgram: &[u8]) -> Option<Vec<u8>> {
    let mut buf = MsgBuffer::new(100);
    buf.set_length(dgram.len());
    buf.message_mut().copy_from_slice(dgram);
    match super::util::guarded(|| to.handle_message(&mut buf)) {
        Ok(Ok(MessageResult::Message(0))) => Some(buf.message().to_vec()),
        _ => None,
    }
}

/// Handshake over a reliable network with a chosen opening: "A" / "B" initiates, or "both" simultaneously (role
/// negotiation).  Returns the two established ends plus the sealed datagrams still in flight (first rotation message).
/// `on_call(end)` is invoked after every call into an end (used to attribute seal-log entries).
pub fn handshake_mode(
    crypto: &[Crypto; 2], mode: &str, mut on_call: impl FnMut(usize),
) -> Option<(PeerCrypto<NodeInfo>, PeerCrypto<NodeInfo>, Vec<(usize, Vec<u8>)>)> {
    let mut ends = [crypto[0].peer_instance(node_info(1)), crypto[1].peer_instance(node_info(2))];
    let mut queue: std::collections::VecDeque<(usize, Vec<u8>)> = Default::default();
    let mut m = MsgBuffer::new(100);
    if mode == "A" || mode == "both" {
        m.clear();
        ends[0].initialize(&mut m).unwrap();
        on_call(0);
        queue.push_back((1, m.message().to_vec()));
    }
    if mode == "B" || mode == "both" {
        m.clear();
        ends[1].initialize(&mut m).unwrap();
        on_call(1);
        queue.push_back((0, m.message().to_vec()));
    }
    let mut rest = vec![];
    let mut steps = 0;
    while let Some((to, bytes)) = queue.pop_front() {
        steps += 1;
        if steps > 40 {
            return None;
        }
        if bytes[0] != 0xff {
            // sealed datagram (first rotation message): leave it to the caller
            rest.push((to, bytes));
            continue;
        }
        let o = feed(&mut ends[to], &bytes);
        on_call(to);
        if o.res.is_ok() && !o.out.is_empty() {
            queue.push_back((1 - to, o.out));
        }
    }
    if ends[0].is_ready() && ends[1].is_ready() {
        let [a, b] = ends;
        Some((a, b, rest))
    } else {
        None
    }
}
