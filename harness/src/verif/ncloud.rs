//! Event-by-event traces of whole nodes for Cloud.tla / Trace_Cloud.tla.
//! `node cloud <tier> <trace> [first_run] [runs]`: seeded random scenarios on 2-4 real mock-backed nodes (router / switch /
//! hub, heterogeneous peer timeouts, keepalive settings, claims, keys, plain sessions): dialling, housekeeping rounds,
//! restarts with other claims, silence, close, interface traffic, lossy phases, verbatim replays and forged datagrams
//! from any claimed source, configured (reconnect) peers.  Every driver call is one trace event carrying the classified
//! result and emissions reported by the guarded event log of src/cloud.rs and the state projection of the acting node.
use super::node::*;
use super::util::*;
use crate::config::Config;
use crate::payload::{Frame, Packet, Protocol};
use crate::types::Mode;
use rand::seq::SliceRandom;
use rand::Rng;
use serde_json::{json, Value};

const UNIVERSE: [&str; 5] = ["10.0.1.0/24", "10.0.2.0/24", "10.0.0.0/16", "10.0.1.128/25", "0.0.0.0/0"];
const TIMEOUTS: [u32; 6] = [20, 61, 119, 130, 300, 1000];

fn pick_claims(rng: &mut impl Rng) -> Vec<String> {
    let mut idx: Vec<usize> = (0..UNIVERSE.len()).collect();
    idx.shuffle(rng);
    let k = rng.gen_range(0..=3);
    let mut v: Vec<String> = idx[..k].iter().map(|i| UNIVERSE[*i].to_string()).collect();
    if k > 0 && rng.gen_bool(0.15) {
        v.push(v[0].clone());
    }
    v
}

const EXTREME_TIMEOUTS: [u32; 12] = [1, 2, 59, 60, 61, 119, 120, 121, 122, 300, 4000, 65535];
const KEYS: [&str; 3] = ["alpha", "beta", "gamma"];

fn node_cfg(rng: &mut impl Rng, mode: Mode, flavour: u64, focus: &str, idx: usize) -> Config {
    node_cfg_dev(rng, mode, flavour, focus, idx, false)
}

/// `tap`: the node reads Ethernet frames (device type tap); mode "normal" then means a learning switch, "router" routes
/// by MAC claims
fn node_cfg_dev(rng: &mut impl Rng, mode: Mode, flavour: u64, focus: &str, idx: usize, tap: bool) -> Config {
    let mut c = base_config(mode);
    c.device_type = if tap { crate::device::Type::Tap } else { crate::device::Type::Tun };
    if mode == Mode::Router || (mode == Mode::Normal && !tap) {
        c.claims = if tap {
            // MAC ranges: the station behind this node, sometimes a whole block
            let mut v = vec![format!("02:00:00:00:00:{:02x}/48", 10 + idx)];
            if rng.gen_bool(0.3) {
                v.push("02:00:00:00:00:00/40".into());
            }
            v
        } else {
            pick_claims(rng)
        };
    }
    c.peer_timeout = if focus == "C15" {
        EXTREME_TIMEOUTS[rng.gen_range(0..EXTREME_TIMEOUTS.len())]
    } else if flavour % 4 == 0 {
        300
    } else {
        TIMEOUTS[rng.gen_range(0..TIMEOUTS.len())]
    };
    if focus == "C12" && flavour % 2 == 0 {
        // the runs that replay handshake datagrams next to established peers: routes that live long enough to be seen
        // pointing at a peer that went away
        c.peer_timeout = 300;
        if c.claims.is_empty() && !tap && (mode == Mode::Router || mode == Mode::Normal) {
            c.claims = vec![UNIVERSE[idx % UNIVERSE.len()].to_string()];
        }
    }
    c.switch_timeout = [5, 30, 300][rng.gen_range(0..3)];
    if rng.gen_bool(0.3) {
        c.keepalive = Some(if focus == "C15" { [0, 1, 2, 59, 600, 40000][rng.gen_range(0..6)] } else { [1, 7, 30, 100][rng.gen_range(0..4)] });
    }
    if flavour % 7 == 3 {
        c.crypto.algorithms = vec!["plain".into()];
    }
    if focus == "C02" && flavour % 2 == 1 {
        // mixed settings: some nodes allow unencrypted sessions next to their ciphers, some only know plain, the rest
        // insist on ciphers - a node can then hold sealed and unsealed sessions side by side
        c.crypto.algorithms = match rng.gen_range(0..5) {
            0 | 1 => vec!["plain".into(), "aes128".into(), "aes256".into(), "chacha20".into()],
            2 => vec!["plain".into()],
            _ => vec![],
        };
    }
    if focus == "C01" {
        // a random trust relation among three keys: own key by password, trusted set any non-empty subset (or unset)
        use crate::crypto::Crypto;
        c.crypto.password = Some(KEYS[rng.gen_range(0..3)].into());
        let mask = rng.gen_range(0..8);
        if mask != 0 {
            c.crypto.trusted_keys = (0..3).filter(|k| mask >> k & 1 == 1).map(|k| Crypto::generate_keypair(Some(KEYS[k])).1).collect();
        }
    } else if flavour % 5 == 4 && rng.gen_bool(0.5) {
        c.crypto.password = Some("stranger".into()); // a node nobody trusts and that trusts nobody else
    }
    if focus == "C14" && rng.gen_bool(0.5) {
        // the node is also reachable through a forwarded address which it advertises
        // (every second one an IPv4 address: the node's address list then mixes both families)
        c.advertise_addresses = if idx % 2 == 0 { vec![format!("[::]:{}", 50 + idx)] } else { vec![format!("192.0.2.{}:{}", 10 + idx, 50 + idx)] };
    }
    c
}

fn frame_for<P: Protocol>(router: bool, rng: &mut impl Rng, i: usize) -> Vec<u8> {
    let _ = std::marker::PhantomData::<P>;
    if router {
        let dst = [[10u8, 0, 1, 5], [10, 0, 1, 200], [10, 0, 2, 9], [10, 0, 7, 7], [10, 9, 9, 9]][rng.gen_range(0..5)];
        ipv4_packet([10, 0, 9, i as u8], dst, &[1, 2, 3, 4])
    } else {
        let dst = if rng.gen_bool(0.4) { [0xff; 6] } else { mac(10 + rng.gen_range(0..4)) };
        // untagged, priority-tagged (VLAN id 0, any PCP/DEI), two VLANs
        let tci = [None, None, Some(0u16), Some(0xa000), Some(5), Some(0x6005), Some(0x0fff)][rng.gen_range(0..7)];
        // most stations stay behind their node; two roam (the same source address shows up at different nodes)
        let src = if rng.gen_bool(0.2) { mac(30 + rng.gen_range(0..2)) } else { mac(10 + i as u8) };
        let dst = if rng.gen_bool(0.15) { mac(30 + rng.gen_range(0..2)) } else { dst };
        eth_frame(dst, src, tci, &[5, 6, 7, 8])
    }
}

fn one<P: Protocol>(run: u64, stream: u64, mode: Mode, steps: u64, focus: &str) -> Vec<String> {
    one_dev::<P>(run, stream, mode, steps, focus, mode != Mode::Router)
}

fn one_dev<P: Protocol>(run: u64, stream: u64, mode: Mode, steps: u64, focus: &str, tap: bool) -> Vec<String> {
    let mut rng = rng(stream);
    let mut sim: Sim<P> = Sim::new(stream);
    sim.trace_on();
    sim.budget = 40;
    let router = !tap; // IP packets on tun devices, Ethernet frames on tap devices
    let n = if focus == "C14" { 3 + (run % 4) as usize } else { 2 + (run % 3) as usize };
    for k in 0..n {
        let c = node_cfg_dev(&mut rng, mode, run, focus, k, tap);
        for a in &c.advertise_addresses {
            sim.alias.insert(crate::net::mapped_addr(a.parse().unwrap()), k as u16 + 1);
        }
        if focus == "C14" && c.advertise_addresses.is_empty() && rng.gen_bool(0.4) {
            // address translation: the others see this node at an address it does not know itself
            let ext = addr_of(60 + k as u16);
            sim.alias.insert(ext, k as u16 + 1);
            sim.seen_as.insert(k as u16 + 1, ext);
        }
        sim.add_node(false, &c);
    }
    // sessions negotiated as "plain" are not authenticated at all (C02's explicit exception): anything injected there is
    // accepted by design and poisons what the nodes tell each other, so plain runs get faults but no attacker
    let plain_run = run % 7 == 3 || (focus == "C02" && run % 2 == 1);
    // where the random steps put their weight
    let (w_iface, w_restart, w_replay, w_forge) = match focus {
        "C01" => (5, 4, 8, 25),
        "C08" => (5, 3, 10, 30),
        "C09" => (12, 3, 25, 12),
        "C10" => (30, 4, 5, 5),
        "C12" => (12, 14, 5, 4),
        "C02" => (20, 12, 10, 10),
        "C11" | "C13" => (40, 8, 4, 4),
        _ => (15, 6, 7, 6),
    };
    // bootstrap: a random connected dial pattern, sometimes a configured (reconnect) peer
    for i in 1..n {
        let j = rng.gen_range(0..i);
        let (a, b) = if rng.gen_bool(0.5) { (i, j) } else { (j, i) };
        let addr = sim.nodes[b].addr;
        if rng.gen_bool(0.25) {
            sim.add_reconnect(a, addr);
        } else {
            sim.connect(a, addr);
        }
        if rng.gen_bool(0.2) {
            let back = sim.nodes[a].addr;
            sim.connect(b, back);
        }
    }
    sim.deliver_due();
    if ["C09", "C12", "C05", "C08", "C14", "C01"].contains(&focus) && !plain_run && run % 2 == 0 {
        // while the initiators still hold their finished handshake objects (60 s): every handshake datagram captured so far
        // presented to every node from every node's address (an outsider needs no key for that)
        for _ in 0..2 {
            sim.tick();
        }
        let inits: Vec<Dgram> = sim.wire.iter().filter(|d| d.bytes.first() == Some(&0xff)).cloned().collect();
        for d in inits.iter().take(12) {
            for to in 0..n {
                for s in 0..n {
                    if s != to {
                        sim.inject_later(to, addr_of(s as u16 + 1), d.bytes.clone(), sim.now);
                    }
                }
            }
            sim.deliver_due();
        }
        // the consequences of a handshake object that was disturbed show when its retries are used up
        for _ in 0..125 {
            sim.tick();
        }
    }
    if focus == "C02" {
        // datagrams of earlier connections arrive late, after the peer restarted and completed a new handshake
        sim.faults.p_delay = 0.3;
        sim.faults.max_delay = 25;
    }
    let mut silenced: Option<(usize, i64)> = None;
    for _ in 0..steps {
        if let Some((j, until)) = silenced {
            if sim.now >= until {
                sim.faults.silent.remove(&(j as u16 + 1));
                silenced = None;
            }
        }
        let x = rng.gen_range(0..100);
        let x = if x >= 45 {
            // re-draw the non-tick steps with the focus weights: iface / restart / replay / forge / the rest as before
            let y = rng.gen_range(0..(w_iface + w_restart + w_replay + w_forge + 20));
            if y < w_iface {
                50
            } else if y < w_iface + w_restart {
                62
            } else if y < w_iface + w_restart + w_replay {
                80
            } else if y < w_iface + w_restart + w_replay + w_forge {
                86
            } else {
                [68, 74, 92, 95, 98][rng.gen_range(0..5)]
            }
        } else {
            x
        };
        let x = if plain_run && (77..90).contains(&x) { 50 } else { x };
        if x < 45 {
            let k = [1, 1, 2, 3, 10, 40, 125][rng.gen_range(0..7)];
            for _ in 0..k {
                sim.tick();
            }
        } else if x < 60 {
            for _ in 0..rng.gen_range(1..4) {
                let i = rng.gen_range(0..n);
                let f = frame_for::<P>(router, &mut rng, i);
                sim.iface(i, &f);
            }
            sim.deliver_due();
        } else if x < 66 {
            let i = rng.gen_range(0..n);
            let mut c = node_cfg_dev(&mut rng, mode, run + 1, focus, i, tap);
            c.advertise_addresses = sim.nodes[i].cfg.advertise_addresses.clone();
            sim.restart(i, Some(&c));
            let j = (i + 1 + rng.gen_range(0..n - 1)) % n;
            let addr = sim.nodes[j].addr;
            sim.connect(i, addr);
            sim.deliver_due();
        } else if x < 72 && silenced.is_none() {
            let i = rng.gen_range(0..n);
            sim.faults.silent.insert(i as u16 + 1);
            silenced = Some((i, sim.now + [5, 30, 140, 320][rng.gen_range(0..4)]));
        } else if x < 77 {
            let i = rng.gen_range(0..n);
            sim.close(i);
            sim.deliver_due();
        } else if x < 84 {
            // verbatim replay of a captured datagram, from its original source, another node's or an unknown address
            if !sim.wire.is_empty() {
                let d = sim.wire[rng.gen_range(0..sim.wire.len())].clone();
                if let Some(to) = sim.idx_of(&d.to) {
                    let src = match rng.gen_range(0..3) {
                        0 => addr_of(d.from),
                        1 => addr_of(1 + rng.gen_range(0..n) as u16),
                        _ => addr_of(77),
                    };
                    sim.inject_later(to, src, d.bytes.clone(), sim.now);
                    sim.deliver_due();
                }
            }
        } else if x < 90 {
            // fabricated datagram: edited copy or junk
            let to = rng.gen_range(0..n);
            let src = if rng.gen_bool(0.7) { addr_of(1 + rng.gen_range(0..n) as u16) } else { addr_of(78) };
            let bytes = if !sim.wire.is_empty() && rng.gen_bool(0.6) {
                let mut b = sim.wire[rng.gen_range(0..sim.wire.len())].bytes.clone();
                if !b.is_empty() {
                    let k = rng.gen_range(0..b.len());
                    b[k] ^= 1 << rng.gen_range(0..8);
                }
                b
            } else {
                // (a handshake marker followed by fewer bytes than any header would be completed by the stale bytes
                //  behind it in the receive buffer - the recorded C01 finding; junk is therefore empty or >= 12 bytes)
                let len = if rng.gen_bool(0.1) { 0 } else { rng.gen_range(12..if focus == "C08" { 400 } else { 60 }) };
                let mut b: Vec<u8> = (0..len).map(|_| rng.gen()).collect();
                if len > 0 && rng.gen_bool(0.5) {
                    b[0] = [0xff, 0, 1, 2, 3][rng.gen_range(0..5)];
                }
                b
            };
            sim.inject_later(to, src, bytes, sim.now);
            sim.deliver_due();
        } else if x < 94 {
            let (p_drop, p_dup, p_delay) = (rng.gen_range(0.0..0.6), rng.gen_range(0.0..0.3), rng.gen_range(0.0..0.3));
            sim.faults.p_drop = p_drop;
            sim.faults.p_dup = p_dup;
            sim.faults.p_delay = p_delay;
            sim.faults.max_delay = 40;
        } else if x < 97 {
            sim.faults.p_drop = 0.0;
            sim.faults.p_dup = 0.0;
            sim.faults.p_delay = 0.0;
        } else {
            let i = rng.gen_range(0..n);
            let j = rng.gen_range(0..n);
            if i != j {
                let addr = sim.nodes[j].addr;
                sim.connect(i, addr);
                sim.deliver_due();
            }
        }
    }
    let panics = sim.total_panics();
    let mut t = sim.trace_take();
    t.push(json!({"op": "end", "run": run, "panics": panics}).to_string());
    t
}

/// Unencrypted sessions only: node 2 dials node 1 (which trusts its key) and restarts before the pong arrives, now with a
/// key node 1 does not trust; the new instance dials again (node 1 refuses that ping) and then receives the pong meant
/// for its predecessor.  Without a cipher nothing ties a pong to the ping it answers.
fn stale_pong_scenario(stream: u64) -> Vec<String> {
    use crate::crypto::Crypto;
    let mut sim: Sim<Frame> = Sim::new(stream);
    sim.trace_on();
    sim.budget = 40;
    let pubs: Vec<String> = KEYS.iter().map(|k| Crypto::generate_keypair(Some(k)).1).collect();
    let mk = |own: usize, trusted: &[usize]| {
        let mut c = base_config(Mode::Switch);
        c.crypto.algorithms = vec!["plain".into()];
        c.crypto.password = Some(KEYS[own].into());
        c.crypto.trusted_keys = trusted.iter().map(|k| pubs[*k].clone()).collect();
        c
    };
    sim.add_node(false, &mk(0, &[1]));      // node 1: key alpha, trusts beta only
    sim.add_node(false, &mk(1, &[0]));      // node 2: key beta, trusts alpha
    let a1 = sim.nodes[0].addr;
    sim.faults.cut.insert((1, 2));          // node 1's answers are held back ...
    sim.connect(1, a1);
    sim.deliver_due();
    let pong: Option<Dgram> = sim.wire.iter().find(|d| d.from == 1 && d.bytes.first() == Some(&0xff)).cloned();
    sim.restart(1, Some(&mk(2, &[0])));     // node 2 comes back with key gamma (node 1 does not trust it), still trusting alpha
    sim.connect(1, a1);
    sim.deliver_due();                      // node 1 refuses the new ping
    sim.faults.cut.clear();
    if let Some(d) = pong {
        let to = sim.nodes[1].addr;
        let _ = to;
        sim.inject_copy(1, a1, &d, sim.now); // ... and the pong for the old instance arrives now
    }
    sim.deliver_due();
    for _ in 0..5 {
        sim.tick();
    }
    let panics = sim.total_panics();
    let mut t = sim.trace_take();
    t.push(json!({"op": "end", "run": 0, "panics": panics}).to_string());
    t
}

pub fn run(tier: &str, out_path: &str, first: u64, count: u64, focus: &str) -> Value {
    let (runs, steps): (u64, u64) = if count > 0 { (count, 60) } else if tier == "quick" { (36, 60) } else { (600, 120) };
    let ids: Vec<u64> = (first..first + runs).collect();
    let results = parallel_map(&ids, |_, k| {
        let stream = 77000 + *k + seed() * 1_000_000;
        // 0 router/tun, 1 switch/tap, 2 hub/tap, 3 normal/tap (a learning switch), 4 normal/tun (routes by claims),
        // 5 router/tap (MAC claims, learns nothing), 6 switch/tun, 7 hub/tun
        let m = match focus {
            "C11" => [0, 0, 4, 1, 5, 2, 0, 7][(*k % 8) as usize],
            "C13" => [1, 3, 1, 5, 2, 0, 6, 3][(*k % 8) as usize],
            "C10" => [0, 1, 2, 3, 4, 5, 6, 7][(*k % 8) as usize],
            "C12" => [0, 1, 0, 2, 0, 1, 4, 0][(*k % 8) as usize],
            _ => *k % 3,
        };
        match m {
            0 => one::<Packet>(*k, stream, Mode::Router, steps, focus),
            1 => one::<Frame>(*k, stream, Mode::Switch, steps, focus),
            2 => one::<Frame>(*k, stream, Mode::Hub, steps, focus),
            3 => one_dev::<Frame>(*k, stream, Mode::Normal, steps, focus, true),
            4 => one_dev::<Packet>(*k, stream, Mode::Normal, steps, focus, false),
            5 => one_dev::<Frame>(*k, stream, Mode::Router, steps, focus, true),
            6 => one_dev::<Packet>(*k, stream, Mode::Switch, steps, focus, false),
            _ => one_dev::<Packet>(*k, stream, Mode::Hub, steps, focus, false),
        }
    });
    let mut results = results;
    if focus == "C01" {
        results.push(stale_pong_scenario(77000 + first + seed() * 1_000_000));
    }
    let mut lines = 0usize;
    {
        use std::io::Write;
        let mut f = std::io::BufWriter::new(std::fs::File::create(out_path).expect("create trace"));
        for r in &results {
            for l in r {
                f.write_all(l.as_bytes()).unwrap();
                f.write_all(b"\n").unwrap();
                lines += 1;
            }
        }
        f.flush().unwrap();
    }
    json!({"runs": runs, "steps": runs * steps, "events": lines})
}
