//! Real PeerCrypto endpoints for object-level drivers (handshake, rotation, envelopes).
use crate::config::CryptoConfig;
use crate::crypto::{Crypto, MessageResult, PeerCrypto, VERIF_SPEEDS};
use crate::error::Error;
use crate::messages::NodeInfo;
use crate::util::MsgBuffer;

pub fn set_speeds(s: [f32; 3]) {
    VERIF_SPEEDS.with(|v| *v.borrow_mut() = Some(s));
}

pub fn node_info(id: u8) -> NodeInfo {
    NodeInfo {
        node_id: [id; 16],
        peers: smallvec::smallvec![],
        claims: smallvec::smallvec![],
        peer_timeout: Some(300 + id as u16),
        addrs: smallvec::smallvec![],
    }
}

pub fn pw_crypto(id: u8, pw: &str) -> Crypto {
    let cfg = CryptoConfig { password: Some(pw.into()), ..Default::default() };
    Crypto::new([id; 16], &cfg).unwrap()
}

/// What one call into a PeerCrypto produced.
pub struct Outcome {
    pub res: Result<MessageResult<NodeInfo>, Error>,
    pub out: Vec<u8>,
}

pub fn feed(pc: &mut PeerCrypto<NodeInfo>, bytes: &[u8]) -> Outcome {
    let mut buf = MsgBuffer::new(100);
    buf.set_length(bytes.len());
    buf.message_mut().copy_from_slice(bytes);
    let res = pc.handle_message(&mut buf);
    let out = if res.is_ok() { buf.message().to_vec() } else { vec![] };
    Outcome { res, out }
}

pub fn tick(pc: &mut PeerCrypto<NodeInfo>) -> Outcome {
    let mut buf = MsgBuffer::new(100);
    let res = pc.every_second(&mut buf);
    let out = match res {
        Ok(MessageResult::Reply) => buf.message().to_vec(),
        _ => vec![],
    };
    Outcome { res, out }
}

/// Lock-step handshake: returns (A = initiator, B = responder and rotation starter, first rotation datagram B -> A).
pub fn handshake(crypto: &[Crypto; 2]) -> (PeerCrypto<NodeInfo>, PeerCrypto<NodeInfo>, Vec<u8>) {
    let mut a = crypto[0].peer_instance(node_info(1));
    let mut b = crypto[1].peer_instance(node_info(2));
    let mut m = MsgBuffer::new(100);
    a.initialize(&mut m).unwrap();
    let ping = m.message().to_vec();
    let pong = feed(&mut b, &ping).out;
    let peng = feed(&mut a, &pong).out;
    let last = feed(&mut b, &peng);
    assert!(matches!(last.res, Ok(MessageResult::InitializedWithReply(_))));
    (a, b, last.out)
}

/// Seals a data message at `from`, returns the datagram.
pub fn seal_data(from: &mut PeerCrypto<NodeInfo>, payload: &[u8]) -> Vec<u8> {
    let mut buf = MsgBuffer::new(100);
    buf.set_length(payload.len());
    buf.message_mut().copy_from_slice(payload);
    from.send_message(0, &mut buf).unwrap();
    buf.message().to_vec()
}

/// Opens a datagram at `to`; Some(payload) when it is accepted as a data message.
pub fn open_data(to: &mut PeerCrypto<NodeInfo>, dgram: &[u8]) -> Option<Vec<u8>> {
    let mut buf = MsgBuffer::new(100);
    buf.set_length(dgram.len());
    buf.message_mut().copy_from_slice(dgram);
    match super::util::guarded(|| to.handle_message(&mut buf)) {
        Ok(Ok(MessageResult::Message(0))) => Some(buf.message().to_vec()),
        _ => None,
    }
}
