"""C05 - handshake agrees and recovers under loss, duplication, reordering, dual open.

Design level: Handshake.tla/HsObj.tla - Agreement, AtMostOnce, HalvesDisjoint, CipherOK, AuthOnly for all schedules over
{A initiates, B initiates, deliver any in-flight datagram (again), drop, tick, leap} with the code's timer constants
(120 retries, 60 s linger), both hash orders, cipher ties and plain sessions, all trust relations.
Spec -> impl: every transition of the boundary-restricted graph is executed on real PeerCrypto<NodeInfo> pairs.
Impl -> spec: TLC validates these runs and seeded random schedules (depth 200) against Trace_Handshake: result kind and
emission of every call, stage, completion counts, cipher, nonce half, payload, rotation starter, cross-decryption.
Node level (adversarial network, then reliable: reconnection deadline): see the node part below."""
import os
import vplib as V
from checks import cloudcommon
from checks import hscommon as H

PID = "C05"


def run(tier, out):
    wd = V.workdir(PID)
    quick = tier == "quick"
    V.build_harness()
    plans = [("edges_A", "A", "normal"), ("edges_tie", "B", "tie")]
    if not quick:
        plans += [("edges_B", "B", "normal"), ("edges_plain", "A", "plain")]
    designs, validated, evals, nedges = [], 0, 0, 0
    first_trace = None
    sample_sched = None
    for cfgname, rank, mode in plans:
        d, edges, scheds = H.export_schedules(PID, "MC_Handshake_%s.cfg" % cfgname)
        designs.append((cfgname, d))
        nedges += len(edges)
        sp = os.path.join(wd, "sched_%s.ndjson" % cfgname)
        V.write_ndjson(sp, scheds)
        tp = os.path.join(wd, "trace_%s.ndjson" % cfgname)
        s = V.harness_json(["hs", "sched", sp, tp, rank, mode])
        evals += s["steps"]
        validated += H.validate(PID, out, tp, s, rank, mode, "TLC schedules " + cfgname, sub="trace-" + cfgname)
        if first_trace is None:
            first_trace, first_summ, sample_sched = tp, s, scheds[len(scheds) // 2]
    extra = ["tie", "plain"] if quick else ["tie", "plain", "trust", "full"]
    for name in extra:
        designs.append((name, V.tlc_design("MC_Handshake.tla", "MC_Handshake_%s.cfg" % name, PID, workers=10, timeout=1500)))
    for name, d in designs:
        if d.invariant_violated or d.property_violated:
            out.violation("design|%s|%s" % (name, ",".join(d.invariant_violated or ["property"])),
                          "Handshake.tla violates its property in configuration %s" % name, {"tlc": d.out[-3000:]})
    nrand = 150 if quick else 1500
    for rank, mode in (("A", "normal"), ("B", "normal")) if quick else (("A", "normal"), ("B", "normal"), ("A", "tie"), ("B", "plain")):
        rp = os.path.join(wd, "trace_random_%s_%s.ndjson" % (rank, mode))
        s = V.harness_json(["hs", "random", nrand, 200, rp, rank, mode])
        evals += s["steps"]
        validated += H.validate(PID, out, rp, s, rank, mode, "random schedules", sub="trace-random-%s-%s" % (rank, mode))
    # node level: adversarial network, then reliable: reconnection deadline and payload both ways
    from checks import noderuns
    np_ = os.path.join(wd, "noderuns.ndjson")
    sn = V.harness_json(["node", "c05", tier, np_], timeout=7200)
    evals += sn["runs"]
    validated += noderuns.validate_records(PID, out, np_, lambda e: "c05|node|%s" % ("panic" if e.get("panics") else ("not-reconnected" if e.get("reconnect_after", -1) < 0 else ("late" if e.get("deliveries") == e.get("expected_deliveries") else "payload-lost"))), "C05 node-level recovery runs")
    st_desc = V.binding_selftest(out, PID, "Trace_Handshake.tla", "Trace_Handshake.cfg", first_trace, first_summ["events"],
                                 lambda e: e["op"] == "recv" and e["res"] == "succI",
                                 lambda e: e.__setitem__("res", "cont"), "completion reported as Continue", xmx="6g") \
        if out.violations else _selftest(out, first_trace, first_summ)
    cov = {
        "states": sum(d.distinct for _, d in designs), "transitions": sum(d.generated for _, d in designs),
        "design_runs": {n: {"distinct": d.distinct, "generated": d.generated, "depth": d.depth} for n, d in designs},
        "traces_validated_against_impl": validated,
        "samples": [{"schedule": sample_sched}, {"trace_excerpt": V.read_ndjson(first_trace)[:5]}],
        "evaluations": evals, "distinct_nontrivial": nedges,
        "rule": "every transition of the boundary-restricted handshake graphs %s executed on real PeerCrypto<NodeInfo> pairs (real timers via leaps); "
                "%d random schedules of depth 200 per configuration; distinct = exported transitions" % ([p[0] for p in plans], nrand),
        "self_test": st_desc,
    }
    cloudcommon.design(PID, tier, out, cov)
    cloudcommon.part(PID, tier, out, cov, extra={"recovery runs": np_ + ".cloud"})
    return out.finish("model_checking", cov, assumptions=[
        "signatures, ECDH and AEAD are perfect (symbolic in the specification)",
        "object level: one handshake attempt per object; re-dialling after a fatal error is node behaviour (node-level checks)",
        "liveness (EventuallyBoth) is stated in Handshake.tla but not model-checked: the history variable makes the fair state space unbounded; "
        "recovery is checked on recorded node runs against a deadline"])


def _selftest(out, trace, summ):
    env = {"RANKHIGH": "A", "ALGOMODE": "normal"}
    dst = os.path.join(V.workdir(PID), "trace_selftest.ndjson")
    hit = V.corrupt_trace(trace, dst, lambda e: e["op"] == "recv" and e["res"] == "succI", lambda e: e.__setitem__("res", "cont"))
    if hit is None:
        V.selftest_fail(PID, "no completed handshake in the trace (vacuous)")
    v = V.tlc_trace("Trace_Handshake.tla", "Trace_Handshake.cfg", PID, dst, summ["events"], extra_env=env, xmx="6g", sub="selftest")
    if v.accepted or v.matched != hit - 1:
        V.selftest_fail(PID, "corrupted trace (line %d) not rejected there (matched %s)" % (hit, v.matched))
    return "completion reported as Continue at trace line %d rejected by TLC" % hit
