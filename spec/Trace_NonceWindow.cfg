SPECIFICATION TraceSpec
CONSTANTS Slots = {0, 1, 2, 3}
INVARIANT TypeOK
POSTCONDITION Accepted
CHECK_DEADLOCK FALSE
