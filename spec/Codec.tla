------------------------------- MODULE Codec -------------------------------
(***************************************************************************)
(* C16 - wire codecs of vpncloud at the level of message *parts*.          *)
(*                                                                         *)
(* Code: src/messages.rs   NodeInfo::{encode, decode}                      *)
(*       src/crypto/init.rs   InitMsg::{write_to, read_from}               *)
(*       src/crypto/rotate.rs RotationMessage::{write_to, read_from}       *)
(*       src/types.rs      Address / Range wire form                       *)
(*                                                                         *)
(* A wire message is a sequence of parts [tag, body]; the part with tag 0  *)
(* is the end marker.  A body is a sequence of *items* - the symbolic      *)
(* stand-ins of the byte groups of the documented format (a flags byte, a  *)
(* 16-byte node id, one socket address, one claim, ...).  Big-endian       *)
(* lengths and the bytes themselves stay in the harness; what is specified *)
(* here is the structure: which parts exist, the count arithmetic of the   *)
(* flags byte (3 bits IPv4 count, 3 bits IPv6 count, top bit = node id     *)
(* present), the normalisation the format implies, the treatment of        *)
(* unknown parts, and totality of the decoders.                            *)
(*                                                                         *)
(* This module has no variables: it is a library of reference operators    *)
(* and property formulas.  MC_Codec enumerates a universe of cases,        *)
(* Trace_Codec judges events recorded from the real codecs.                *)
(***************************************************************************)
EXTENDS Naturals, Sequences, FiniteSets

-----------------------------------------------------------------------------
(* generic helpers *)
Min2(a, b) == IF a < b THEN a ELSE b
Take(s, n) == SubSeq(s, 1, Min2(Len(s), n))
Drop(s, n) == SubSeq(s, n + 1, Len(s))
\* InsertAt(s, i, x): x becomes element i+1, i \in 0..Len(s)
InsertAt(s, i, x) == SubSeq(s, 1, i) \o <<x>> \o SubSeq(s, i + 1, Len(s))

\* items: uniform records so that every body is a homogeneous sequence
Item(k, v, w) == [k |-> k, v |-> v, w |-> w]
Part(t, b) == [tag |-> t, body |-> b]
EndPart == Part(0, <<>>)
AllKind(s, kind) == \A i \in DOMAIN s : s[i].k = kind

MaxPerFamily == 7          \* three bits per family in the flags byte

-----------------------------------------------------------------------------
(*                         N o d e I n f o                                 *)
(* abstract message:                                                       *)
(*   [id, peers : Seq([hasId, id, addrs : Seq([fam, n])]),                  *)
(*    claims : Seq([len, prefix]), timeout : [present, v],                 *)
(*    addrs : Seq([fam, n])]                                               *)
(* An address is [fam |-> 4 | 6, n |-> identity]; the encoder input may    *)
(* interleave the families in any order and hold any number of them.       *)
NI_PEERS == 1
NI_CLAIMS == 2
NI_TIMEOUT == 3
NI_NODEID == 4
NI_ADDRS == 5
NIKnown == {NI_PEERS, NI_CLAIMS, NI_TIMEOUT, NI_NODEID, NI_ADDRS}

Addr(f, n) == [fam |-> f, n |-> n]
NoTimeout == [present |-> FALSE, v |-> 0]
SomeTimeout(v) == [present |-> TRUE, v |-> v]
Peer(hasId, id, addrs) == [hasId |-> hasId, id |-> IF hasId THEN id ELSE 0, addrs |-> addrs]

OfFamily(addrs, f) == SelectSeq(addrs, LAMBDA a : a.fam = f)

(* The format's normalisation, from the property statement: at most seven addresses per family per entry (the
   surplus is cut from the end of the family's list), IPv6 before IPv4.  Nothing else changes. *)
NormAddrs(addrs) == Take(OfFamily(addrs, 6), MaxPerFamily) \o Take(OfFamily(addrs, 4), MaxPerFamily)
NormaliseNI(m) ==
  [id |-> m.id,
   peers |-> [i \in DOMAIN m.peers |-> [m.peers[i] EXCEPT !.addrs = NormAddrs(@)]],
   claims |-> m.claims,
   timeout |-> m.timeout,
   addrs |-> NormAddrs(m.addrs)]

\* ---- encoder (documented format) ----
\* flags byte: bit 7 = node id follows, bits 3..5 = number of IPv6 addresses, bits 0..2 = number of IPv4 addresses
Flags(hasId, n6, n4) == (IF hasId THEN 128 ELSE 0) + 8 * n6 + n4
AddrItems(addrs) == [i \in DOMAIN addrs |-> Item(IF addrs[i].fam = 6 THEN "a6" ELSE "a4", addrs[i].n, 0)]
EncAddrList(hasId, id, addrs) ==
  LET v6 == Take(OfFamily(addrs, 6), MaxPerFamily)
      v4 == Take(OfFamily(addrs, 4), MaxPerFamily)
  IN <<Item("flags", Flags(hasId, Len(v6), Len(v4)), 0)>>
     \o (IF hasId THEN <<Item("nid", id, 0)>> ELSE <<>>)
     \o AddrItems(v6) \o AddrItems(v4)

RECURSIVE EncPeers(_)
EncPeers(ps) == IF ps = <<>> THEN <<>>
                ELSE EncAddrList(Head(ps).hasId, Head(ps).id, Head(ps).addrs) \o EncPeers(Tail(ps))
EncClaims(cs) == [i \in DOMAIN cs |-> Item("claim", cs[i].len, cs[i].prefix)]

EncodeNI(m) ==
  <<Part(NI_NODEID, <<Item("nid", m.id, 0)>>),
    Part(NI_PEERS, EncPeers(m.peers)),
    Part(NI_CLAIMS, EncClaims(m.claims))>>
  \o (IF m.timeout.present THEN <<Part(NI_TIMEOUT, <<Item("u16", m.timeout.v, 0)>>)>> ELSE <<>>)
  \o <<Part(NI_ADDRS, EncAddrList(FALSE, 0, m.addrs)), EndPart>>

\* ---- decoder ----
EmptyNI == [id |-> 0, peers |-> <<>>, claims |-> <<>>, timeout |-> NoTimeout, addrs |-> <<>>]
BadNI == [ok |-> FALSE, msg |-> EmptyNI]
OkNI(m) == [ok |-> TRUE, msg |-> m]

\* one address list: flags item, optional node id, n6 IPv6 items, n4 IPv4 items.  `withId`: the top bit counts
\* (peer entries) or is ignored (the node's own address part).
ParseAddrList(b, withId) ==
  IF b = <<>> \/ Head(b).k # "flags" THEN [ok |-> FALSE, hasId |-> FALSE, id |-> 0, addrs |-> <<>>, rest |-> <<>>]
  ELSE LET f == Head(b).v
           n4 == f % 8
           n6 == (f \div 8) % 8
           hasId == withId /\ f >= 128
           r1 == Tail(b)
           idOk == ~hasId \/ (r1 # <<>> /\ Head(r1).k = "nid")
           r2 == IF hasId /\ idOk THEN Tail(r1) ELSE r1
           fits == Len(r2) >= n6 + n4
           a6 == SubSeq(r2, 1, n6)
           a4 == SubSeq(r2, n6 + 1, n6 + n4)
       IN IF idOk /\ fits /\ AllKind(a6, "a6") /\ AllKind(a4, "a4")
          THEN [ok |-> TRUE, hasId |-> hasId, id |-> IF hasId THEN Head(r1).v ELSE 0,
                addrs |-> [i \in 1..n6 |-> Addr(6, a6[i].v)] \o [i \in 1..n4 |-> Addr(4, a4[i].v)],
                rest |-> Drop(r2, n6 + n4)]
          ELSE [ok |-> FALSE, hasId |-> FALSE, id |-> 0, addrs |-> <<>>, rest |-> <<>>]

RECURSIVE ParsePeers(_, _)
ParsePeers(b, acc) ==
  IF b = <<>> THEN [ok |-> TRUE, v |-> acc]
  ELSE LET r == ParseAddrList(b, TRUE)
       IN IF r.ok THEN ParsePeers(r.rest, Append(acc, Peer(r.hasId, r.id, r.addrs)))
          ELSE [ok |-> FALSE, v |-> <<>>]

MaxAddrLen == 16
ParseClaims(b) ==
  IF AllKind(b, "claim") /\ \A i \in DOMAIN b : b[i].v <= MaxAddrLen
  THEN [ok |-> TRUE, v |-> [i \in DOMAIN b |-> [len |-> b[i].v, prefix |-> b[i].w]]]
  ELSE [ok |-> FALSE, v |-> <<>>]

(* Decoder state: the fields collected so far; a later part of the same kind replaces the earlier one (this is what
   the code does; the property does not speak about duplicate parts).  A part with a tag outside NIKnown is skipped
   whatever its body.  Fixed-size parts (node id, time-out, own addresses) with surplus items are *malformed* here
   (the code goes on parsing inside the surplus bytes; nothing is demanded about that). *)
RECURSIVE DecNI(_, _, _)
DecNI(ps, st, haveId) ==
  IF ps = <<>> THEN BadNI                                   \* ran off the end: no end marker
  ELSE LET p == Head(ps) b == Head(ps).body IN
    CASE p.tag = 0 -> IF haveId THEN OkNI(st) ELSE BadNI      \* node id is the one mandatory part
      [] p.tag = NI_NODEID -> IF Len(b) = 1 /\ b[1].k = "nid" THEN DecNI(Tail(ps), [st EXCEPT !.id = b[1].v], TRUE)
                              ELSE BadNI
      [] p.tag = NI_PEERS -> LET r == ParsePeers(b, <<>>) IN
                             IF r.ok THEN DecNI(Tail(ps), [st EXCEPT !.peers = r.v], haveId) ELSE BadNI
      [] p.tag = NI_CLAIMS -> LET r == ParseClaims(b) IN
                              IF r.ok THEN DecNI(Tail(ps), [st EXCEPT !.claims = r.v], haveId) ELSE BadNI
      [] p.tag = NI_TIMEOUT -> IF Len(b) = 1 /\ b[1].k = "u16"
                               THEN DecNI(Tail(ps), [st EXCEPT !.timeout = SomeTimeout(b[1].v)], haveId)
                               ELSE BadNI
      [] p.tag = NI_ADDRS -> LET r == ParseAddrList(b, FALSE) IN
                             IF r.ok /\ r.rest = <<>> THEN DecNI(Tail(ps), [st EXCEPT !.addrs = r.addrs], haveId)
                             ELSE BadNI
      [] OTHER -> DecNI(Tail(ps), st, haveId)

DecodeNI(ps) == DecNI(ps, EmptyNI, FALSE)

\* ---- unknown parts ----
(* ins: sequence of [at, part]; `at` is a position of the *original* sequence (0 = before the first part,
   Len - 1 = directly before the end marker); several insertions at one position keep their order. *)
RECURSIVE InsertUnknown(_, _)
InsertUnknown(ps, ins) ==
  IF ins = <<>> THEN ps
  ELSE LET last == ins[Len(ins)] IN InsertUnknown(InsertAt(ps, last.at, last.part), SubSeq(ins, 1, Len(ins) - 1))
\* insertion from the back keeps earlier positions valid provided `ins` is sorted by `at`
SortedIns(ins) == \A i, j \in DOMAIN ins : i < j => ins[i].at <= ins[j].at

StripUnknown(ps, known) == SelectSeq(ps, LAMBDA p : p.tag = 0 \/ p.tag \in known)

\* ---- property formulas ----
RoundTripNI(m, ins) == DecodeNI(InsertUnknown(EncodeNI(m), ins)) = OkNI(NormaliseNI(m))

WellFormedAddrs(as) ==
  /\ Len(OfFamily(as, 4)) <= MaxPerFamily /\ Len(OfFamily(as, 6)) <= MaxPerFamily
  /\ \A i, j \in DOMAIN as : (as[i].fam = 4 /\ as[j].fam = 6) => j < i
WellFormedNI(m) ==
  /\ \A i \in DOMAIN m.peers : WellFormedAddrs(m.peers[i].addrs)
  /\ WellFormedAddrs(m.addrs)
  /\ \A i \in DOMAIN m.claims : m.claims[i].len <= MaxAddrLen

HasEnd(ps) == \E i \in DOMAIN ps : ps[i].tag = 0
\* totality and what it implies, for an arbitrary part sequence
TotalNI(ps) ==
  LET r == DecodeNI(ps) IN
  /\ r.ok \in BOOLEAN
  /\ r.ok => (HasEnd(ps) /\ WellFormedNI(r.msg) /\ NormaliseNI(r.msg) = r.msg)
  /\ ~HasEnd(ps) => ~r.ok
  /\ DecodeNI(StripUnknown(ps, NIKnown)) = r            \* unknown parts never matter, wherever they stand

-----------------------------------------------------------------------------
(*                          I n i t M s g                                  *)
(* wire: 8 bytes key selector, parts, end marker, signature over everything up to and including the end marker.    *)
(* abstract message: [stage, hash, ecdh : [present, v], algos : [present, v : Seq([id, speed])],                   *)
(*                    payload : [present, v]]                                                                      *)
(* algorithm entries: id 0 = "unencrypted allowed" flag, 1..3 = AES128, AES256, CHACHA20; other ids belong to      *)
(* newer versions and are dropped.                                                                                 *)
IM_STAGE == 1
IM_HASH == 2
IM_ECDH == 3
IM_ALGOS == 4
IM_PAYLOAD == 5
IMKnown == {IM_STAGE, IM_HASH, IM_ECDH, IM_ALGOS, IM_PAYLOAD}
PING == 1
PONG == 2
PENG == 3
KnownAlgo == {1, 2, 3}

Absent == [present |-> FALSE, v |-> <<>>]
Present(v) == [present |-> TRUE, v |-> v]

NeedsEcdh(stage) == stage \in {PING, PONG}
NeedsAlgos(stage) == stage \in {PING, PONG}
NeedsPayload(stage) == stage \in {PONG, PENG}

\* decoded algorithm list: flag + the known entries in wire order
NormAlgos(entries) == [unenc |-> \E i \in DOMAIN entries : entries[i].id = 0,
                       list |-> SelectSeq(entries, LAMBDA e : e.id \in KnownAlgo)]
\* decoded message: only the fields of its stage
NormaliseIM(m) ==
  [stage |-> m.stage, hash |-> m.hash,
   ecdh |-> IF NeedsEcdh(m.stage) THEN m.ecdh ELSE Absent,
   algos |-> IF NeedsAlgos(m.stage) THEN Present(NormAlgos(m.algos.v)) ELSE Absent,
   payload |-> IF NeedsPayload(m.stage) THEN m.payload ELSE Absent]
CompleteIM(m) == /\ m.stage \in {PING, PONG, PENG}
                 /\ NeedsEcdh(m.stage) => m.ecdh.present
                 /\ NeedsAlgos(m.stage) => m.algos.present
                 /\ NeedsPayload(m.stage) => m.payload.present

\* encoder: every field that is present becomes a part (a complete message of a stage has exactly its fields)
EncodeIM(m) ==
  <<Part(IM_STAGE, <<Item("stage", m.stage, 0)>>), Part(IM_HASH, <<Item("hash", m.hash, 0)>>)>>
  \o (IF m.ecdh.present THEN <<Part(IM_ECDH, m.ecdh.v)>> ELSE <<>>)
  \o (IF m.algos.present THEN <<Part(IM_ALGOS, [i \in DOMAIN m.algos.v |-> Item("algo", m.algos.v[i].id, m.algos.v[i].speed)])>>
      ELSE <<>>)
  \o (IF m.payload.present THEN <<Part(IM_PAYLOAD, m.payload.v)>> ELSE <<>>)
  \o <<EndPart>>

\* a datagram: the parts plus what the signature was computed over
Signed(ps) == [parts |-> ps, signed |-> ps]
UpToEnd(ps) == LET e == CHOOSE i \in DOMAIN ps : ps[i].tag = 0 /\ \A j \in 1..(i - 1) : ps[j].tag # 0
               IN SubSeq(ps, 1, e)

EmptyIM == [stage |-> 0, hash |-> 0, ecdh |-> Absent, algos |-> Absent, payload |-> Absent]
BadIM == [ok |-> FALSE, msg |-> EmptyIM]
IMState == [stage |-> Absent, hash |-> Absent, ecdh |-> Absent, algos |-> Absent, payload |-> Absent]

RECURSIVE DecIMParts(_, _)
DecIMParts(ps, st) ==
  IF ps = <<>> THEN [ok |-> FALSE, st |-> st]
  ELSE LET p == Head(ps) b == Head(ps).body IN
    CASE p.tag = 0 -> [ok |-> TRUE, st |-> st]
      [] p.tag = IM_STAGE -> IF Len(b) = 1 /\ b[1].k = "stage" THEN DecIMParts(Tail(ps), [st EXCEPT !.stage = Present(b[1].v)])
                             ELSE [ok |-> FALSE, st |-> st]
      [] p.tag = IM_HASH -> IF Len(b) = 1 /\ b[1].k = "hash" THEN DecIMParts(Tail(ps), [st EXCEPT !.hash = Present(b[1].v)])
                            ELSE [ok |-> FALSE, st |-> st]
      [] p.tag = IM_ECDH -> DecIMParts(Tail(ps), [st EXCEPT !.ecdh = Present(b)])          \* any length is taken
      [] p.tag = IM_PAYLOAD -> DecIMParts(Tail(ps), [st EXCEPT !.payload = Present(b)])
      [] p.tag = IM_ALGOS -> IF AllKind(b, "algo")
                             THEN DecIMParts(Tail(ps), [st EXCEPT !.algos =
                                    Present(NormAlgos([i \in DOMAIN b |-> [id |-> b[i].v, speed |-> b[i].w]]))])
                             ELSE [ok |-> FALSE, st |-> st]      \* 1..4 surplus bytes: malformed here
      [] OTHER -> DecIMParts(Tail(ps), st)

DecodeIM(d) ==
  LET r == DecIMParts(d.parts, IMState) st == r.st IN
  IF ~r.ok THEN BadIM
  ELSE IF UpToEnd(d.parts) # d.signed THEN BadIM              \* signature covers every part, known or not
  ELSE IF ~st.stage.present \/ ~st.hash.present THEN BadIM
  ELSE LET s == st.stage.v IN
       IF s \notin {PING, PONG, PENG} THEN BadIM
       ELSE IF (NeedsEcdh(s) /\ ~st.ecdh.present) \/ (NeedsAlgos(s) /\ ~st.algos.present)
               \/ (NeedsPayload(s) /\ ~st.payload.present) THEN BadIM
       ELSE [ok |-> TRUE, msg |-> [stage |-> s, hash |-> st.hash.v,
                                   ecdh |-> IF NeedsEcdh(s) THEN st.ecdh ELSE Absent,
                                   algos |-> IF NeedsAlgos(s) THEN st.algos ELSE Absent,
                                   payload |-> IF NeedsPayload(s) THEN st.payload ELSE Absent]]

RoundTripIM(m, ins) ==
  LET d == DecodeIM(Signed(InsertUnknown(EncodeIM(m), ins)))
  IN IF CompleteIM(m) THEN d = [ok |-> TRUE, msg |-> NormaliseIM(m)] ELSE ~d.ok
\* an unknown part added behind the sender's back is not skipped silently: the signature no longer fits
TamperIM(m, ins) ==
  ins # <<>> => ~DecodeIM([parts |-> InsertUnknown(EncodeIM(m), ins), signed |-> EncodeIM(m)]).ok

TotalIM(ps) ==
  LET r == DecodeIM(Signed(ps)) IN
  /\ r.ok \in BOOLEAN
  /\ r.ok => (HasEnd(ps) /\ CompleteIM(r.msg) /\ r.msg.stage \in {PING, PONG, PENG})
  /\ r.ok /\ r.msg.algos.present => \A i \in DOMAIN r.msg.algos.v.list : r.msg.algos.v.list[i].id \in KnownAlgo
  /\ ~HasEnd(ps) => ~r.ok
  /\ DecodeIM(Signed(StripUnknown(ps, IMKnown))) = r

-----------------------------------------------------------------------------
(*                       R o t a t i o n M e s s a g e                     *)
(* wire (no parts): u64 id, length byte + proposed key, length byte + confirmed key (length 0 = none).             *)
(* flat item sequence: "u64", "len", "b"...; abstract: [id, propose : Seq, confirm : [present, v : Seq]]           *)
MaxKeyLen == 255
KeyItems(key) == [i \in DOMAIN key |-> Item("b", key[i], 0)]
EncodeRot(m) ==
  <<Item("u64", m.id, 0), Item("len", Len(m.propose), 0)>> \o KeyItems(m.propose)
  \o (IF m.confirm.present THEN <<Item("len", Len(m.confirm.v), 0)>> \o KeyItems(m.confirm.v)
      ELSE <<Item("len", 0, 0)>>)
\* an empty confirmed key is indistinguishable from none
NormaliseRot(m) == [m EXCEPT !.confirm = IF m.confirm.present /\ m.confirm.v # <<>> THEN m.confirm ELSE Absent]
EmptyRot == [id |-> 0, propose |-> <<>>, confirm |-> Absent]
BadRot == [ok |-> FALSE, msg |-> EmptyRot]

ReadKey(w) ==      \* length item, then that many byte items
  IF w = <<>> \/ Head(w).k # "len" \/ Head(w).v > MaxKeyLen THEN [ok |-> FALSE, key |-> <<>>, rest |-> <<>>]
  ELSE LET n == Head(w).v body == SubSeq(w, 2, n + 1) IN
       IF Len(w) >= n + 1 /\ AllKind(body, "b")
       THEN [ok |-> TRUE, key |-> [i \in 1..n |-> body[i].v], rest |-> Drop(w, n + 1)]
       ELSE [ok |-> FALSE, key |-> <<>>, rest |-> <<>>]
DecodeRot(w) ==
  IF w = <<>> \/ Head(w).k # "u64" THEN BadRot
  ELSE LET p == ReadKey(Tail(w)) IN
       IF ~p.ok THEN BadRot
       ELSE LET c == ReadKey(p.rest) IN
            IF ~c.ok THEN BadRot
            ELSE [ok |-> TRUE, msg |-> [id |-> Head(w).v, propose |-> p.key,
                                        confirm |-> IF c.key = <<>> THEN Absent ELSE Present(c.key)]]
                 \* bytes behind the message are not looked at

RoundTripRot(m) == DecodeRot(EncodeRot(m)) = [ok |-> TRUE, msg |-> NormaliseRot(m)]
\* the direction the harness can observe without access to the private fields: re-encoding what was decoded
ReencodeRot(w) == LET r == DecodeRot(w) IN r.ok => EncodeRot(r.msg) = Take(w, Len(EncodeRot(r.msg)))
TotalRot(w) == LET r == DecodeRot(w) IN
  /\ r.ok \in BOOLEAN
  /\ ReencodeRot(w)
  /\ r.ok => \A n \in 0..Len(w) : n < Len(EncodeRot(r.msg)) => ~DecodeRot(Take(w, n)).ok   \* every truncation fails
=============================================================================
