-------------------------------- MODULE MC_Mesh --------------------------------
EXTENDS Mesh, Sequences, TLC, Json
\* every initial state is one bootstrap configuration for the harness (tuples and numbers only)
RECURSIVE SetToSeq(_)
SetToSeq(S) == IF S = {} THEN <<>> ELSE LET x == CHOOSE y \in S : TRUE IN <<x>> \o SetToSeq(S \ {x})
EmitCfg == (round = 0 /\ phase = "dial") => PrintT(<<"CFG", ToJson([n |-> N, nat |-> SetToSeq(nat), dial |-> SetToSeq(dial)])>>)
=============================================================================
