"""C18 - generated and password-derived keys are always usable and deterministic.

Design level (TLC): Base62.tla exhaustively on every byte string of length <= 2 (MC_KeysCodec: number meaning =
positional arithmetic, fixed-width round trip, what plain decoding loses); Keys.tla over every seed class
(0..4 leading zero bytes in private seed and public key) x role with real 32-byte keys (MC_Keys), and the variant
with the plain decoder (MC_KeysUnpadded: expected counterexample = the specification has teeth).
Impl -> spec: the drivers run to_base62/from_base62 and Crypto::generate_keypair / Crypto::new / a real handshake on
the quantifier's families; TLC judges every recorded event with the operators of Base62.tla / Keys.tla (Trace_Keys)."""
import json
import os
import vplib as V
from checks.c17 import pick_lines, parallel, selftest, Findings, JVM, limited, validate_chunked

PID = "C18"


def classify(e):
    op = e.get("op")
    if op == "codec":
        if e["res"] != "ok":
            return "keys|codec|" + e["res"], "text codec failed on its own output"
        return "keys|codec|number-changed|len=%s" % ("<=2" if len(e["bytes"]) <= 2 else ">2"), \
            "to_base62/from_base62 do not preserve the number a byte string denotes"
    if op in ("lifecycle", "configure", "use"):
        zeros = e.get("seed_zeros", 0) > 0 or e.get("pub_zeros", 0) > 0
        cls = "leading-zero" if zeros else "no-leading-zero"
        role = e.get("role", "?")
        if e.get("res", "ok") != "ok":
            return "keys|genkey|%s|%s" % (cls, "rejected" if e["res"] == "err" else e["res"]), \
                "a key pair printed by key generation is refused when configured (role %s): %s" % (role, e.get("err", ""))
        if e.get("pfp") not in (None, "ok", "na"):
            return "keys|genkey|%s|public-from-private-%s" % (cls, e["pfp"]), "the private key text does not yield its matching public key"
        return "keys|genkey|%s|%s|handshake-failed" % (cls, role), "a configured printed key does not denote the generated key (handshake with the counterpart fails)"
    if op == "password":
        if not e["same_twice"]:
            return "keys|password|not-deterministic", "the same password yields different key pairs"
        if e["res"] != "ok":
            return "keys|password|rejected", "a password configuration is refused"
        if not e["peers"]:
            return "keys|password|same-password-no-peers", "two nodes with the same password do not become peers"
        return "keys|password|different-password-peers", "nodes with different passwords become peers"
    if op == "print":
        return "keys|print|text-denotes-other-key", "the printed text does not denote the generated key"
    return "keys|%s|unexplained" % op, "event not explained by the specification"


def annotate(path, lines):
    """events at `lines`, with the class of the key (from the preceding gen event) added to configure/use events"""
    res = {}
    want = set(lines)
    if not want:
        return res
    cur = {}
    role = None
    with open(path) as f:
        for i, line in enumerate(f, 1):
            if i > max(want):
                break
            if '"op":"gen"' in line:
                cur = json.loads(line)
            elif '"op":"configure"' in line:
                role = json.loads(line)
            if i in want:
                e = json.loads(line)
                if e["op"] in ("configure", "use"):
                    e.update({"seed_zeros": cur.get("seed_zeros", 0), "pub_zeros": cur.get("pub_zeros", 0), "src": cur.get("src")})
                    if e["op"] == "use" and role:
                        e.update({"role": role["role"], "res": role["res"]})
                res[i] = e
    return res


def run(tier, out):
    wd = V.workdir(PID)
    quick = tier == "quick"
    V.build_harness()
    fams = ("codec", "life")
    paths = {f: os.path.join(wd, "trace_%s.ndjson" % f) for f in fams}

    def impl(f):
        s = V.harness_json(["keys", f, tier, paths[f]])
        # a piece may end only where the key machine is idle
        bl, n = validate_chunked("Trace_Keys.tla", "Trace_Keys.cfg", PID, paths[f], f, chunk=25000 if f == "codec" else 50000,
                                 boundary=lambda line: any(('"op":"%s"' % o) in line for o in ("done", "lifecycle", "password", "codec")))
        if n != s["events"]:
            raise V.ToolError("trace %s has %d lines, driver reported %d events" % (f, n, s["events"]))
        return s, bl

    jobs = {
        "codec": lambda: limited(V.tlc_design)("MC_KeysCodec.tla", "MC_KeysCodec.cfg" if quick else "MC_KeysCodec_thorough.cfg", PID, workers=6, env=JVM),
        "keys": lambda: limited(V.tlc_design)("MC_Keys.tla", "MC_Keys.cfg", PID, workers=4, env=JVM),
        "unpadded": lambda: limited(V.tlc_design)("MC_Keys.tla", "MC_KeysUnpadded.cfg", PID, workers=1, env=JVM),
        "unpadded-class": lambda: limited(V.tlc_design)("MC_Keys.tla", "MC_KeysUnpaddedClass.cfg", PID, workers=2, env=JVM),
    }
    for f in fams:
        jobs["impl-" + f] = (lambda f=f: impl(f))
    r = parallel(jobs)
    for k in ("codec", "keys", "unpadded-class"):
        d = r[k]
        if d.invariant_violated or d.property_violated:
            out.violation("design|%s|%s" % (k, ",".join(d.invariant_violated)), "Keys.tla / Base62.tla violates its own property", {"tlc": d.out[-3000:]})
    if "ConfigureSucceeds" not in r["unpadded"].invariant_violated:
        V.selftest_fail(PID, "the variant with the plain decoder was not refuted by TLC - the key model lost its teeth")
    fnd = Findings()
    skip = {}
    validated = 0
    events = 0
    for f in fams:
        s, bl = r["impl-" + f]
        skip[f] = set(bl)
        events += s["events"]
        validated += s["events"] - len(bl)
        for ln, e in sorted(annotate(paths[f], bl).items()):
            if e["op"] == "use" and (ln - 1) in skip[f]:
                continue          # the refused configuration is already reported
            sig, what = classify(e)
            e["_trace"] = "%s:%d" % (os.path.basename(paths[f]), ln)
            fnd.add(sig, what, e)
    fnd.report(out)
    # binding self-test: only whole key lives are taken over (gen .. done), from events the main run accepted
    life_ok = os.path.join(wd, "trace_life_accepted.ndjson")
    with open(paths["life"]) as f, open(life_ok, "w") as g:
        block, ok = [], True
        n = {"block": 0, "lifecycle": 0, "password": 0}
        for i, line in enumerate(f, 1):
            op = json.loads(line)["op"]
            if op in ("lifecycle", "password"):
                if i not in skip["life"] and n[op] < 100:
                    g.write(line)
                    n[op] += 1
                continue
            block.append(line)
            ok = ok and i not in skip["life"]
            if op == "done":
                if ok and n["block"] < 300:
                    g.writelines(block)
                    n["block"] += len(block)
                block, ok = [], True

    def flip_char(e):
        e["text"][-1] = "1" if e["text"][-1] != "1" else "2"
    st = selftest(PID, "Trace_Keys.tla", "Trace_Keys.cfg", [("codec", paths["codec"]), ("life_ok", life_ok)], {"codec": skip["codec"]}, [
        ("codec: one text digit changed", lambda e: e["op"] == "codec" and len(e["text"]) >= 2, flip_char),
        ("codec: decoded byte changed", lambda e: e["op"] == "codec" and len(e["back"]) >= 2, lambda e: e["back"].__setitem__(0, (e["back"][0] % 255) + 1)),
        ("configure: refused instead of accepted", lambda e: e["op"] == "configure" and e["res"] == "ok", lambda e: e.__setitem__("res", "err")),
        ("use: handshake failed", lambda e: e["op"] == "use" and e["hs"], lambda e: e.__setitem__("hs", False)),
        ("lifecycle: refused", lambda e: e["op"] == "lifecycle" and e["res"] == "ok", lambda e: e.__setitem__("res", "err")),
        ("password: other password peers", lambda e: e["op"] == "password" and not e["other_pw_peers"], lambda e: e.__setitem__("other_pw_peers", True)),
    ], wd, per_source=700, allow_vacuous=bool(out.violations))
    distinct = set()
    samples = []
    classes = {}
    with open(paths["codec"]) as fh:
        for i, line in enumerate(fh):
            e = json.loads(line)
            distinct.add(("c", tuple(e["bytes"])))
            if i in (300, 65900):
                samples.append(e)
    with open(paths["life"]) as fh:
        kz = pz = 0
        for i, line in enumerate(fh):
            e = json.loads(line)
            if e["op"] == "gen":
                kz, pz = e["seed_zeros"], e["pub_zeros"]
                distinct.add(("g", i))
            elif e["op"] == "configure":
                classes[(kz, pz, e["role"])] = classes.get((kz, pz, e["role"]), 0) + 1
            elif e["op"] == "lifecycle":
                classes[(e["seed_zeros"], e["pub_zeros"], e["role"])] = classes.get((e["seed_zeros"], e["pub_zeros"], e["role"]), 0) + 1
                distinct.add(("l", i))
            elif e["op"] == "password":
                distinct.add(("p", e["pw_id"]))
            if i < 11 or e["op"] == "password" and e["pw_id"] < 2:
                samples.append(e)
    sums = {f: r["impl-" + f][0] for f in fams}
    cov = {
        "states": r["codec"].distinct + r["keys"].distinct, "transitions": r["codec"].generated + r["keys"].generated,
        "design_runs": {"MC_KeysCodec": [r["codec"].distinct, r["codec"].generated], "MC_Keys": [r["keys"].distinct, r["keys"].generated],
                        "MC_KeysUnpadded": "refuted (expected)", "MC_KeysUnpaddedClass": [r["unpadded-class"].distinct, r["unpadded-class"].generated]},
        "traces_validated_against_impl": validated,
        "samples": samples,
        "evaluations": events,
        "distinct_nontrivial": len(distinct),
        "rule": "codec: every byte string of length <= 2 + seeded random strings of 3..64 bytes (leading zeros, all-ones, value 1); keys: seeds with "
                "0..4 leading zero bytes x public keys with 0..2 leading zero bytes (found by search) x 3 roles with all data in the trace, "
                "password-derived pairs with a leading zero byte (password search), random seeds, genuine generate_keypair(None) output and a "
                "password dictionary (empty, unicode, 1 KiB) as compact events; each configured key is used in a real handshake; "
                "distinct = distinct byte strings + key pairs x role events + passwords",
        "key_classes_seen": {"%d/%d/%s" % k: v for k, v in sorted(classes.items())},
        "drivers": sums,
        "self_test": st,
        "checker_cmd": "tlc MC_KeysCodec / MC_Keys / MC_KeysUnpadded / Trace_Keys",
    }
    return out.finish("model_checking", cov, assumptions=[
        "Ed25519 (ring) is correct: the public key the harness computes from a seed is the public key of that seed",
        "PBKDF2 / Ed25519 collisions between different passwords are outside the model (KeyOf injective)",
        "the text format itself is not demanded, only that a printed text denotes the number of the key bytes"])
