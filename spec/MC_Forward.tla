---------------------------- MODULE MC_Forward ----------------------------
EXTENDS Forward, TLC, Json
CONSTANTS MaxFrames, MaxNow, Tcis, Macs, MaxDown
MCNodes == {1, 2, 3}
\* router mode: nested / overlapping claims on an 4-bit address universe: node 1 owns 8/1, node 2 owns 12/2 and 0/0, node 3 owns 12/4
MCClaim == [n \in MCNodes |-> IF Mode # "router" THEN {}
                              ELSE IF n = 1 THEN {<<8, 1, 4>>} ELSE IF n = 2 THEN {<<12, 2, 4>>, <<0, 0, 4>>} ELSE {<<12, 4, 4>>}]
\* a frame carries one tag: source and destination address share the VLAN key
VARIABLE act
MCNext == \/ \E n \in Nodes \ down, t \in Tcis, sm \in Macs, dm \in Macs : \E T \in Targets(n, Addr(t, dm)) :
               /\ IfaceRead(n, Addr(t, sm), Addr(t, dm), T)
               /\ act' = [op |-> "iface", n |-> n, src |-> <<t, sm>>, dst |-> <<t, dm>>]
          \/ \E d \in net : NetRecv(d) /\ act' = [op |-> "recv", fid |-> d.fid, to |-> d.to]
          \/ net = {} /\ Tick /\ act' = [op |-> "tick", secs |-> 1]      \* payload is delivered within the second it was sent
          \/ \E n \in Nodes : Cardinality(down) < MaxDown /\ Leave(n) /\ act' = [op |-> "leave", n |-> n]
MCSpec == Init /\ act = [op |-> "init"] /\ [][MCNext]_<<vars, act>>
Bound == Len(frames) <= MaxFrames /\ now <= MaxNow
View == vars
\* state identity for the schedule generator (tuples only)
PL(x) == {<<e.addr, e.peer, e.at>> : e \in x}
PN(x) == {<<d.id, d.from, d.to, d.fid>> : d \in x}
PF(x) == [i \in 1..Len(x) |-> <<x[i].at, x[i].src, x[i].dst, x[i].sentTo>>]
Proj(nw, le, nt, fr, dl, dn) == ToString(<<nw, [n \in MCNodes |-> PL(le[n])], PN(nt), PF(fr), dl, dn>>)
EmitEdge == PrintT(<<"EDGE", ToJson([s |-> Proj(now, learned, net, frames, delivered, down), a |-> act',
                                      t |-> Proj(now', learned', net', frames', delivered', down')])>>)
=============================================================================
