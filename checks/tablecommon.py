"""Table-level machinery shared by C11, C12 and C13: design run of Table.tla, replay of every exported transition on
the real ClaimTable, seeded random operation sequences, trace validation against Trace_Table, diagnosis of rejections.

    run_table_part(pid, out, tier, focus) -> coverage dict (violations are added to `out`)

focus selects the schedule family and what the trace validation admits:
    "C11"  MC_Table.cfg / MC_Table_thorough.cfg: all operation sequences to length 4 over 3 peers x 6 nested/overlapping/tied
           ranges x 3 probe addresses x time steps; random sequences, all four profiles; AdmitStale = TRUE (a claim that
           stays in the table although its peer no longer announces it is C12's business; routing over the claims that
           are live is still judged, see docs/C11.md)
    "C12"  MC_TableAnn*.cfg: one peer announces every subset and order of a 4-claim universe (+ duplicate entries), a second
           peer a small alphabet, with lookups, time steps, disconnects; random sequences with announcement churn;
           AdmitStale = FALSE: the table's claims must be exactly the last announcement
    "C13"  MC_TableLearn*.cfg: learn / lookup / time steps 0,1,ST,CT / disconnect over connected peers; random sequences with
           the learning profile; AdmitStale = TRUE

Validation ladder per trace (see Trace_Table.tla): pass 1 deterministic (Lenient = FALSE); a rejected trace is judged again
with every admissible choice (Lenient = TRUE); what is still rejected is a violation.  With focus C12 a third pass with
AdmitStale = TRUE tells whether "a claim that is no longer announced stays" explains the event (signature
table|announce|stale-claim-kept) and lets the validation continue behind it.  Every other rejection is diagnosed on the
linearised run (Trace_TableDiag: the property formulas as INVARIANT/PROPERTY, then one observation relaxed at a time)."""
import collections
import concurrent.futures as cf
import json
import os
import re
import time

import vplib as V

PEERS = 3
W = 4
TEMPLATE = "Trace_Table.cfg"
DIAG_TEMPLATE = "Trace_TableDiag.cfg"

DESIGN = {
    ("C11", "quick"): ("MC_Table.cfg", 3, 2),
    ("C11", "thorough"): ("MC_Table_thorough.cfg", 3, 2),
    ("C12", "quick"): ("MC_TableAnn.cfg", 3, 2),
    ("C12", "thorough"): ("MC_TableAnn_thorough.cfg", 3, 2),
    ("C13", "quick"): ("MC_TableLearn.cfg", 3, 2),
    ("C13", "thorough"): ("MC_TableLearn_thorough.cfg", 3, 2),
}
# (ct, st) of the random runs: the design constants, switch timeout above the claim timeout (min() in lookup matters),
# equal timeouts, and the defaults of vpncloud (300 / 300) with leaps of timeout -1/+0/+1
RANDOM_PAIRS = [(3, 2), (2, 4), (7, 7), (300, 300), (120, 300)]
RANDOM_PROFILE = {"C11": "mixed", "C12": "1", "C13": "3"}


# ------------------------------------------------------------------------------------------------ design run

def design(pid, cfg, workers, timeout=1500):
    """Exhaustive TLC run of MC_Table with `cfg`; returns (TlcResult, edges, init state id)."""
    d = V.tlc_design("MC_Table.tla", cfg, pid, workers=workers, timeout=timeout, xmx="8g")
    edges = V.tlc_lines(d.out, "EDGE")
    init = V.tlc_lines(d.out, "INIT")
    if not init:
        raise V.ToolError("MC_Table did not print its initial state")
    return d, edges, init[0]["s"]


def tree_commands(edges, init, groups):
    """Command streams that execute every exported transition exactly once: BFS spanning tree of the state graph; at
    each tree node every outgoing transition is executed, the one that discovered a new state is followed into its
    subtree, and `back` returns to the node (the driver rebuilds the table by replaying the path).  The subtrees below
    the initial state are distributed over `groups` streams, each starting with `reset`."""
    adj = collections.defaultdict(list)
    for e in edges:
        adj[e["s"]].append((e["a"], e["t"]))
    if init not in adj:
        raise V.ToolError("initial state has no exported transition")
    parent = {init: None}
    order = [init]
    q = collections.deque([init])
    while q:
        u = q.popleft()
        for i, (a, t) in enumerate(adj[u]):
            if t not in parent:
                parent[t] = (u, i)
                q.append(t)
                order.append(t)

    def label(a, depth):
        c = {k: v for k, v in a.items() if k not in ("res", "how")}
        c["d"] = depth
        return c

    def emit(u, k, out):
        # iterative DFS (depth is small, but keep python's recursion limit out of it)
        stack = [(u, k, 0)]
        while stack:
            node, depth, i = stack.pop()
            if i >= len(adj[node]):
                continue            # node finished; whoever continues emits the `back` it needs
            if i > 0:
                out.append({"op": "back", "to": depth})
            a, t = adj[node][i]
            stack.append((node, depth, i + 1))
            if parent.get(t) == (node, i):
                out.append(label(a, depth + 1))
                stack.append((t, depth + 1, 0))
            else:
                out.append(label(a, 0))

    # one unit per transition out of the initial state; a tree child brings its whole subtree
    units = []
    for i, (a, t) in enumerate(adj[init]):
        u = []
        if parent.get(t) == (init, i):
            u.append(label(a, 1))
            emit(t, 1, u)
        else:
            u.append(label(a, 0))
        units.append(u)
    units.sort(key=len, reverse=True)
    streams = [[] for _ in range(groups)]
    for u in units:
        s = min(streams, key=len)
        if not s:
            s.append({"op": "reset"})
        else:
            s.append({"op": "back", "to": 0})
        s.extend(u)
    streams = [s for s in streams if s]
    # transitions whose source is only reachable through a choice table.rs never makes cannot be replayed
    replayable = sum(len(adj[u]) for u in order)
    executed = sum(1 for s in streams for c in s if c["op"] not in ("reset", "back"))
    if executed != replayable:
        raise V.ToolError("tree replay covers %d of %d transitions" % (executed, replayable))
    return streams, len(order), replayable


# ------------------------------------------------------------------------------------------------ trace validation

def make_cfg(wd, name, template, ct, st, addrs, **consts):
    """cfg for one trace: the template with the run's constants filled in (plain constants, see Trace_Table.tla)."""
    with open(os.path.join(V.SPEC, template)) as f:
        t = f.read()
    subst = {"W": str(W), "CT": str(ct), "ST": str(st), "Addrs": "{%s}" % ", ".join(str(a) for a in sorted(addrs))}
    for k, v in consts.items():
        subst[k] = ("TRUE" if v else "FALSE") if isinstance(v, bool) else '"%s"' % v
    for k, v in subst.items():
        t, n = re.subn(r"(?m)^(\s*(?:CONSTANTS\s+)?%s\s*=\s*).*$" % re.escape(k), lambda m: m.group(1) + v, t)
        if n != 1:
            raise V.ToolError("cfg template %s has no constant %s" % (template, k))
    path = os.path.join(wd, name + ".cfg")
    with open(path, "w") as f:
        f.write(t)
    return path


def trace_addrs(events):
    s = set()
    for e in events:
        if e["op"] == "reset":
            s.update(e["addrs"])
    return s or {0}


def linearise(events, upto):
    """The run that leads to event `upto` as a straight sequence: from the last reset, `back` events resolved."""
    start = max(i for i in range(upto + 1) if events[i]["op"] == "reset")
    run = []
    for e in events[start + 1:upto + 1]:
        if e["op"] == "back":
            del run[e["to"]:]
        else:
            e = dict(e)
            e["d"] = 0
            run.append(e)
    return [events[start]] + run


def stale_claims(e):
    """claims of the announcing peer in the dump that the announcement does not contain"""
    if e.get("op") != "announce":
        return []
    lst = [tuple(r) for r in e["list"]]
    return [c for c in e["claims"] if c[0] == e["peer"] and (c[1], c[2]) not in lst]


def diagnose(pid, wd, run, ct, st, addrs, admit_stale, tag):
    """Names what is wrong with the last event of a linearised run.  TLC decides: first the property formulas as
    invariants / action properties, then the run with one observation not compared."""
    bad = run[-1]
    if bad.get("ok") is False:
        return "panic", "the table panicked"
    path = os.path.join(wd, "diag-%s.ndjson" % tag)
    V.write_ndjson(path, run)
    cfg = make_cfg(wd, "diag-%s" % tag, DIAG_TEMPLATE, ct, st, addrs, AdmitStale=admit_stale, Gate=False, Relax="none", Lenient=True)
    if admit_stale:
        # the history formulas about announcements are not claimed when stale claims are admitted
        with open(cfg) as f:
            t = f.read()
        t = t.replace("INVARIANT ClaimsAreLastAnnouncement\n", "").replace("PROPERTY AnnounceIsExact\n", "")
        with open(cfg, "w") as f:
            f.write(t)
    r = V.tlc("Trace_Table.tla", cfg, pid, workers=1, timeout=600, env={"TRACE": path}, xmx="2g", dfs=True, sub="diag-" + tag)
    if r.invariant_violated:
        return r.invariant_violated[0], "property formula %s of Table.tla is violated" % r.invariant_violated[0]
    m = re.findall(r"Action property (\S+) is violated", r.out)
    if m:
        return m[0], "property formula %s of Table.tla is violated" % m[0]
    if r.finished and not r.postcondition_failed:
        return "gate", "accepted by the diagnosis run (rejected only with the property formulas as part of the step)"
    for relax, cls, what in (("res", "result", "the lookup result is not one the specification admits"),
                             ("claims", "claims", "the claims in the table are not the specification's"),
                             ("cache", "cache", "the cached next hops are not the specification's"),
                             ("lookup", "result", "the lookup result (and the decision cached from it) is not one the specification admits")):
        cfg = make_cfg(wd, "diag-%s-%s" % (tag, relax), TEMPLATE, ct, st, addrs, AdmitStale=admit_stale, Gate=False, Relax=relax, Lenient=True)
        v = V.tlc_trace("Trace_Table.tla", cfg, pid, path, len(run), sub="diag-%s-%s" % (tag, relax), xmx="2g")
        if v.accepted:
            return cls, what
    return "unexplained", "several observations of the event deviate from the specification"


class TraceReport:
    def __init__(self):
        self.events = 0
        self.validated_events = 0
        self.accepted = True
        self.lenient = 0          # traces that needed the lenient pass
        self.stale_events = 0     # announcements after which a claim that is no longer announced stayed (dump)
        self.violations = []      # (signature, description, replay)


def validate(pid, wd, path, focus, ct, st, tag):
    """Validation ladder for one trace file."""
    rep = TraceReport()
    events = V.read_ndjson(path)
    rep.events = len(events)
    addrs = trace_addrs(events)
    rep.stale_events = sum(1 for e in events if stale_claims(e))
    strict = focus == "C12"

    def passn(name, **consts):
        cfg = make_cfg(wd, "%s-%s" % (tag, name), TEMPLATE, ct, st, addrs, Gate=True, Relax="none", **consts)
        return V.tlc_trace("Trace_Table.tla", cfg, pid, path, len(events), sub="%s-%s" % (tag, name), xmx="4g")

    v = passn("p1", AdmitStale=not strict, Lenient=False)
    if v.accepted:
        rep.validated_events = len(events)
        return rep
    v = passn("p2", AdmitStale=not strict, Lenient=True)
    if v.accepted:
        rep.lenient = 1
        rep.validated_events = len(events)
        return rep
    rep.accepted = False
    seen = set()
    while True:
        m = v.matched
        if m >= len(events):
            raise V.ToolError("trace validation of %s rejected beyond the end of the trace" % path)
        bad = events[m]
        run = linearise(events, m)
        explained_by_stale = False
        v3 = None
        if strict and bad.get("op") == "announce" and stale_claims(bad):
            v3 = passn("p3", AdmitStale=True, Lenient=True)
            explained_by_stale = v3.accepted or v3.matched > m
        if explained_by_stale:
            st_cl = stale_claims(bad)
            sig = "table|announce|stale-claim-kept"
            desc = ("after peer %d announced %s the table still holds its claim(s) %s that it no longer announces "
                    "(C12: dropped claims disappear at once); with that admitted the trace is explained up to event %s"
                    % (bad["peer"], bad["list"], [[c[1], c[2]] for c in st_cl], "the end" if v3.accepted else v3.matched + 1))
        else:
            cls, what = diagnose(pid, wd, run, ct, st, addrs, not strict, "%s-%d" % (tag, len(rep.violations)))
            sig = "table|%s|%s" % (bad.get("op"), cls)
            desc = "real ClaimTable deviates from Table.tla at a %s call: %s; event %s" % (bad.get("op"), what, json.dumps(bad))
        if sig not in seen:
            seen.add(sig)
            rep.violations.append((sig, desc, {"driver": "table", "focus": focus, "ct": ct, "st": st, "trace_run": run}))
        rep.validated_events = max(rep.validated_events, m)
        if explained_by_stale and not v3.accepted and len(rep.violations) < 4:
            v = v3          # continue behind the announcement: the next rejection of the admitting pass
            continue
        if explained_by_stale and v3.accepted:
            rep.validated_events = len(events)
        return rep


# ------------------------------------------------------------------------------------------------ the table part

def run_table_part(pid, out, tier, focus, nrand=None):
    """Design run + replay of every exported transition + random sequences + trace validation for one focus.
    Violations are added to `out`; returns a coverage dict (states, transitions, traces, events, samples ...)."""
    assert focus in ("C11", "C12", "C13")
    quick = tier == "quick"
    wd = V.workdir(pid, "table-" + focus)
    V.build_harness()
    cfg, ct, st = DESIGN[(focus, tier)]
    d, edges, init = design(pid, cfg, workers=8 if quick else 12)
    if d.invariant_violated or d.property_violated:
        out.violation("design|" + ",".join(d.invariant_violated or ["action-property"]),
                      "Table.tla violates its own property formula (specification bug or design defect)", {"tlc": d.out[-3000:]})
    groups = 4 if quick else 8
    streams, nodes, replayable = tree_commands(edges, init, groups)
    jobs = []      # (tag, trace path, ct, st, harness summary)
    pool = cf.ThreadPoolExecutor(max_workers=6 if quick else 8)

    def tree_job(i, stream):
        cp = os.path.join(wd, "cmds-%d.ndjson" % i)
        tp = os.path.join(wd, "trace-tree-%d.ndjson" % i)
        V.write_ndjson(cp, stream)
        s = V.harness_json(["table", "tree", cp, tp, ct, st, "all" if i % 2 == 0 else str(i)])
        return ("tree-%d" % i, tp, ct, st, s)

    def random_job(i, pair, runs, length):
        tp = os.path.join(wd, "trace-random-%d.ndjson" % i)
        s = V.harness_json(["table", "random", runs, length, pair[0], pair[1], tp, RANDOM_PROFILE[focus]])
        return ("random-%d" % i, tp, pair[0], pair[1], s)

    futs = [pool.submit(tree_job, i, s) for i, s in enumerate(streams)]
    if nrand is None:
        nrand = 18 if quick else 150
    rlen = 300
    futs += [pool.submit(random_job, i, p, nrand, rlen) for i, p in enumerate(RANDOM_PAIRS)]
    t0 = time.time()
    jobs = [f.result() for f in futs]
    t1 = time.time()
    steps = sum(j[4]["steps"] for j in jobs)
    panics = sum(j[4].get("panics", 0) for j in jobs)
    V.log("[table/%s] %d transitions in %d streams (%d tree nodes), %d random runs of %d; %d calls on the real table, %d panics"
          % (focus, replayable, len(streams), nodes, nrand * len(RANDOM_PAIRS), rlen, steps, panics))
    vfuts = [pool.submit(validate, pid, wd, j[1], focus, j[2], j[3], j[0]) for j in jobs]
    reports = [f.result() for f in vfuts]
    pool.shutdown()
    V.log("[table/%s] drivers %.1fs, trace validation of %d events in %d files %.1fs"
          % (focus, t1 - t0, sum(r.events for r in reports), len(jobs), time.time() - t1))
    validated_runs = 0
    for j, r in zip(jobs, reports):
        if r.accepted:
            validated_runs += j[4]["runs"]
        for sig, desc, rep in r.violations:
            rep["trace_file"] = os.path.basename(j[1])
            out.violation(sig, desc, rep)
    sample_events = V.read_ndjson(jobs[0][1])[:8]
    cov = {
        "states": d.distinct, "transitions": d.generated, "depth": d.depth,
        "design_cfg": cfg, "exported_transitions": len(edges), "replayed_transitions": replayable, "tree_nodes": nodes,
        "traces_validated_against_impl": validated_runs,
        "trace_files": len(jobs),
        "events": sum(r.events for r in reports),
        "events_validated": sum(r.validated_events for r in reports),
        "evaluations": steps,
        "distinct_nontrivial": replayable,
        "random_runs": nrand * len(RANDOM_PAIRS), "random_len": rlen, "random_timeouts_ct_st": RANDOM_PAIRS,
        "lenient_passes": sum(r.lenient for r in reports),
        "stale_claim_events_in_dumps": sum(r.stale_events for r in reports),
        "panics": panics,
        "samples": [{"commands": streams[0][:10]}, {"trace_excerpt": sample_events}],
        "tree_trace": jobs[0][1], "tree_trace_events": reports[0].events, "tree_ct_st": [ct, st],
    }
    return cov


def selftest(out, pid, wd, focus, trace, ct, st, pick, mutate, what, tag):
    """Binding self-test on an accepted trace: corrupt one recorded field, TLC must reject at exactly that line."""
    if out.violations:
        return "skipped (violations found)"
    events = V.read_ndjson(trace)
    dst = os.path.join(wd, "selftest-%s.ndjson" % tag)
    hit = V.corrupt_trace(trace, dst, pick, mutate)
    if hit is None:
        V.selftest_fail(pid, "no event suitable for corruption '%s' in %s (vacuous trace?)" % (what, trace))
    # a few events behind the corrupted one are enough to tell "rejected there" from "accepted"
    with open(dst) as f:
        lines = f.readlines()[:hit + 10]
    with open(dst, "w") as f:
        f.writelines(lines)
    cfg = make_cfg(wd, "selftest-" + tag, TEMPLATE, ct, st, trace_addrs(events), AdmitStale=focus != "C12", Gate=True,
                   Relax="none", Lenient=True)
    v = V.tlc_trace("Trace_Table.tla", cfg, pid, dst, len(lines), sub="selftest-" + tag, xmx="2g")
    if v.accepted or v.matched != hit - 1:
        V.selftest_fail(pid, "corrupted trace (%s, line %d) was not rejected at that line (accepted=%s matched=%s)"
                        % (what, hit, v.accepted, v.matched))
    return "%s at trace line %d rejected by TLC" % (what, hit)


VARIANT_INDEX = {"ipv4/0": 0, "ipv4/14": 1, "ipv4/28": 2, "mac/21": 3, "vlanmac/12": 4, "ipv6/61": 5}


def replay(pid, rep):
    """bin/check <pid> --replay <file> for table-level findings: re-execute the recorded run (same labels, same address
    form, same timeouts) on the current tree and judge it again with the focus it was found with."""
    wd = V.workdir(pid, "replay")
    r = rep["replay"]
    run = r["trace_run"]
    cmds = [{"op": "reset"}] + [dict({k: v for k, v in e.items() if k not in ("claims", "cache", "ok", "res")}, d=0) for e in run[1:]]
    cp, tp = os.path.join(wd, "cmds.ndjson"), os.path.join(wd, "trace.ndjson")
    V.write_ndjson(cp, cmds)
    V.harness_json(["table", "tree", cp, tp, r["ct"], r["st"], VARIANT_INDEX.get(run[0].get("variant"), 0)])
    t = validate(pid, wd, tp, r.get("focus", pid), r["ct"], r["st"], "replay")
    for e in V.read_ndjson(tp)[-3:]:
        V.log(str(e))
    if t.accepted:
        print("OK property=%s replay no longer violates (%s)" % (pid, rep.get("signature")))
        return 0
    for sig, desc, _ in t.violations:
        V.log("  signature: %s\n  %s" % (sig, desc))
    print("VIOLATION property=%s replay=%s" % (pid, tp))
    return 1
