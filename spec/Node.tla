-------------------------------- MODULE Node --------------------------------
(***************************************************************************)
(* The dispatch layer of a node in front of the handshake objects: two     *)
(* nodes with one address each, per-address pending handshakes consulted   *)
(* before the peer table, throw-away responders for handshake datagrams on *)
(* established addresses, hand-over from pending to peers on success,      *)
(* removal and re-dial after failures, and an attacker who replays any     *)
(* datagram ever sent (from its original source address) or injects        *)
(* datagrams that do not verify.                                           *)
(*                                                                         *)
(* Code: src/cloud.rs GenericCloud::{connect_sock, handle_net_message,     *)
(*       handle_message, add_new_peer, crypto_housekeep,                   *)
(*       handle_socket_event}; objects: HsObj.tla.                         *)
(*                                                                         *)
(* Dispatch = "peerfirst": datagrams that are not handshake messages go to *)
(* the peer entry when one exists, and a failing pending handshake removes *)
(* only the pending entry (the repaired behaviour).  Dispatch = "pending": *)
(* the pending table captures every datagram of its address and a failing  *)
(* pending handshake also removes the peer (the behaviour of the pinned     *)
(* tree; kept as a named deviation so that TLC can show what it breaks).   *)
(***************************************************************************)
EXTENDS HsObj, TLC

CONSTANTS Dispatch,     \* "peerfirst" | "pending"
          MaxGen, MaxNet, MaxReplay, MaxData, MaxBad

Nodes == {"X", "Y"}
Peer(n) == IF n = "X" THEN "Y" ELSE "X"
Algos == <<<<1, 1>>>>

VARIABLES pend,       \* pend[n]: handshake object for the other node's address, or None
          peer,       \* peer[n]: None | [sess, init]  (init: lingering handshake object of the initiator, or None)
          net,        \* datagrams in flight
          wire,       \* everything ever sent (attacker knowledge)
          gen,        \* ECDH generations / ranks handed out
          replays, nData, nBad,
          lost,       \* a payload datagram sealed for the current session was not delivered
          healthy     \* the pair was mutually connected with one session at some point

vars == <<pend, peer, net, wire, gen, replays, nData, nBad, lost, healthy>>

Init == /\ pend = [n \in Nodes |-> None] /\ peer = [n \in Nodes |-> None]
        /\ net = {} /\ wire = {} /\ gen = 0 /\ replays = 0 /\ nData = 0 /\ nBad = 0 /\ lost = FALSE /\ healthy = FALSE

Fresh(n, rank) == NewObj(n, rank, "k", {"k"}, Algos, FALSE, n)
Dg(to, m) == [to |-> to, kind |-> "init", m |-> m]
Out(ms) == /\ net' = net \cup ms /\ wire' = wire \cup ms
OutSeq(to, s) == {Dg(to, s[i]) : i \in 1..Len(s)}

Healthy == /\ \A n \in Nodes : peer[n] # None /\ pend[n] = None
           /\ peer["X"].sess = peer["Y"].sess

\* connect_sock: only when the address is neither peer nor pending
Connect(n) ==
  /\ pend[n] = None /\ peer[n] = None
  /\ \E rk \in 1..2 :
       LET r == Initiate(Fresh(n, rk), gen + 1) IN
       /\ pend' = [pend EXCEPT ![n] = r.obj] /\ Out(OutSeq(Peer(n), r.out))
  /\ gen' = gen + 1
  /\ UNCHANGED <<peer, replays, nData, nBad, lost, healthy>>

\* install the result r of Handle at node n; viaPending: the object lives in pend[n], otherwise in peer[n].init
Install(n, r, viaPending) ==
  CASE r.res = "fatal" ->      \* handle_socket_event removes the pending entry on a fatal handshake error
         /\ pend' = [pend EXCEPT ![n] = None] /\ UNCHANGED peer /\ Out({})
    [] r.res = "succI" ->      \* add_new_peer: the object moves from pending to peers and lingers there
         /\ pend' = [pend EXCEPT ![n] = None]
         /\ peer' = [peer EXCEPT ![n] = [sess |-> r.obj.core.k, init |-> r.obj]]
         /\ Out(OutSeq(Peer(n), r.out))
    [] r.res = "succR" ->
         /\ pend' = [pend EXCEPT ![n] = None]
         /\ peer' = [peer EXCEPT ![n] = [sess |-> r.obj.core.k, init |-> None]]
         /\ Out(OutSeq(Peer(n), r.out))
    [] OTHER ->
         /\ (IF viaPending THEN pend' = [pend EXCEPT ![n] = r.obj] /\ UNCHANGED peer
             ELSE peer' = [peer EXCEPT ![n].init = r.obj] /\ UNCHANGED pend)
         /\ Out(OutSeq(Peer(n), r.out))

\* handle_net_message for a handshake datagram
RecvInit(n, d) ==
  /\ d \in net /\ d.to = n /\ d.kind = "init"
  /\ gen' = gen + 1
  /\ IF pend[n] # None
     THEN Install(n, Handle(pend[n], d.m, gen + 1), TRUE)
     ELSE IF peer[n] # None /\ peer[n].init # None
     THEN LET r == Handle(peer[n].init, d.m, gen + 1) IN      \* lingering initiator: repeats its peng
          /\ peer' = [peer EXCEPT ![n].init = r.obj] /\ UNCHANGED pend /\ Out(OutSeq(Peer(n), r.out))
     ELSE \E rk \in 1..2 :                                     \* throw-away responder, kept only if its first message verified
          LET r == Handle(Fresh(n, rk), d.m, gen + 1) IN
          IF r.res \in {"fatal", "err"} THEN UNCHANGED <<pend, peer, net, wire>>
          ELSE /\ pend' = [pend EXCEPT ![n] = r.obj] /\ UNCHANGED peer /\ Out(OutSeq(Peer(n), r.out))
  /\ UNCHANGED <<replays, nData, nBad, lost, healthy>>

\* payload sealed with the sender's current session
SendData(n) ==
  /\ Healthy /\ nData < MaxData
  /\ nData' = nData + 1
  /\ Out({[to |-> Peer(n), kind |-> "data", key |-> peer[n].sess, id |-> nData + 1]})
  /\ healthy' = TRUE
  /\ UNCHANGED <<pend, peer, gen, replays, nBad, lost>>

\* who gets a datagram that is not a handshake message
ToPeer(n) == IF Dispatch = "peerfirst" THEN peer[n] # None ELSE pend[n] = None /\ peer[n] # None
RecvData(n, d) ==
  /\ d \in net /\ d.to = n /\ d.kind = "data"
  /\ net' = net \ {d}
  /\ LET delivered == ToPeer(n) /\ peer[n].sess = d.key IN
       lost' = (lost \/ (~delivered /\ peer[n] # None /\ peer[n].sess = d.key) \/ (~delivered /\ peer[n] = None /\ healthy))
  /\ UNCHANGED <<pend, peer, wire, gen, replays, nData, nBad, healthy>>

\* crypto_housekeep: every_second on pending objects and on lingering objects of peers
Housekeep(n) ==
  LET NoTick == [obj |-> None, out |-> <<>>, res |-> "ok"]
      tp == IF pend[n] # None THEN TickObj(pend[n]) ELSE NoTick
      tl == IF peer[n] # None /\ peer[n].init # None THEN TickObj(peer[n].init) ELSE NoTick
      keep(t) == IF t.res = "gone" THEN None ELSE t.obj
      outs == OutSeq(Peer(n), tp.out) \cup OutSeq(Peer(n), tl.out) IN
  /\ IF tp.res = "fatal" \/ tl.res = "fatal"
     THEN IF Dispatch = "pending" \/ tl.res = "fatal"
          THEN \* the address is deleted from pending and peers; a removed peer is re-dialled
               \E rk \in 1..2 :
               IF peer[n] # None
               THEN LET ni == Initiate(Fresh(n, rk), gen + 1) IN
                    /\ peer' = [peer EXCEPT ![n] = None] /\ pend' = [pend EXCEPT ![n] = ni.obj]
                    /\ Out(outs \cup OutSeq(Peer(n), ni.out))
               ELSE /\ pend' = [pend EXCEPT ![n] = None] /\ UNCHANGED peer /\ Out(outs)
          ELSE \* repaired: a failed pending handshake removes only the pending entry
               /\ pend' = [pend EXCEPT ![n] = None]
               /\ peer' = IF peer[n] # None THEN [peer EXCEPT ![n].init = keep(tl)] ELSE peer
               /\ Out(outs)
     ELSE /\ pend' = [pend EXCEPT ![n] = IF pend[n] # None THEN tp.obj ELSE None]
          /\ peer' = IF peer[n] # None /\ peer[n].init # None THEN [peer EXCEPT ![n].init = keep(tl)] ELSE peer
          /\ Out(outs)
  /\ gen' = gen + 1
  /\ UNCHANGED <<replays, nData, nBad, lost, healthy>>

\* attacker: verbatim replay of anything ever sent, from its original source address
Replay(d) == /\ d \in wire /\ d \notin net /\ replays < MaxReplay /\ healthy
             /\ net' = net \cup {d} /\ replays' = replays + 1
             /\ UNCHANGED <<pend, peer, wire, gen, nData, nBad, lost, healthy>>

\* attacker: a datagram that does not verify (altered genuine datagram, junk, untrusted signer), any claimed source
InjectBad(n) ==
  /\ nBad < MaxBad /\ nBad' = nBad + 1
  /\ UNCHANGED <<pend, peer, net, wire, gen, replays, nData, lost, healthy>>    \* dropped, nothing changes, no reply

\* the network may lose handshake datagrams before the pair is healthy
DropInit(d) == /\ d \in net /\ d.kind = "init" /\ ~healthy /\ net' = net \ {d}
               /\ UNCHANGED <<pend, peer, wire, gen, replays, nData, nBad, lost, healthy>>

Next == \/ \E n \in Nodes : Connect(n) \/ Housekeep(n) \/ SendData(n) \/ InjectBad(n)
        \/ \E n \in Nodes : \E d \in net : RecvInit(n, d) \/ RecvData(n, d)
        \/ \E d \in wire : Replay(d)
        \/ \E d \in net : DropInit(d)
Spec == Init /\ [][Next]_vars

-----------------------------------------------------------------------------
\* C09: forged and replayed traffic never makes a healthy pair lose payload or its connection
NoLoss == ~lost
StaysConnected == healthy => \A n \in Nodes : peer[n] # None
SameSession == (healthy /\ \A n \in Nodes : peer[n] # None) => peer["X"].sess = peer["Y"].sess
\* C01 / C08 at node level: an unverifiable datagram is a stuttering step on node state
BadIsStutter == [][\A n \in Nodes : InjectBad(n) => UNCHANGED <<pend, peer, net, wire>>]_vars

Bound == gen <= MaxGen /\ Cardinality(net) <= MaxNet
=============================================================================
