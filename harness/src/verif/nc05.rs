//! C05 (node level): recovery under loss, duplication, reordering and delay.
//! `node c05 <tier> <trace>`: 2-3 mock nodes under a seeded adversarial network (drop / duplicate / delay up to 90 s)
//! for 100-300 s, then a reliable phase; one record per run.
use super::node::*;
use super::util::*;
use crate::payload::Frame;
use crate::types::Mode;
use rand::Rng;
use serde_json::{json, Value};

fn one(run: u64, stream: u64) -> Value {
    let mut rng = rng(stream);
    let mut sim: Sim<Frame> = Sim::new(stream);
    sim.trace_sample(run, 25, 80_000);
    let n = 2 + (run % 2) as usize;
    let cfg = base_config(Mode::Switch);
    for _ in 0..n {
        sim.add_node(false, &cfg);
    }
    let (p_drop, p_dup, p_delay) = (rng.gen_range(0.1..0.95), rng.gen_range(0.0..0.3), rng.gen_range(0.0..0.4));
    sim.faults = Faults::chaos(p_drop, p_dup, p_delay, 90);
    // who dials whom: either side or both
    let a1 = sim.nodes[1].addr;
    let a0 = sim.nodes[0].addr;
    match run % 3 {
        0 => {
            sim.connect(0, a1);
        }
        1 => {
            sim.connect(1, a0);
        }
        _ => {
            sim.connect(0, a1);
            sim.connect(1, a0);
        }
    }
    if n == 3 {
        let a2 = sim.nodes[2].addr;
        sim.connect(1, a2);
        sim.connect(2, a0);
    }
    sim.deliver_due();
    let chaos = rng.gen_range(100..300i64);
    for _ in 0..chaos {
        sim.tick();
    }
    sim.faults = Faults::none();
    // nothing delayed earlier is still in flight after 90 s
    for _ in 0..91 {
        sim.tick();
    }
    let reliable_from = sim.now;
    let mut t_ok = -1i64;
    let mut streak = 0;
    for _ in 0..900 {
        sim.tick();
        if sim.full_mesh() {
            streak += 1;
            if streak == 5 {
                t_ok = sim.now - 4 - reliable_from;
                break;
            }
        } else {
            streak = 0;
        }
    }
    // payload in both directions between every pair
    let mut sent = 0;
    let mark = sim.delivered.len();
    if t_ok >= 0 {
        for i in 0..n {
            for j in 0..n {
                if i != j {
                    sent += 1;
                    let mut p = vec![0u8; 16];
                    p[0] = i as u8;
                    p[1] = j as u8;
                    sim.iface(i, &eth_frame([0xff; 6], mac(10 + i as u8), None, &p));
                }
            }
        }
        sim.deliver_due();
    }
    // every broadcast frame reaches every other node: n*(n-1) frames x (n-1) receivers
    let got = sim.delivered.len() - mark;
    json!({"op":"c05run","run":run,"nodes":n,"chaos":chaos,"p_drop":(p_drop * 100.0) as i64,"p_dup":(p_dup * 100.0) as i64,"p_delay":(p_delay * 100.0) as i64,
           "reconnect_after":t_ok,"peer_timeout":300,"frames":sent,"expected_deliveries":sent * (n - 1),"deliveries":got,
           "panics":sim.total_panics(),"storm_ticks":sim.storm_ticks})
}

pub fn run(tier: &str, out_path: &str) -> Value {
    let runs: u64 = if tier == "quick" { 200 } else { 4000 };
    let ids: Vec<u64> = (0..runs).collect();
    let results = parallel_map(&ids, |_, k| one(*k, 15000 + *k + seed() * 100000));
    let mut t = Trace::create(out_path);
    for r in &results {
        t.ev(r.clone());
    }
    let events = t.finish();
    let cloud = write_cloud_blocks(&format!("{}.cloud", out_path));
    json!({"runs": runs, "steps": runs, "events": events, "cloud_events": cloud})
}
