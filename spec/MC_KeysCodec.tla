---------------------------- MODULE MC_KeysCodec ----------------------------
(* Design run of the text codec (Base62.tla): every byte string of length <= MaxLen (and, for length MaxLen + 1, the
   strings whose first byte is in First3) - one state per byte string. *)
EXTENDS Base62, TLC
CONSTANTS MaxLen, First3
VARIABLES b

Init == b = <<>>
Next == \E x \in 0..255 :
          /\ \/ Len(b) < MaxLen
             \/ Len(b) = MaxLen /\ b[1] \in First3
          /\ b' = Append(b, x)

RoundTrip == RoundTripFixed(b)
PlainLoses == PlainLosesLeadingZeros(b)
Meaning == AgreesWithMeaning(b)
Canonical == TextIsCanonical(b)
Denotes == TextDenotes(Enc(b), b) /\ BytesDenote(Dec(Enc(b)), b) /\ TextDenotes(<<"0">> \o Enc(b), b)
           /\ ~BytesDenote(<<1>> \o b, b) /\ ~TextDenotes(<<"1">> \o Enc(b), b)    \* another number is not admitted
\* the in-tree vectors
Vectors == /\ Enc(<<0>>) = <<>> /\ Enc(<<61>>) = <<"z">> /\ Enc(<<62>>) = <<"1", "0">> /\ Enc(<<1, 0>>) = <<"4", "8">>
           /\ Enc(<<84, 101, 115, 116>>) = <<"1", "X", "p", "7", "K", "e">>
           /\ Dec(<<"1", "X", "p", "7", "K", "e">>) = <<84, 101, 115, 116>>
=============================================================================
