---------------------------- MODULE MC_Rotation ----------------------------
(* TLC-only definitions for the exhaustive run of Rotation: bounds, view, labelled transitions for export. *)
EXTENDS Rotation, TLC, Json
CONSTANTS MaxId, MaxNet
VARIABLE act
mcvars == <<vars, act>>

Bound == /\ \A p \in Ends : msgId[p] <= MaxId /\ gen[p] <= MaxId + 2
         /\ Cardinality(net) <= MaxNet

\* sentSeq is history and act a label: neither is part of the state identity
View == <<msgId, proposed, pending, confirmed, tmo, slots, cur, gen, net>>

MCInit == Init /\ act = [op |-> "init"]
Emitted == IF Len(sentSeq') > Len(sentSeq) THEN <<sentSeq'[Len(sentSeq')]>> ELSE <<>>
MCNext == \/ \E p \in Ends : Cycle(p) /\ act' = [op |-> "cycle", p |-> p, emit |-> Emitted]
          \/ \E p \in Ends : \E m \in net : Recv(p, m) /\ act' = [op |-> "recv", p |-> p, m |-> m]
          \/ \E m \in net : Drop(m) /\ act' = [op |-> "drop", m |-> m]
MCSpec == MCInit /\ [][MCNext]_mcvars

Sid(a, b, c, d, e, f, g, h, i) == ToString(<<a, b, c, d, e, f, g, h, i>>)
Emit == PrintT(<<"EDGE", ToJson([s |-> Sid(msgId, proposed, pending, confirmed, tmo, slots, cur, gen, net),
                                  a |-> act',
                                  t |-> Sid(msgId', proposed', pending', confirmed', tmo', slots', cur', gen', net')])>>)
=============================================================================
