"""C11 - routing follows the most specific live claim.

Prefix matching (Prefix.tla): design run MC_Prefix - the arithmetic, bit-by-bit, interval and digit-wise statements of
"base/plen contains addr" agree on the complete 8-bit universe (all bases x prefix lengths 0..20 x all addresses) and on
a 16-bit base grid; the real Range::matches is run on the 8-bit universe embedded at every byte offset of
1/2/4/6/8/16-byte addresses, on 16-bit rows (all 65536 addresses per base/prefix), on random 4/6/8/16-byte addresses
with prefix lengths 0..255 and on length-mismatch cases; TLC validates every recorded answer (Trace_Prefix).

Table behaviour (Table.tla): design run MC_Table - all operation sequences to length 4 over {announce, re-announce,
withdraw, disconnect, learn, lookup, advance 0/1/ST/CT} on 3 peers x 6 nested/overlapping/tied ranges with the formulas
LookupIsLPM, CacheBounded (+ the C12/C13 formulas); every exported transition is executed on a real
ClaimTable<MockTimeSource> (every address form), plus seeded random sequences of length 300 with five timeout pairs;
TLC validates lookup results and table dumps after every call (Trace_Table, focus C11: see docs/C11.md)."""
import concurrent.futures as cf
import os

import vplib as V
from checks import cloudcommon
from checks import tablecommon as T

PID = "C11"


def prefix_part(out, tier, wd):
    quick = tier == "quick"
    tp = os.path.join(wd, "trace_prefix.ndjson")
    s = V.harness_json(["table", "prefix", tier, tp])
    V.log("[prefix] %d calls of Range::matches, %d events (%d rows), %d panics" % (s["steps"], s["events"], s["rows"], s["panics"]))
    # validate in chunks, in parallel (events are independent)
    evs_n = s["events"]
    chunk = 100000 if quick else 150000
    paths = []
    if evs_n <= chunk:
        paths.append((tp, evs_n, 0))
    else:
        with open(tp) as f:
            lines = f.readlines()
        for i in range(0, len(lines), chunk):
            cp = os.path.join(wd, "trace_prefix-%d.ndjson" % (i // chunk))
            with open(cp, "w") as g:
                g.writelines(lines[i:i + chunk])
            paths.append((cp, len(lines[i:i + chunk]), i))
    validated = 0
    with cf.ThreadPoolExecutor(max_workers=4) as pool:
        futs = [pool.submit(V.tlc_trace, "Trace_Prefix.tla", "Trace_Prefix.cfg", PID, p, n, sub="trace-prefix-%d" % k)
                for k, (p, n, _) in enumerate(paths)]
        for (p, n, off), f in zip(paths, futs):
            v = f.result()
            if v.accepted:
                validated += n
                continue
            validated += v.matched
            bad = V.read_ndjson(p)[v.matched]
            if bad.get("res") == "panic":
                cls = "panic"
            elif bad["op"] == "match":
                cls = ("length-mismatch" if len(bad["base"]) != len(bad["addr"]) else
                       "over-long" if bad["plen"] > 8 * len(bad["addr"]) else "len=%d" % len(bad["addr"])) + "|got=%s" % bad["got"]
            else:
                cls = "%s|plen=%d" % (bad.get("fam", "u16"), bad["plen"])
            out.violation("prefix|%s|%s" % (bad["op"], cls),
                          "Range::matches deviates from Prefix.tla: event %s (line %d of the prefix trace)" % (bad, off + v.matched + 1),
                          {"driver": "prefix", "event": bad})
    return s, tp, validated


def run(tier, out):
    wd = V.workdir(PID)
    quick = tier == "quick"
    V.build_harness()
    pool = cf.ThreadPoolExecutor(max_workers=4)
    # (A) design runs of Prefix (in the background; the table part keeps the other cores busy)
    fp8 = pool.submit(V.tlc_design, "MC_Prefix.tla", "MC_Prefix.cfg" if quick else "MC_Prefix_thorough.cfg", PID, workers=4 if quick else 8, timeout=1500, xmx="2g")
    fp16 = pool.submit(V.tlc_design, "MC_Prefix.tla", "MC_Prefix16.cfg" if quick else "MC_Prefix16_thorough.cfg", PID,
                       workers=4 if quick else 8, timeout=1500, xmx="2g")
    # (B) prefix matching on the real code, validated by TLC
    fpre = pool.submit(prefix_part, out, tier, wd)
    # thorough: the property formulas over all operation sequences to length 6 of the quick alphabet (no replay)
    fdeep = None if quick else pool.submit(V.tlc_design, "MC_Table.tla", "MC_Table_deep.cfg", PID, workers=8, timeout=2400, xmx="8g")
    # (C) table: design run, replay of every transition, random sequences, trace validation
    cov = T.run_table_part(PID, out, tier, "C11")
    # (E) node level: router-mode meshes of real nodes with nested / overlapping claims, replayed through Forward.tla
    #     (claimed destination -> the peer with the longest matching prefix, unknown -> dropped; switch/hub -> all peers)
    from checks import fwdcommon as F
    node_runs = []
    for mode, nodes, runs in ([("router", 3, 3), ("router", 4, 2)] if quick else [("router", 3, 25), ("router", 4, 15), ("hub", 3, 5)]):
        sn, okn, _ = F.random_run(PID, out, mode, nodes, runs)
        node_runs.append((mode, nodes, runs, sn["steps"]))
        cov["traces_validated_against_impl"] = cov.get("traces_validated_against_impl", 0) + okn
        cov["evaluations"] = cov.get("evaluations", 0) + sn["steps"]
    cov["node_level_runs"] = node_runs
    ps, ptrace, pvalidated = fpre.result()
    p8, p16 = fp8.result(), fp16.result()
    if fdeep is not None:
        dd = fdeep.result()
        if dd.invariant_violated or dd.property_violated:
            out.violation("design|deep|" + ",".join(dd.invariant_violated or ["action-property"]),
                          "Table.tla violates its own property formula (MC_Table_deep)", {"tlc": dd.out[-3000:]})
        cov["deep_design_run"] = {"cfg": "MC_Table_deep.cfg", "states": dd.distinct, "transitions": dd.generated, "depth": dd.depth}
        cov["states"] += dd.distinct
        cov["transitions"] += dd.generated
    pool.shutdown()
    for d, name in ((p8, "MC_Prefix"), (p16, "MC_Prefix16")):
        if d.invariant_violated:
            out.violation("design|prefix|" + ",".join(d.invariant_violated),
                          "the statements of prefix containment in Prefix.tla disagree (%s)" % name, {"tlc": d.out[-3000:]})
    # (D) binding self-tests
    st = []

    def prefix_selftest():
        if out.violations:
            return "skipped (violations found)"
        dst = os.path.join(wd, "selftest-prefix.ndjson")
        hit = V.corrupt_trace(ptrace, dst, lambda e: e["op"] == "match" and e["got"] is True and e["plen"] >= 8,
                              lambda e: e.__setitem__("got", False))
        if hit is None:
            V.selftest_fail(PID, "no matching single call in the prefix trace (vacuous trace?)")
        start = max(0, hit - 200)
        with open(dst) as f:
            lines = f.readlines()[start:hit + 10]      # the events are independent: a window is enough
        with open(dst, "w") as f:
            f.writelines(lines)
        at = hit - start
        v = V.tlc_trace("Trace_Prefix.tla", "Trace_Prefix.cfg", PID, dst, len(lines), sub="selftest-prefix", xmx="2g")
        if v.accepted or v.matched != at - 1:
            V.selftest_fail(PID, "corrupted prefix trace (line %d) was not rejected at that line (matched %s)" % (hit, v.matched))
        return "inverted match answer at prefix trace line %d rejected by TLC" % hit
    twd = V.workdir(PID, "table-C11")
    tree, (ct, sw) = cov["tree_trace"], cov["tree_ct_st"]

    def other_peer(e):
        e["res"] = (e["res"] + 1) % T.PEERS

    def other_hop(e):
        e["cache"][0][1] = (e["cache"][0][1] + 1) % T.PEERS

    # (a cached decision *missing* from a dump is admissible - C11 bounds cached decisions from above only - so the
    # cache corruption changes a next hop instead of removing an entry)
    with cf.ThreadPoolExecutor(max_workers=4) as sp:
        fpst = sp.submit(prefix_selftest)
        fs = [sp.submit(T.selftest, out, PID, twd, "C11", tree, ct, sw, pick, mut, what, tag) for pick, mut, what, tag in (
            (lambda e: e["op"] == "lookup" and e["res"] >= 0 and len(e["claims"]) >= 2, other_peer, "lookup result changed to another peer", "res"),
            (lambda e: e["op"] == "lookup" and len(e["cache"]) >= 1, other_hop, "cached next hop changed in a dump", "cache"),
            (lambda e: e["op"] == "advance" and len(e["claims"]) >= 1, lambda e: e["claims"].pop(), "claim removed from a dump", "claims"))]
        st.append(fpst.result())
        st += [f.result() for f in fs]
    cov.pop("tree_trace")
    prefix_cov = {
        "prefix_states_8bit": p8.distinct, "prefix_states_16bit": p16.distinct,
        "prefix_calls": ps["steps"], "prefix_events": ps["events"], "prefix_events_validated": pvalidated,
        "prefix_rows": ps["rows"], "prefix_panics": ps["panics"],
        "prefix_rule": "MC_Prefix: 256 bases x prefix lengths 0..20 x 256 addresses, four statements of containment + run form, "
                       "digit widths 2/4/8; MC_Prefix16: %d bases x 0..20 x 65536 addresses; driver: 8-bit universe as rows of 256 calls "
                       "(1-byte addresses complete; %d bases embedded at every byte offset of 2/4/6/8/16-byte addresses), %d 16-bit bases x 0..20 x "
                       "65536 addresses, %d single calls (random 4/6/8/16-byte x prefix 0..255, length mismatch)"
                       % (p16.distinct - 17 if p16.distinct > 17 else p16.distinct, ps["bases8_embedded"], ps["bases16"], ps["singles"]),
    }
    cov.update(prefix_cov)
    cov["states"] = cov["states"] + p8.distinct + p16.distinct
    cov["evaluations"] = cov["evaluations"] + ps["steps"]
    cov["distinct_nontrivial"] = cov["distinct_nontrivial"] + ps["events"]
    cov["rule"] = ("every transition of the exhaustive TLC graph of MC_Table (%s: all operation sequences to length 4) executed once on a real "
                   "ClaimTable (tree replay, 6 address forms); %d seeded random runs of length %d; every recorded Range::matches row/call; "
                   "distinct = exported transitions + prefix events" % (cov["design_cfg"], cov["random_runs"], cov["random_len"]))
    cov["self_test"] = "; ".join(st)
    cov["checker_cmd"] = "tlc MC_Prefix / MC_Table / Trace_Prefix / Trace_Table"
    cloudcommon.data_design(PID, tier, out, cov)
    cloudcommon.part(PID, tier, out, cov)
    return out.finish("model_checking", cov, assumptions=[
        "ticks are housekeeping rounds: every clock change is followed by ClaimTable::housekeep before the next call (DESIGN.md 5.3)",
        "the tick at exactly expiry is a don't-care; remaining lifetimes in dumps are not compared, expiry is judged by presence after the sweeps",
        "the mock clock starts at 10000 (the table withdraws entries by expiry 0)",
        "focus C11 admits claims that stay after their peer stopped announcing them (judged by C12) and routes over the claims that are live",
        "node level (dropped-payload counter, broadcast in switch/hub mode) is covered by the node checks"])


def replay(rep):
    """bin/check C11 --replay <file>: re-execute the recorded run on the current tree and judge it again."""
    if rep["replay"].get("driver") == "prefix":
        ev = rep["replay"]["event"]
        print("prefix family is deterministic: re-run bin/check C11; recorded event: %s" % ev)
        return 2
    return T.replay(PID, rep)
