\* quick tier: grid {0, 1, 9} (zero, a middle value, very large; ties from equal values) - 226 lists,
\* (226 * 2)^2 = 204 304 pairs
SPECIFICATION Spec
CONSTANTS Speeds = {0, 1, 9}
          Rule = "id"
INVARIANT SelectOK
INVARIANT FromSetsOnly
INVARIANT NoDowngrade
INVARIANT UnsealedOnlyIfBoth
INVARIANT ChoiceOrderFree
CHECK_DEADLOCK FALSE
