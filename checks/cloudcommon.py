"""Event-by-event validation of real nodes against Cloud.tla (shared by the node-level checks).

The harness records one event per driver call on real GenericCloud nodes (classified result and emissions from the
guarded event log of src/cloud.rs, state projection after the call); Trace_Cloud.tla computes for every call the
successor Cloud.tla prescribes and compares it with the observation aspect by aspect.  Rules are grouped by the
property they state; a check enforces the rules of its own property only (VP_ENF_<id>), so a deviation is reported
under the property it breaks.  A deviation is printed by TLC as <<"RULE", line, rule>>; the state of the trace
specification follows the observation, so the rest of the trace is still checked."""
import collections
import json
import os
import re

import vplib as V

PROPS = ["C01", "C02", "C05", "C08", "C09", "C10", "C11", "C12", "C13", "C14", "C15"]
FIRST_RUN = {"C11": 9000, "C13": 10000, "C02": 8000, "C01": 0, "C05": 1000, "C08": 2000, "C09": 3000, "C10": 4000, "C12": 5000, "C14": 6000, "C15": 7000}


def env_for(pid):
    return {"VP_ENF_" + p: ("1" if p == pid else "0") for p in PROPS}


def scenario_trace(pid, tier, path, runs=None):
    """seeded random scenarios of the cloud driver (own run numbers per property)"""
    quick = tier == "quick"
    n = runs if runs is not None else (30 if quick else 900)
    return V.harness_json(["node", "cloud", tier, path, FIRST_RUN[pid], n, pid], timeout=7200)


def _event(path, line):
    with open(path) as f:
        for i, l in enumerate(f, 1):
            if i == line:
                return json.loads(l)
    return None


def _context(path, line, node, back=4000, keep=12):
    """the last few events of the same node before `line` (for the replay file)"""
    ctx = collections.deque(maxlen=keep)
    with open(path) as f:
        for i, l in enumerate(f, 1):
            if i > line:
                break
            if i >= line - back:
                try:
                    e = json.loads(l)
                except Exception:
                    continue
                if e.get("n") == node or e.get("op") in ("time", "reset"):
                    if e.get("op") == "time" and ctx and ctx[-1].get("op") == "time":
                        ctx.pop()
                    ctx.append(e)
    return list(ctx)


def _chunks(path, wd, limit):
    """splits a trace at run boundaries (reset events) into files of at most `limit` events; returns [(file, first line)]"""
    n = V.count_lines(path)
    if n <= limit:
        return [(path, 1)]
    res, cur, cur_n, first, k = [], None, 0, 1, 0
    with open(path) as f:
        for i, l in enumerate(f, 1):
            if l.startswith('{"now"') and '"op":"reset"' in l and (cur is None or cur_n >= limit):
                if cur is not None:
                    cur.close()
                k += 1
                fn = os.path.join(wd, "cloud_chunk_%d.ndjson" % k)
                cur, cur_n, first = open(fn, "w"), 0, i
                res.append((fn, first))
            if cur is None:      # a trace that does not start with a reset event
                k += 1
                fn = os.path.join(wd, "cloud_chunk_%d.ndjson" % k)
                cur, cur_n, first = open(fn, "w"), 0, i
                res.append((fn, first))
            cur.write(l)
            cur_n += 1
    if cur is not None:
        cur.close()
    return res


def _validate_one(pid, path, timeout, sub):
    n = V.count_lines(path)
    v = V.tlc_trace("Trace_Cloud.tla", "Trace_Cloud.cfg", pid, path, n, timeout=timeout, extra_env=env_for(pid), sub=sub, xmx="6g")
    rules = re.findall(r'<<"RULE", (\d+), "([^"]+)">>', v.out)
    if not v.accepted and not rules:
        V.log(v.out[-3000:])
        raise V.ToolError("%s: Trace_Cloud could not follow %s (%s)" % (pid, path, v.reason))
    if not v.accepted:
        # the trace was not consumed to its end although rules never block: an event the specification has no case for
        V.log(v.out[-2000:])
        raise V.ToolError("%s: Trace_Cloud stopped at event %s of %s" % (pid, v.matched, path))
    return n, rules


def validate(pid, out, path, what, timeout=3000, sub="cloud", limit=250000):
    """TLC replays the event trace through Trace_Cloud with the rules of `pid` enforced (long traces in pieces cut at
    run boundaries, a few TLC processes side by side).  Every deviation becomes a violation `cloud|<rule>`.
    Returns (events, statistics)."""
    import concurrent.futures
    if V.count_lines(path) == 0:
        raise V.ToolError("%s: empty cloud trace %s" % (pid, path))
    wd = V.workdir(pid, sub + "-chunks")
    for f in os.listdir(wd):
        os.remove(os.path.join(wd, f))
    chunks = _chunks(path, wd, limit)
    with concurrent.futures.ThreadPoolExecutor(max_workers=4) as ex:
        futs = [ex.submit(_validate_one, pid, fn, timeout, "%s%d" % (sub, k)) for k, (fn, _) in enumerate(chunks)]
        results = [f.result() for f in futs]
    n = sum(r[0] for r in results)
    first = {}
    count = collections.Counter()
    for (fn, _), (_, rules) in zip(chunks, results):
        for ln, name in rules:
            count[name] += 1
            first.setdefault(name, (fn, int(ln)))
    for name, (fn, ln) in sorted(first.items(), key=lambda x: x[1][1]):
        e = _event(fn, ln) or {}
        desc = "%s: rule %s of Cloud.tla/Trace_Cloud.tla is broken by event %d (%s%s at node %s), %d occurrence(s)" % (
            what, name, ln, e.get("op"), "/" + e.get("res", "") if e.get("res") else "", e.get("n"), count[name])
        out.violation("cloud|" + name, desc, {"rule": name, "line": ln, "event": e, "before": _context(fn, ln - 1, e.get("n")),
                                               "how": "TLC: Trace_Cloud.tla with VP_ENF_%s=1 on the recorded trace" % pid})
    stats = collections.Counter()
    with open(path) as f:
        for l in f:
            m = re.search(r'"op":"(\w+)"', l)
            r = re.search(r'"res":"([\w-]+)"', l)
            stats[(m.group(1) if m else "?") + ("/" + r.group(1) if r and m and m.group(1) == "recv" else "")] += 1
    return n, dict(stats)


# one corruption per property: (pick, mutate, rule that must fire, description)
def _set(e, path, val):
    x = e
    for k in path[:-1]:
        x = x[k]
    x[path[-1]] = val


SELFTESTS = {
    "C11": (lambda e: e["op"] == "iface" and e["fk"] and len(e["sent"]) == 1,
            lambda e: e["sent"].append([e["sent"][0][0] + 1, "data"]), "iface-next-hops-and-cache", "a frame sent to a second next hop"),
    "C13": (lambda e: e["op"] == "recv" and e["res"] == "data" and e["fk"] and len(e["post"]["cache"]) > 0,
            lambda e: e["post"]["cache"].pop(), "recv-data-cache", "a learned address missing from the table"),
    "C02": (lambda e: e["op"] == "recv" and e["res"] == "data" and e["tag"] == "data" and e["orig"][0] > 0,
            lambda e: _set(e, ["orig"], [e["orig"][0], e["orig"][1] + 7]), "opened-only-if-sealed-for-this-connection",
            "a payload datagram sealed by another instance of the peer opened"),
    "C12": (lambda e: e["op"] == "recv" and e["res"] == "nodeinfo" and len(e["post"]["claims"]) > 0,
            lambda e: e["post"]["claims"].pop(), "recv-nodeinfo-claims", "a claim of the announcement missing from the table"),
    "C15": (lambda e: e["op"] == "hk" and len(e["post"]["peers"]) > 0,
            lambda e: _set(e, ["post", "np"], e["post"]["np"] + 1), "hk-next-announcement", "next announcement one second late"),
    "C14": (lambda e: e["op"] == "recv" and e["res"] == "nodeinfo",
            lambda e: e["post"]["own"].append(55), "recv-nodeinfo-own-addresses", "a foreign address adopted as own"),
    "C05": (lambda e: e["op"] == "recv" and e["res"] == "initialized-reply" and len(e["post"]["peers"]) > 0,
            lambda e: _set(e, ["post", "peers", 0, "pt"], 7), "recv-initialized-reply-peer-fields", "advertised timeout of the new peer altered"),
    "C01": (lambda e: e["op"] == "recv" and e["res"] == "err" and e["first"] == 255,
            lambda e: e["sent"].append([e["src"], "init"]), "recv-emissions", "a reply to a rejected handshake datagram"),
    "C08": (lambda e: e["op"] == "recv" and e["tag"] == "forged",
            lambda e: _set(e, ["res"], "panic"), "recv-no-panic", "a panic on a fabricated datagram"),
    "C09": (lambda e: e["op"] == "recv" and e["tag"] == "forged",
            lambda e: (_set(e, ["res"], "data"), _set(e, ["wrote"], 1)), "forged-rejected", "a fabricated datagram delivered"),
    "C10": (lambda e: e["op"] == "iface",
            lambda e: e["sent"].append([66, "data"]), "iface-emissions-to-peers-only", "payload sent to a non-peer"),
}


def selftest(pid, out, path):
    """binding self-test: one recorded field corrupted; TLC must report the rule at exactly that line"""
    if out.violations:
        return "skipped (violations found)"
    pick, mutate, rule, what = SELFTESTS[pid]
    dst = os.path.join(V.workdir(pid), "cloud_selftest.ndjson")
    # keep the self-test cheap: only the part of the trace up to the corrupted event (+ a little)
    hit = None
    with open(path) as f, open(dst, "w") as g:
        for i, line in enumerate(f, 1):
            if hit is None:
                e = json.loads(line)
                if e.get("op") in ("recv", "hk", "iface") and pick(e):
                    mutate(e)
                    hit = i
                    line = json.dumps(e, separators=(",", ":")) + "\n"
            g.write(line)
            if hit is not None and i > hit + 50:
                break
    if hit is None:
        V.selftest_fail(pid, "no event suitable for corruption in %s (vacuous trace?)" % path)
    n = V.count_lines(dst)
    v = V.tlc_trace("Trace_Cloud.tla", "Trace_Cloud.cfg", pid, dst, n, extra_env=env_for(pid), sub="cloudself", xmx="4g")
    rules = re.findall(r'<<"RULE", (\d+), "([^"]+)">>', v.out)
    if (str(hit), rule) not in rules:
        V.selftest_fail(pid, "corrupted cloud trace (%s at line %d) did not trigger rule %s there (got %s)" % (what, hit, rule, rules[:5]))
    return "%s at trace line %d reported by TLC as rule %s" % (what, hit, rule)


def part(pid, tier, out, cov, runs=None, extra=None):
    """The Cloud.tla part of a node-level check: scenario runs of the cloud driver (and `extra`: event traces of sampled
    runs of the check's own node-level plans, {label: file}), event-by-event validation with the rules of `pid`, binding
    self-test; the numbers go into the evidence coverage `cov`."""
    wd = V.workdir(pid)
    tp = os.path.join(wd, "cloud.ndjson")
    s = scenario_trace(pid, tier, tp, runs)
    n, stats = validate(pid, out, tp, "cloud scenarios (%d runs)" % s["runs"])
    own = {}
    for label, path in (extra or {}).items():
        if os.path.exists(path) and V.count_lines(path) > 0:
            m, st2 = validate(pid, out, path, "%s (sampled runs, event by event)" % label, sub="cloudx")
            own[label] = {"events_validated": m, "events_by_kind": st2}
    st = selftest(pid, out, tp)
    cov["cloud"] = {"module": "Cloud.tla / Trace_Cloud.tla", "runs": s["runs"], "events_validated": n, "events_by_kind": stats,
                    "own_plans_event_by_event": own, "rules_enforced": "rules tagged %s" % pid, "self_test": st}
    cov["traces_validated_against_impl"] = cov.get("traces_validated_against_impl", 0) + s["runs"]
    return n


# design level: MC_Cloud.tla closes Cloud.tla's functions with an environment; invariants grouped by property
DESIGN_INVARIANTS = {
    "C05": (["NodeInvariants", "RecoversBy"], []),
    "C12": (["NodeInvariants", "ClaimsAreLastAnnouncement"], []),
    "C14": (["NodeInvariants", "OwnNeverDialled", "FullMeshBy", "RecoversBy"], []),
    "C15": (["NodeInvariants", "SilentTimedOut"], ["HealthyNeverTimedOut"]),
}
DESIGN_CONFIGS = {   # name: (N, MaxTime, faulty node, fault kind, dial kind, thorough only)
    "3": (3, 8, 0, "silent", "connect", False),
    "3rc": (3, 8, 0, "silent", "reconnect", False),
    "3silent": (3, 12, 2, "silent", "reconnect", False),
    "3restart": (3, 12, 2, "restart", "reconnect", False),
    "3restart1": (3, 12, 1, "restart", "connect", False),
    "4silent": (4, 12, 3, "silent", "reconnect", True),
    "4restart": (4, 14, 1, "restart", "reconnect", True),
    "3lossy": (3, 17, 0, "lossy", "reconnect", False),
}


DATA_DESIGN = {   # property: [(name, data plane, N, MaxTime quick, MaxTime thorough, faulty node, fault kind)]
    "C11": [("router-silent", "router", 3, 3, 8, 2, "silent"), ("router-restart", "router", 3, 0, 8, 2, "restart")],
    "C13": [("switch-silent", "switch", 3, 3, 8, 2, "silent"), ("switch-restart", "switch", 3, 0, 8, 2, "restart")],
}


def data_design(pid, tier, out, cov):
    """MC_Cloud.tla with the data plane switched on: interface frames for every destination at every quiet moment,
    payload deliveries in any order, one node falling silent or restarting; invariants CacheOK / RouterDataOK; the
    refutable NothingCached shows decisions do get cached / learned."""
    wd = V.workdir(pid)
    runs = {}
    for name, dp, n, mtq, mtt, faulty, fk in DATA_DESIGN[pid]:
        mt = mtq if tier == "quick" else mtt
        if mt == 0:
            continue      # thorough tier only
        cfg = os.path.join(wd, "MC_Cloud_data_%s.cfg" % name)
        with open(cfg, "w") as f:
            f.write("SPECIFICATION Spec\nCONSTANTS DataPlane = \"%s\"\n N = %d\n MaxTime = %d\n Silent = %d\n FaultKind = \"%s\"\n DialKind = \"reconnect\"\n"
                    " MAX_RETRIES <- McRetries\n LINGER <- McLinger\n OWN_RESET <- McOwnReset\n"
                    "INVARIANT NodeInvariants\nINVARIANT CacheOK\nINVARIANT RouterDataOK\nCHECK_DEADLOCK FALSE\n" % (dp, n, mt, faulty, fk))
        d = V.tlc_design("MC_Cloud.tla", cfg, pid, workers=8, timeout=3000)
        runs["Cloud(%s, %d ticks)" % (name, mt)] = {"distinct": d.distinct, "generated": d.generated, "depth": d.depth}
        if d.invariant_violated:
            out.violation("design|cloud-data|%s|%s" % (name, d.invariant_violated[0]), "MC_Cloud.tla (%s) violates %s" % (name, d.invariant_violated[0]), {"tlc": d.out[-3000:]})
    dp = DATA_DESIGN[pid][0][1]
    sanity = V.tlc_design("MC_Cloud.tla", "MC_Cloud_%s_sanity.cfg" % dp, pid, workers=4, timeout=600, expect_ok=False)
    if "NothingCached" not in sanity.invariant_violated:
        raise V.ToolError("%s: MC_Cloud data-plane sanity invariant NothingCached was not refuted (vacuous model?)" % pid)
    cov["cloud_data_design"] = {"module": "MC_Cloud.tla (DataPlane = %s)" % dp, "invariants": ["NodeInvariants", "CacheOK", "RouterDataOK"], "runs": runs,
                                "sanity": "NothingCached refuted"}
    cov["states"] = cov.get("states", 0) + sum(r["distinct"] for r in runs.values())
    cov["transitions"] = cov.get("transitions", 0) + sum(r["generated"] for r in runs.values())


def design(pid, tier, out, cov):
    """TLC explores MC_Cloud.tla (every delivery order of the datagrams of a tick, optional silence / crash-restart of
    one node) with the invariants of `pid`; the refutable sanity invariant shows the model is not vacuous."""
    wd = V.workdir(pid)
    invs, props = DESIGN_INVARIANTS[pid]
    runs = {}
    for name, (n, mt, faulty, fk, dk, thorough_only) in DESIGN_CONFIGS.items():
        if thorough_only and tier == "quick":
            continue
        cfg = os.path.join(wd, "MC_Cloud_%s_%s.cfg" % (name, pid))
        with open(cfg, "w") as f:
            f.write("SPECIFICATION Spec\nCONSTANTS DataPlane = \"off\"\n N = %d\n MaxTime = %d\n Silent = %d\n FaultKind = \"%s\"\n DialKind = \"%s\"\n"
                    " MAX_RETRIES <- McRetries\n LINGER <- McLinger\n OWN_RESET <- McOwnReset\n" % (n, mt, faulty, fk, dk))
            for i in invs:
                f.write("INVARIANT %s\n" % i)
            for p in props:
                f.write("PROPERTY %s\n" % p)
            f.write("CHECK_DEADLOCK FALSE\n")
        d = V.tlc_design("MC_Cloud.tla", cfg, pid, workers=8, timeout=3000)
        runs["Cloud(%s)" % name] = {"distinct": d.distinct, "generated": d.generated, "depth": d.depth}
        if d.invariant_violated or d.property_violated:
            what = d.invariant_violated[0] if d.invariant_violated else "HealthyNeverTimedOut"
            out.violation("design|cloud|%s|%s" % (name, what), "MC_Cloud.tla (%s) violates %s" % (name, what), {"tlc": d.out[-3000:]})
    sanity = V.tlc_design("MC_Cloud.tla", "MC_Cloud_sanity.cfg", pid, workers=4, timeout=600, expect_ok=False)
    if "NeverMeshed" not in sanity.invariant_violated:
        raise V.ToolError("%s: MC_Cloud sanity invariant NeverMeshed was not refuted (vacuous model?)" % pid)
    cov["cloud_design"] = {"module": "MC_Cloud.tla", "invariants": invs + props, "runs": runs, "sanity": "NeverMeshed refuted (a full mesh is reached)"}
    cov["states"] = cov.get("states", 0) + sum(r["distinct"] for r in runs.values())
    cov["transitions"] = cov.get("transitions", 0) + sum(r["generated"] for r in runs.values())
