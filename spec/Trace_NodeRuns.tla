---------------------------- MODULE Trace_NodeRuns ----------------------------
(* Judgement of recorded runs of real mock-backed nodes (GenericCloud with MockSocket/MockDevice/MockTimeSource under
   the harness's network).  Each record summarises one run of a systematic plan; the formulas below are the node-level
   properties (Node.tla: NoLoss, StaysConnected, BadIsStutter; conservation; deadlines) instantiated for the record. *)
EXTENDS Integers, Sequences, FiniteSets, TLC, Json, IOUtils

Rec == ndJsonDeserialize(IOEnv.TRACE)
N == Len(Rec)
VARIABLE l

\* C09 (Node.tla NoLoss / StaysConnected on real nodes): after the injection of a replayed or forged datagram every probe
\* frame of the following 400 s is delivered exactly once to its destination, both ends stay connected, the learned
\* routes stay, nothing panics.  The only admissible extra delivery is the in-window duplicate bounded by C03: a
\* verbatim sealed datagram from its original source, re-injected at most two housekeeping ticks after it was sent.
C09RunOK(e) ==
  /\ e.healthy0 /\ e.final_mesh
  /\ e.panics = 0
  /\ e.missing = 0 /\ e.wrong = 0
  /\ e.lost_conn_ticks = 0 /\ e.route_loss = 0
  /\ e.delivered = e.sent
  /\ e.extra <= (IF e.edit = 0 /\ e.kind = "sealed" /\ e.src = 0 /\ e.age + e.offset <= 2 THEN 1 ELSE 0)

\* C08 / C01 (Node.tla BadIsStutter on real nodes): a whole family of datagrams that cannot verify was presented to a node
\* in a given receiver state: no member may panic the node, cause a reply, reach the interface or change the peer /
\* pending sets; afterwards the genuine datagram still advances the handshake.  In an unencrypted session ("plain" on
\* both ends, C02's exception) datagrams from the peer's own address are not authenticated at all: only "no panic".
\* bad_tail counts members that were accepted because the bytes lying behind the datagram in the reused receive buffer
\* complete it to the genuine datagram; to the code this is the genuine (verifying) datagram, so it is judged by C01
\* ("truncation ... is rejected") and not by C08 ("a datagram that fails verification leaves no state behind").
NodeFamOK(e) ==
  /\ e.members > 0
  /\ e.panics = 0
  /\ (e.state = "estab-plain" /\ e.src = "peer") \/ (e.bad_other = 0 /\ (e.prop = "c01" => e.bad_tail = 0))
  /\ e.then_completes # "no"

\* C01: after a reliable exchange in which everybody dials everybody, two nodes are peers exactly when each trusts the
\* other's key (trust[a][b]: node a trusts the key of node b; an empty configured set means "own key only")
TrustRunOK(e) ==
  /\ e.panics = 0
  /\ \A a \in 1..e.n : \A b \in 1..e.n : a # b => (e.conn[a][b] <=> (e.trust[a][b] /\ e.trust[b][a]))

Step(e) ==
  CASE e.op = "c09run"  -> C09RunOK(e)
    [] e.op = "c09skip" -> TRUE
    [] e.op = "nodefam" -> NodeFamOK(e)
    [] e.op = "trustrun" -> TrustRunOK(e)
    [] OTHER -> FALSE

Init == l = 1
Next == l <= N /\ l' = l + 1 /\ Step(Rec[l])
Spec == Init /\ [][Next]_l
Accepted == IF TLCGet("stats").diameter - 1 = N THEN TRUE
            ELSE Print(<<"REJECTED", TLCGet("stats").diameter, Rec[TLCGet("stats").diameter]>>, FALSE)
=============================================================================
