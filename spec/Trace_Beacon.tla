---------------------------- MODULE Trace_Beacon ----------------------------
(* Trace validation for C17.  Every event recorded from the real BeaconSerializer is judged with the operators of
   Beacon.tla (the events are independent: no state is carried).  An event the specification cannot explain is
   printed as <<"BAD", line>> and counted in `bad`, and the run goes on, so that one run reports every failing input
   class; Accepted prints the first such line as REJECTED. *)
EXTENDS Beacon, TLC, Json, IOUtils

Rec == ndJsonDeserialize(IOEnv.TRACE)
N == Len(Rec)
VARIABLES l, bad
tvars == <<l, bad>>


Judge(e) ==
  CASE e.op = "roundtrip" ->     \* encode and decode at the same hour, any limit: recovered exactly
         /\ e.res = "ok"
         /\ Len(e.addrs) = e.v4 + e.v6 /\ e.plain_len = PlainLen(e.v4, e.v6)
         /\ AgeAccepted(e.hour, e.hour, e.ttl)
         /\ BagEq(e.addrs, e.got)
    [] e.op = "age" ->           \* a beacon that decodes without limit is accepted iff its age is within the limit
         /\ e.res = "ok"
         /\ e.rt => e.got_n = (IF AgeAccepted(e.now, e.then, e.ttl) THEN e.n ELSE 0)
    [] e.op = "embed" ->
         /\ e.res = "ok"
         /\ \A i \in 1..Len(e.tokens) : e.tokens[i].k \in TokenKinds
         /\ Admissible(e.tokens, e.got)
    [] e.op = "wrongpw" -> e.res = "ok" /\ e.got = <<>>
    [] e.op = "text" -> e.res = "ok"       \* arbitrary text: no panic
    [] e.op = "textfam" -> e.members > 0 /\ e.panics = 0      \* a whole family of texts (very short bodies between valid markers): no panic
    [] e.op = "skip" -> TRUE
    [] OTHER -> FALSE

TraceInit == l = 1 /\ bad = 0 /\ TLCSet(1, 0) /\ TLCSet(2, 0)
TraceNext == /\ l <= N /\ l' = l + 1
             /\ IF Judge(Rec[l]) THEN bad' = bad
                ELSE /\ bad' = bad + 1 /\ PrintT(<<"BAD", l>>)
                     /\ TLCSet(1, bad') /\ (IF bad = 0 THEN TLCSet(2, l) ELSE TRUE)
TraceSpec == TraceInit /\ [][TraceNext]_tvars

Accepted == IF TLCGet(1) = 0 /\ TLCGet("stats").diameter - 1 = N THEN TRUE
            ELSE LET first == IF TLCGet(1) = 0 THEN TLCGet("stats").diameter ELSE TLCGet(2)
                 IN Print(<<"REJECTED", first, Rec[first], "BADCOUNT", TLCGet(1)>>, FALSE)
=============================================================================
