#![no_main]
#![allow(warnings)]
include!("/repo/src/main.rs");
mod verif;
