SPECIFICATION Spec
CONSTANTS FamCounts = {0, 1, 7, 8, 9}
          FamCounts2 = {8}
          OwnCounts = {0, 8}
          PeerNums = {0, 1, 2}
          ClaimNums = {0, 1, 2}
          MaxSeqNI = 4
          MaxSeqIM = 4
          MaxSeqRot = 6
          MaxKey = 3
INVARIANT CaseOK
CHECK_DEADLOCK FALSE
