SPECIFICATION MCSpec
CONSTANTS MaxAdv = 3000
INVARIANT DesignOK
CHECK_DEADLOCK FALSE
