------------------------------ MODULE HsConfig ------------------------------
(* Endpoint attributes shared by the design runs (MC_Handshake) and the trace specification: who has the larger
   salted node-id hash, and which cipher lists the two ends advertise. *)
EXTENDS Naturals, Sequences
CfgObjs == {"A", "B"}
\* advertised lists <<cipher wire id, speed>> in configuration order.
\* "tie": two ciphers with equal minimal speed, listed in different order at the two ends (the case C06 is about)
ListOf(o, algoMode) ==
  IF algoMode = "tie" THEN (IF o = "A" THEN <<<<1, 2>>, <<2, 2>>, <<3, 1>>>> ELSE <<<<2, 2>>, <<1, 2>>>>)
  ELSE (IF o = "A" THEN <<<<1, 3>>, <<3, 1>>>> ELSE <<<<3, 2>>, <<1, 2>>, <<2, 5>>>>)
AttrFor(rankHigh, algoMode) ==
  [o \in CfgObjs |->
     [node |-> o, rank |-> IF o = rankHigh THEN 2 ELSE 1, key |-> IF o = "A" THEN "kA" ELSE "kB",
      algos |-> ListOf(o, algoMode), plain |-> algoMode = "plain", payload |-> <<"info", o>>]]
=============================================================================
