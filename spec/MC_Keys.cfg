SPECIFICATION Spec
CONSTANTS KeyWidth = 32
          MaxZeros = 4
          Roles = {"priv", "privpub", "trusted", "sharedown"}
          Padded = TRUE
          Nodes = {1, 2}
          Passwords = {"p1", "p2", "p3"}
          KeyOf <- MCKeyOf
INVARIANT TypeOK
INVARIANT ConfigureSucceeds
INVARIANT Usable
INVARIANT PrintedDenotes
INVARIANT PasswordTrust
INVARIANT PasswordDeterministic
CHECK_DEADLOCK FALSE
