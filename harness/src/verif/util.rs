//! Small helpers shared by the harness drivers.
use rand::{rngs::StdRng, SeedableRng};
use serde_json::Value;
use std::io::{BufRead, BufWriter, Write};

pub struct Trace {
    w: BufWriter<std::fs::File>,
    pub events: usize,
}

impl Trace {
    pub fn create(path: &str) -> Self {
        Trace { w: BufWriter::with_capacity(1 << 20, std::fs::File::create(path).expect("create trace")), events: 0 }
    }
    pub fn ev(&mut self, v: Value) {
        serde_json::to_writer(&mut self.w, &v).unwrap();
        self.w.write_all(b"\n").unwrap();
        self.events += 1;
    }
    pub fn finish(mut self) -> usize {
        self.w.flush().unwrap();
        self.events
    }
}

pub fn read_ndjson(path: &str) -> Vec<Value> {
    let f = std::io::BufReader::new(std::fs::File::open(path).expect("open ndjson"));
    f.lines().map(|l| l.unwrap()).filter(|l| !l.trim().is_empty()).map(|l| serde_json::from_str(&l).expect("json line")).collect()
}

pub fn seed() -> u64 {
    std::env::var("VERIF_SEED").ok().and_then(|s| s.parse::<i64>().ok()).map(|v| v as u64).unwrap_or(1)
}

pub fn rng(stream: u64) -> StdRng {
    StdRng::seed_from_u64(seed().wrapping_mul(0x9E3779B97F4A7C15).wrapping_add(stream))
}

pub fn hex(b: &[u8]) -> String {
    let mut s = String::with_capacity(b.len() * 2);
    for x in b {
        s.push_str(&format!("{:02x}", x));
    }
    s
}

pub fn unhex(s: &str) -> Vec<u8> {
    (0..s.len() / 2).map(|i| u8::from_str_radix(&s[2 * i..2 * i + 2], 16).unwrap()).collect()
}

/// Runs `f`, turning a panic into `Err(message)`; panics of the code under test are data.
pub fn guarded<T>(f: impl FnOnce() -> T) -> Result<T, String> {
    match std::panic::catch_unwind(std::panic::AssertUnwindSafe(f)) {
        Ok(v) => Ok(v),
        Err(e) => Err(if let Some(s) = e.downcast_ref::<&str>() {
            s.to_string()
        } else if let Some(s) = e.downcast_ref::<String>() {
            s.clone()
        } else {
            "panic".to_string()
        }),
    }
}

pub const ALGOS: [&'static ring::aead::Algorithm; 3] =
    [&ring::aead::AES_128_GCM, &ring::aead::AES_256_GCM, &ring::aead::CHACHA20_POLY1305];
pub const ALGO_NAMES: [&str; 3] = ["AES128", "AES256", "CHACHA20"];

pub fn new_key(algo: &'static ring::aead::Algorithm, material: &[u8]) -> ring::aead::LessSafeKey {
    ring::aead::LessSafeKey::new(ring::aead::UnboundKey::new(algo, &material[..algo.key_len()]).unwrap())
}

/// Runs `f(index, item)` for every item on up to 14 threads (the mock clock, NAT flag and speed override of the code
/// under test are thread-local, so independent scenarios can run side by side); results keep the order of `items`.
pub fn parallel_map<T: Sync, R: Send>(items: &[T], f: impl Fn(usize, &T) -> R + Sync) -> Vec<R> {
    let threads = std::thread::available_parallelism().map(|n| n.get()).unwrap_or(4).min(14).max(1);
    let next = std::sync::atomic::AtomicUsize::new(0);
    let results: std::sync::Mutex<Vec<(usize, R)>> = std::sync::Mutex::new(Vec::with_capacity(items.len()));
    std::thread::scope(|s| {
        for _ in 0..threads {
            s.spawn(|| loop {
                let i = next.fetch_add(1, std::sync::atomic::Ordering::SeqCst);
                if i >= items.len() {
                    break;
                }
                let r = f(i, &items[i]);
                results.lock().unwrap().push((i, r));
            });
        }
    });
    let mut v = results.into_inner().unwrap();
    v.sort_by_key(|x| x.0);
    v.into_iter().map(|x| x.1).collect()
}
