SPECIFICATION Spec
CONSTANTS Slots = {0, 1}
          MaxDatagrams = 4
          MaxTicks = 4
          MaxRot = 1
          MaxDepth = 9
INVARIANT WindowOK
INVARIANT NewestAccepted
INVARIANT TypeOK
PROPERTY ClosedStaysClosed
PROPERTY SealIncreases
CONSTRAINT Bound
VIEW View
ACTION_CONSTRAINT Emit
CHECK_DEADLOCK FALSE
