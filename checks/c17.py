"""C17 - beacons round-trip, are found inside arbitrary text, respect age and password.

Design level (TLC): Beacon.tla - the age window over all 65 536 stamps x the boundary limits (MC_BeaconAge), the
extraction rule over every token sequence up to length 5 (MC_Beacon) and a refuted variant rule (MC_BeaconGreedy,
expected counterexample = the specification has teeth).
Impl -> spec: three drivers run the real BeaconSerializer on the quantifier's families (round trip at every hour
stamp / 200 passwords x 45 list shapes, age boundaries and a full clock sweep, token sequences instantiated as text,
other passwords, arbitrary text) and TLC judges every recorded event with the operators of Beacon.tla
(Trace_Beacon).  Events the specification cannot explain are classified into signatures by input class."""
import concurrent.futures as cf
import json
import os
import re
import threading
import vplib as V

PID = "C17"
M = 65536
# several TLC instances run side by side: keep each JVM's collector from spawning one thread per core
JVM = {"JAVA_TOOL_OPTIONS": "-XX:ParallelGCThreads=2"}


# ------------------------------------------------------------------ helpers shared with c18

def bad_lines(verdict):
    """1-based line numbers TLC could not explain (Trace_* specifications print them as <<"BAD", line>>)."""
    if verdict.accepted:
        return []
    lines = [int(x) for x in re.findall(r'^<<"BAD", (\d+)>>', verdict.out, re.M)]
    m = re.search(r'"BADCOUNT",\s*(\d+)', verdict.out)
    if m and int(m.group(1)) != len(lines):
        raise V.ToolError("trace validation: %s unexplained events counted, %d listed" % (m.group(1), len(lines)))
    if verdict.states != verdict.n + 1:
        # an event that no action of the specification can take at all (wrong life-cycle stage, unknown event kind
        # shape): driver and specification disagree about the protocol - not a verdict about the code
        raise V.ToolError("trace validation stuck at line %d of %d" % (verdict.states, verdict.n))
    return lines


_tlc_slots = threading.BoundedSemaphore(5)      # concurrent TLC processes of one check


def limited(fn):
    def g(*a, **kw):
        with _tlc_slots:
            return fn(*a, **kw)
    return g


def validate_chunked(module, cfg, pid, path, name, chunk=50000, boundary=None):
    """Trace validation of a long trace in pieces of about `chunk` events (TLC keeps the whole trace in memory and
    walks it with one worker); a piece ends only after an event for which `boundary` holds (events that leave the
    specification in its initial stage).  Returns (sorted 1-based bad line numbers, number of events)."""
    wd = V.workdir(pid)
    pieces = []          # (first line, path, count)
    out, cnt, first, total = None, 0, 1, 0
    with open(path) as f:
        for i, line in enumerate(f, 1):
            if out is None:
                pp = os.path.join(wd, "piece_%s_%d.ndjson" % (name, len(pieces)))
                out, cnt, first = open(pp, "w"), 0, i
            out.write(line)
            cnt += 1
            total = i
            if cnt >= chunk and (boundary is None or boundary(line)):
                out.close()
                pieces.append((first, pp, cnt))
                out = None
        if out is not None:
            out.close()
            pieces.append((first, pp, cnt))

    def one(k):
        first, pp, cnt = pieces[k]
        v = limited(V.tlc_trace)(module, cfg, pid, pp, cnt, sub="trace-%s-%d" % (name, k), xmx="5g", extra_env=JVM)
        return [first - 1 + b for b in bad_lines(v)]
    bad = []
    if pieces:
        with cf.ThreadPoolExecutor(max_workers=len(pieces)) as ex:
            for r in ex.map(one, range(len(pieces))):
                bad.extend(r)
    for _, pp, _ in pieces:
        os.remove(pp)
    return sorted(bad), total


def pick_lines(path, wanted):
    wanted = set(wanted)
    res = {}
    with open(path) as f:
        for i, line in enumerate(f, 1):
            if i in wanted:
                res[i] = json.loads(line)
    return res


def parallel(jobs):
    """jobs: dict name -> callable; runs them in threads (they spawn processes), re-raises the first failure."""
    with cf.ThreadPoolExecutor(max_workers=len(jobs)) as ex:
        futs = {k: ex.submit(fn) for k, fn in jobs.items()}
        return {k: f.result() for k, f in futs.items()}


def selftest(pid, module, cfg, sources, skip, corruptions, wd, per_source=400, allow_vacuous=False):
    """Binding self-test.  Builds a small trace from events the main run accepted, corrupts one logged result per
    entry of `corruptions` [(name, pick, mutate)], and demands that TLC flags exactly the corrupted lines."""
    evs = []
    for name, path in sources:
        n = 0
        with open(path) as f:
            for i, line in enumerate(f, 1):
                if i in skip.get(name, ()):
                    continue
                evs.append(json.loads(line))
                n += 1
                if n >= per_source:
                    break
    hit = []
    done = []
    for cname, pick, mutate in corruptions:
        for i, e in enumerate(evs, 1):
            if i not in hit and pick(e):
                mutate(e)
                hit.append(i)
                done.append(cname)
                break
        else:
            # with violations already found (e.g. every round trip fails) there may be no accepted event of a kind left
            if not allow_vacuous:
                V.selftest_fail(pid, "no event to corrupt for '%s' (vacuous)" % cname)
    if not hit:
        return "not possible in this run: no accepted event left to corrupt (violations are reported)"
    st = os.path.join(wd, "trace_selftest.ndjson")
    V.write_ndjson(st, evs)
    v = V.tlc_trace(module, cfg, pid, st, len(evs), sub="trace-selftest", extra_env=JVM)
    got = sorted(bad_lines(v))
    if got != sorted(hit):
        V.selftest_fail(pid, "corrupted lines %s, TLC flagged %s" % (sorted(hit), got[:20]))
    return "one logged result corrupted in each of %d event kinds (%s); TLC flagged exactly lines %s of %d" % (
        len(hit), ", ".join(done), sorted(hit), len(evs))


class Findings:
    """signature -> [count, first events]"""

    def __init__(self):
        self.by_sig = {}

    def add(self, sig, what, ev):
        s = self.by_sig.setdefault(sig, {"n": 0, "what": what, "events": []})
        s["n"] += 1
        if len(s["events"]) < 3:
            s["events"].append(ev)

    def report(self, out):
        for sig, s in sorted(self.by_sig.items()):
            out.violation(sig, "%s (%d event(s) in this run); first: %s" % (s["what"], s["n"], json.dumps(s["events"][0])[:1500]),
                          {"events": s["events"], "count": s["n"]})


# ------------------------------------------------------------------ classification of unexplained events (no judgement)

def dist(a, b):
    d = (a - b) % M
    return min(d, M - d)


def classify(e):
    op = e.get("op")
    if op == "roundtrip":
        if e["res"] != "ok":
            return "beacon|roundtrip|" + e["res"], "encode/decode at the same hour panicked"
        if 0 <= e["body_bytes"] < e["plain_len"]:
            return "beacon|roundtrip|leading-zero-body", ("beacon not recovered by its own password at the same hour: the text body "
                                                          "decodes to fewer bytes than the plain body (leading zero byte lost)")
        if not e["got"]:
            return "beacon|roundtrip|lost", "beacon not recovered by its own password at the same hour"
        return "beacon|roundtrip|wrong-addresses", "beacon decodes to other addresses than it was made for"
    if op == "age":
        if e["res"] != "ok":
            return "beacon|age|" + e["res"], "decoding panicked"
        d, ttl = dist(e["now"], e["then"]), e["ttl"]
        where = "at-limit" if d == ttl else "one-beyond-limit" if d == ttl + 1 else "within-limit" if d < ttl else "beyond-limit"
        if e["got_n"] == 0:
            return "beacon|age|ignored|" + where, "beacon ignored although its age is within the accepted range"
        if e["got_n"] == e["n"]:
            return "beacon|age|accepted|" + where, "beacon accepted although its age exceeds the accepted range"
        return "beacon|age|wrong-count", "number of decoded addresses differs"
    if op == "embed":
        kinds = [t["k"] for t in e["tokens"]]
        if e["res"] != "ok":
            cls = "overlapping-markers" if "ovbe" in kinds else "+".join(sorted(set(kinds)))
            return "beacon|extract|%s|%s" % (cls, e["res"]), "beacon extraction panicked: %s" % e.get("why")
        must = [a for t in e["tokens"] if t["k"] == "beacon" for a in t["a"]]
        got = list(e["got"])
        missing = []
        for a in must:
            if a in got:
                got.remove(a)
            else:
                missing.append(a)
        ctx = set(kinds) - {"beacon"}
        if missing:
            cls = "plain" if ctx <= {"junk", "sep"} else "with-markers" if ctx & {"begin", "end", "ovbe", "oveb", "pbegin", "pend"} else "mixed"
            return "beacon|extract|beacon-lost|" + cls, "a cleanly embedded beacon of the right password was not recovered"
        cls = "old" if "old" in ctx else "wrongpw" if "wrongpw" in ctx else "other"
        return "beacon|extract|extra-addresses|" + cls, "addresses returned that no genuine beacon of the text contains"
    if op == "wrongpw":
        return "beacon|wrongpw|" + ("accepted" if e["res"] == "ok" else e["res"]), "beacon made with another password yields addresses"
    if op == "text":
        return "beacon|extract|%s|%s" % ("overlapping-markers" if e.get("ovl") else "text", e["res"]), \
            "arbitrary text makes beacon extraction panic: %s" % e.get("why")
    if op == "textfam":
        return "beacon|extract|%s|panic" % e.get("kind"), "a very short body between valid markers makes beacon extraction panic (%d of %d texts), e.g. %r" % (e["panics"], e["members"], e.get("first_bad"))
    return "beacon|%s|unexplained" % op, "event not explained by the specification"


def run(tier, out):
    wd = V.workdir(PID)
    quick = tier == "quick"
    V.build_harness()
    fams = ("roundtrip", "age", "embed")
    paths = {f: os.path.join(wd, "trace_%s.ndjson" % f) for f in fams}

    def impl(f):
        s = V.harness_json(["beacon", f, tier, paths[f]])
        bl, n = validate_chunked("Trace_Beacon.tla", "Trace_Beacon.cfg", PID, paths[f], f, chunk=40000)
        if n != s["events"]:
            raise V.ToolError("trace %s has %d lines, driver reported %d events" % (f, n, s["events"]))
        return s, bl

    jobs = {
        "age": lambda: limited(V.tlc_design)("MC_BeaconAge.tla", "MC_BeaconAge.cfg" if quick else "MC_BeaconAge_thorough.cfg", PID, workers=6, env=JVM),
        "tokens": lambda: limited(V.tlc_design)("MC_Beacon.tla", "MC_Beacon.cfg", PID, workers=6, env=JVM),
        "greedy": lambda: limited(V.tlc_design)("MC_Beacon.tla", "MC_BeaconGreedy.cfg", PID, workers=1, env=JVM),
    }
    for f in fams:
        jobs["impl-" + f] = (lambda f=f: impl(f))
    r = parallel(jobs)
    # (A) design
    for k in ("age", "tokens"):
        d = r[k]
        if d.invariant_violated or d.property_violated:
            out.violation("design|%s|%s" % (k, ",".join(d.invariant_violated)), "Beacon.tla violates its own property", {"tlc": d.out[-3000:]})
    if "GreedyOK" not in r["greedy"].invariant_violated:
        V.selftest_fail(PID, "the variant extraction rule (resume after the end marker) was not refuted by TLC - the token model lost its teeth")
    # (B) impl -> spec
    fnd = Findings()
    skip = {}
    validated = 0
    events = 0
    for f in fams:
        s, bl = r["impl-" + f]
        skip[f] = set(bl)
        events += s["events"]
        validated += s["events"] - len(bl)
        for ln, e in sorted(pick_lines(paths[f], bl).items()):
            sig, what = classify(e)
            e["_trace"] = "%s:%d" % (os.path.basename(paths[f]), ln)
            fnd.add(sig, what, e)
    fnd.report(out)

    # binding self-test on accepted events
    def drop_addr(e):
        e["got"] = e["got"][1:]
    st = selftest(PID, "Trace_Beacon.tla", "Trace_Beacon.cfg", [(f, paths[f]) for f in fams], skip, [
        ("roundtrip: one address dropped", lambda e: e["op"] == "roundtrip" and len(e["got"]) >= 2, drop_addr),
        ("age: accepted beacon reported as ignored", lambda e: e["op"] == "age" and e["rt"] and e["got_n"] > 0, lambda e: e.__setitem__("got_n", 0)),
        ("age: ignored beacon reported as accepted", lambda e: e["op"] == "age" and e["rt"] and e["got_n"] == 0, lambda e: e.__setitem__("got_n", e["n"])),
        ("embed: one address dropped", lambda e: e["op"] == "embed" and len(e["got"]) >= 1 and e["res"] == "ok"
         and {t["k"] for t in e["tokens"]} <= {"beacon", "junk", "sep"}, drop_addr),
        ("embed: panic instead of result", lambda e: e["op"] == "embed" and e["res"] == "ok" and not e["got"], lambda e: e.__setitem__("res", "panic")),
    ], wd, allow_vacuous=bool(out.violations))
    # coverage numbers, measured on the traces
    distinct = set()
    samples = []
    for f in fams:
        with open(paths[f]) as fh:
            for i, line in enumerate(fh):
                e = json.loads(line)
                op = e["op"]
                if op == "roundtrip":
                    distinct.add(("r", e["pw"], e["hour"], e["v4"], e["v6"], e["ttl"]))
                elif op == "age":
                    distinct.add(("a", e["now"], e["then"], e["ttl"]))
                elif op == "embed":
                    distinct.add(("e", e["pw"], tuple(t["k"] for t in e["tokens"])))
                elif op in ("wrongpw", "text"):
                    distinct.add((op, e["text"]))
                elif op == "textfam":
                    distinct.add((op, e["pw"], e["ttl"]))
                if i in (0, 70000) or (f == "embed" and i in (700, 1500)):
                    samples.append({k: e[k] for k in e if k not in ("why",)})
    sums = {f: r["impl-" + f][0] for f in fams}
    cov = {
        "states": r["age"].distinct + r["tokens"].distinct, "transitions": r["age"].generated + r["tokens"].generated,
        "design_runs": {"MC_BeaconAge": [r["age"].distinct, r["age"].generated], "MC_Beacon": [r["tokens"].distinct, r["tokens"].generated],
                        "MC_BeaconGreedy": "refuted (expected)"},
        "traces_validated_against_impl": validated,
        "samples": samples,
        "evaluations": events,
        "distinct_nontrivial": len(distinct),
        "rule": "round trip: every hour stamp for %d (password, list) pair(s) + 200 passwords x 45 list shapes at sampled hours; age: boundary clocks "
                "(then, then+-ttl, +-1, +-2, half circle) for the 7 limits of MC_BeaconAge and random ones + full sweep(s) over all 65 536 clocks; "
                "extraction: every token sequence over the 12-letter alphabet of MC_Beacon up to length %d (+ sampled ones of length 4-5 in quick), beacons of "
                "other passwords, random fragment texts; distinct = distinct (family, password, stamps, limit, token kinds / text) tuples; MC_BeaconAge "
                "states are blocks of 64 stamps x limit (all 65 536 x 7 pairs evaluated)" % (1 if quick else 4, 3 if quick else 5),
        "drivers": sums,
        "self_test": st,
        "checker_cmd": "tlc MC_BeaconAge / MC_Beacon / MC_BeaconGreedy / Trace_Beacon",
    }
    return out.finish("model_checking", cov, assumptions=[
        "SHA-512 key streams of different passwords are unrelated; marker collisions (62^-5) are regenerated, not blamed on the code",
        "garbage candidates between stray markers pass the 1-byte seed check with probability 1/256: their yield is not asserted",
        "address lists are compared as bags (the format groups IPv4 before IPv6)"])
