SPECIFICATION MCSpec
CONSTANTS Nodes <- MCNodes
          Claim <- MCClaim
          Mode = "router"
          ST = 2
          MaxFrames = 2
          MaxNow = 3
          Tcis = {65536}
          MaxDown = 0
          Macs = {0, 9, 12, 13}
INVARIANT ExactlyOnce
INVARIANT NoAmplification
INVARIANT OnlySwitchLearns
INVARIANT OneHopPerAddr
INVARIANT LearnedArePeers
PROPERTY NoRelay
CONSTRAINT Bound
VIEW View
CHECK_DEADLOCK FALSE
