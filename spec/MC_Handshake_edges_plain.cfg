SPECIFICATION MCSpec
CONSTANTS MAX_RETRIES = 120
          CLOSE_TIME = 60
          Objs <- MCObjs
          Attr <- MCAttr
          MaxGen = 6
          MaxNet = 4
          RankHigh = "A"
          TrustMode = "mutual"
          WithBad = FALSE
          AlgoMode = "plain"
INVARIANT Agreement
INVARIANT AtMostOnce
INVARIANT HalvesDisjoint
INVARIANT CipherOK
INVARIANT AuthOnly
INVARIANT MutualTrust
PROPERTY BadChangesNothing
VIEW View
CHECK_DEADLOCK FALSE
CONSTRAINT BoundReplay
ACTION_CONSTRAINT EmitEdge
