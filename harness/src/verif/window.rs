//! C03 / C04: replay window and send counters on a real CryptoCore pair.
//! `window sched <schedules.ndjson> <trace.ndjson>`: executes TLC-generated schedules (NonceWindow.tla labels).
//! `window random <runs> <len> <trace.ndjson>`: seeded random histories incl. rotations into all four slots.
use super::util::*;
use crate::crypto::verif_export::*;
use crate::util::MsgBuffer;
use rand::Rng;
use serde_json::{json, Value};
use std::collections::HashMap;

struct Pair {
    s: CryptoCore,
    r: CryptoCore,
    algo: &'static ring::aead::Algorithm,
    gen: [u64; 4],
    count: [u64; 4],
    sealed: HashMap<(u64, u64, u64), Vec<u8>>,
    last_wire: HashMap<(u64, u64), u64>,
}

fn wire_ctr(d: &[u8]) -> u64 {
    let mut v = 0u64;
    for b in &d[1..8] {
        v = (v << 8) | *b as u64;
    }
    v
}

impl Pair {
    fn new(algo: &'static ring::aead::Algorithm) -> Self {
        let (s, r) = create_dummy_pair(algo);
        Pair { s, r, algo, gen: [0; 4], count: [0; 4], sealed: HashMap::new(), last_wire: HashMap::new() }
    }

    fn seal(&mut self, t: &mut Trace) -> (u64, u64, u64) {
        let mut b = MsgBuffer::new(8);
        let payload: Vec<u8> = (0..20).map(|i| (i as u8) ^ (self.sealed.len() as u8)).collect();
        b.clone_from(&payload);
        self.s.encrypt(&mut b);
        let bytes = b.message().to_vec();
        let keyid = bytes[0] as u64;
        let slot = keyid % 4;
        let w = wire_ctr(&bytes);
        let g = self.gen[slot as usize];
        let delta = match self.last_wire.get(&(slot, g)) {
            Some(p) => w.wrapping_sub(*p) as i64,
            None => 1,
        };
        self.last_wire.insert((slot, g), w);
        self.count[slot as usize] += 1;
        let c = self.count[slot as usize];
        self.sealed.insert((slot, g, c), bytes);
        t.ev(json!({"op":"seal","keyid":keyid,"slot":slot,"gen":g,"ctr":c,"delta":delta.clamp(-1000, 1000)}));
        (slot, g, c)
    }

    fn payload_of(&self, n: usize) -> Vec<u8> {
        (0..20).map(|i| (i as u8) ^ (n as u8)).collect()
    }

    fn open(&mut self, bytes: &[u8]) -> Option<Vec<u8>> {
        let mut d = MsgBuffer::new(8);
        d.clone_from(bytes);
        match guarded(|| self.r.decrypt(&mut d)) {
            Ok(Ok(())) => Some(d.message().to_vec()),
            _ => None,
        }
    }

    fn deliver(&mut self, key: (u64, u64, u64), t: &mut Trace) {
        let bytes = match self.sealed.get(&key) {
            Some(b) => b.clone(),
            None => {
                t.ev(json!({"op":"skip","why":"unknown datagram"}));
                return;
            }
        };
        let acc = self.open(&bytes).is_some();
        t.ev(json!({"op":"deliver","slot":key.0,"gen":key.1,"ctr":key.2,"acc":acc}));
    }

    fn tampered(&mut self, key: (u64, u64, u64), how: u64, t: &mut Trace) {
        let mut bytes = match self.sealed.get(&key) {
            Some(b) => b.clone(),
            None => {
                t.ev(json!({"op":"skip","why":"unknown datagram"}));
                return;
            }
        };
        // counter, ciphertext or tag bit (the key-id byte and lengths below the envelope size belong to C02/C08)
        let nbits = (bytes.len() - 1) * 8;
        let (kind, pos);
        if how % 5 == 4 {
            kind = "truncate";
            pos = 24 + (how / 5) as usize % (bytes.len() - 24);
            bytes.truncate(pos);
        } else {
            kind = "bitflip";
            pos = 8 + (how / 5) as usize % nbits;
            bytes[pos / 8] ^= 1 << (pos % 8);
        }
        let acc = self.open(&bytes).is_some();
        t.ev(json!({"op":"tampered","slot":key.0,"gen":key.1,"ctr":key.2,"kind":kind,"pos":pos,"acc":acc}));
    }

    fn tick(&mut self, t: &mut Trace) {
        self.s.every_second();
        self.r.every_second();
        t.ev(json!({"op":"tick"}));
    }

    fn rotate(&mut self, slot: u64, sending: bool, rng: &mut impl Rng, t: &mut Trace) {
        let mut material = [0u8; 32];
        rng.fill(&mut material);
        self.s.rotate_key(new_key(self.algo, &material), slot, sending);
        self.r.rotate_key(new_key(self.algo, &material), slot, false);
        self.gen[slot as usize] += 1;
        self.count[slot as usize] = 0;
        t.ev(json!({"op":"rotate","slot":slot,"sending":sending}));
    }
}

pub fn run_sched(sched_path: &str, out_path: &str) -> Value {
    let scheds = read_ndjson(sched_path);
    let mut t = Trace::create(out_path);
    let mut rng = rng(3);
    let (mut runs, mut steps) = (0u64, 0u64);
    for sched in &scheds {
        for (ai, algo) in ALGOS.iter().enumerate() {
            runs += 1;
            t.ev(json!({"op":"reset","run":runs,"algo":ALGO_NAMES[ai]}));
            let mut p = Pair::new(algo);
            for st in sched.as_array().unwrap() {
                steps += 1;
                let key = (st["slot"].as_u64().unwrap_or(0), st["gen"].as_u64().unwrap_or(0), st["ctr"].as_u64().unwrap_or(0));
                match st["op"].as_str().unwrap() {
                    "seal" => {
                        p.seal(&mut t);
                    }
                    "deliver" => p.deliver(key, &mut t),
                    "tampered" => {
                        let how = rng.gen::<u32>() as u64;
                        p.tampered(key, how, &mut t)
                    }
                    "tick" => p.tick(&mut t),
                    "rotate" => p.rotate(key.0, st["sending"].as_bool().unwrap(), &mut rng, &mut t),
                    other => panic!("unknown schedule op {}", other),
                }
            }
        }
    }
    let events = t.finish();
    json!({"runs": runs, "steps": steps, "events": events})
}

pub fn run_random(nruns: u64, len: u64, out_path: &str) -> Value {
    let mut t = Trace::create(out_path);
    let mut rng = rng(4);
    let mut steps = 0u64;
    for run in 0..nruns {
        let ai = (run % 3) as usize;
        t.ev(json!({"op":"reset","run":run + 1,"algo":ALGO_NAMES[ai]}));
        let mut p = Pair::new(ALGOS[ai]);
        let mut keys: Vec<(u64, u64, u64)> = vec![];
        // different mixes: delivery-heavy, tick-heavy, rotation-heavy
        let profile = (run / 3) % 3;
        for _ in 0..len {
            steps += 1;
            let x: u32 = rng.gen_range(0..100);
            let (w_seal, w_tick, w_rot) = match profile {
                0 => (25, 15, 1),
                1 => (20, 35, 2),
                _ => (25, 15, 6),
            };
            if x < w_seal || keys.is_empty() {
                keys.push(p.seal(&mut t));
            } else if x < w_seal + w_tick {
                p.tick(&mut t);
            } else if x < w_seal + w_tick + w_rot {
                let slot = rng.gen_range(0..4);
                let sending = rng.gen_bool(0.6);
                p.rotate(slot, sending, &mut rng, &mut t);
            } else {
                // prefer recent datagrams, sometimes anything ever sealed
                let idx = if rng.gen_bool(0.7) { keys.len() - 1 - rng.gen_range(0..keys.len().min(6)) } else { rng.gen_range(0..keys.len()) };
                let k = keys[idx];
                if x >= 92 {
                    let how = rng.gen::<u32>() as u64;
                    p.tampered(k, how, &mut t)
                } else {
                    p.deliver(k, &mut t)
                }
            }
        }
    }
    let events = t.finish();
    json!({"runs": nruns, "steps": steps, "events": events})
}
