SPECIFICATION MCSpec
CONSTANTS MaxId = 9
          MaxNet = 4
INVARIANT SealKeyHeldByPeer
INVARIANT SendKeyWasConfirmed
PROPERTY IdsMonotone
CONSTRAINT Bound
VIEW View
CHECK_DEADLOCK FALSE
