---------------------------- MODULE Trace_Codec ----------------------------
(* Trace validation for C16.  Every event was recorded from the real codecs (harness/src/verif/codec.rs).  The
   harness reports structure only (families, counts, tags, presence flags) plus byte-equality look-ups; this module
   rebuilds the abstract message from the event, applies NormaliseNI / NormaliseIM / DecodeNI / DecodeIM / DecodeRot
   of Codec.tla and demands that the real decoder returned exactly that.  Family events of the totality runs must
   report no panic and no decode above MaxDecodeUs; a flagged member is never explained. *)
EXTENDS Codec, Integers, TLC, Json, IOUtils

CONSTANT MaxDecodeUs

Rec == ndJsonDeserialize(IOEnv.TRACE)
N == Len(Rec)
VARIABLE l

Junk == <<Item("junk", 0, 0)>>
Blob == <<Item("b", 5, 0)>>
Wrong == 999999

\* the k-th address of a family gets identity k
AddrsFrom(fam) == [i \in DOMAIN fam |-> Addr(fam[i], Cardinality({j \in 1..i : fam[j] = fam[i]}))]
PartByTag(enc, t) == IF \E j \in DOMAIN enc : enc[j].tag = t THEN enc[CHOOSE j \in DOMAIN enc : enc[j].tag = t]
                     ELSE Part(t, Junk)           \* a part the message has no business to contain
WireOf(enc, tags, known) ==
  [i \in DOMAIN tags |-> IF tags[i] = 0 THEN EndPart
                         ELSE IF tags[i] \in known THEN PartByTag(enc, tags[i])
                         ELSE Part(tags[i], Junk)]
UnknownCount(tags, known) == Cardinality({i \in DOMAIN tags : tags[i] # 0 /\ tags[i] \notin known})

\* ---- node information ----
MsgNI(e) ==
  [id |-> 1,
   peers |-> [i \in DOMAIN e.peers |-> Peer(e.peers[i].id, i, AddrsFrom(e.peers[i].fam))],
   claims |-> [i \in DOMAIN e.claims |-> [len |-> e.claims[i][1], prefix |-> e.claims[i][2]]],
   timeout |-> IF e.timeout THEN SomeTimeout(1) ELSE NoTimeout,
   addrs |-> AddrsFrom(e.addrs)]
GotAddrs(g) == [j \in DOMAIN g.fam |-> Addr(g.fam[j], g.idx[j])]
GotNI(e) ==
  LET g == e.got IN
  [id |-> IF g.id_ok THEN 1 ELSE Wrong,
   peers |-> [i \in DOMAIN g.peers |-> Peer(g.peers[i].id, IF g.peers[i].id_ok THEN i ELSE Wrong, GotAddrs(g.peers[i]))],
   claims |-> [i \in DOMAIN g.claims |-> [len |-> g.claims[i][1], prefix |-> g.claims[i][2]]],
   timeout |-> IF g.timeout THEN SomeTimeout(IF g.timeout_ok THEN 1 ELSE Wrong) ELSE NoTimeout,
   addrs |-> GotAddrs(g.addrs)]
JudgeNI(e) ==
  /\ e.res = "ok"
  /\ LET m == MsgNI(e) got == GotNI(e) IN
     /\ got = NormaliseNI(m)                                        \* the property
     /\ DecodeNI(WireOf(EncodeNI(m), e.tags, NIKnown)) = OkNI(got)   \* the reference decoder on the parts actually sent
     /\ e.got.claims_ok
     /\ UnknownCount(e.tags, NIKnown) = Len(e.ins)

\* ---- handshake ----
Has(tags, t) == \E i \in DOMAIN tags : tags[i] = t
MsgIM(e) ==
  [stage |-> e.stage, hash |-> 7,
   ecdh |-> IF Has(e.tags, IM_ECDH) THEN Present(Blob) ELSE Absent,
   algos |-> IF Has(e.tags, IM_ALGOS) THEN Present([i \in DOMAIN e.algos |-> [id |-> e.algos[i], speed |-> i]]) ELSE Absent,
   payload |-> IF Has(e.tags, IM_PAYLOAD) THEN Present(Blob) ELSE Absent]
GotIM(e) ==
  LET g == e.got IN
  [stage |-> g.stage, hash |-> 7,
   ecdh |-> IF g.has_ecdh THEN Present(Blob) ELSE Absent,
   algos |-> IF g.has_algos THEN Present([unenc |-> g.unenc, list |-> [i \in DOMAIN g.algos |-> [id |-> g.algos[i], speed |-> g.idx[i]]]])
             ELSE Absent,
   payload |-> IF g.has_payload THEN Present(Blob) ELSE Absent]
JudgeIM(e) ==
  LET m == MsgIM(e)
      r == DecodeIM(Signed(WireOf(EncodeIM(m), e.tags, IMKnown)))
  IN IF r.ok THEN /\ e.res = "ok"
                  /\ GotIM(e) = r.msg
                  /\ r.msg = NormaliseIM(m)
                  /\ e.content_ok
                  /\ UnknownCount(e.tags, IMKnown) = e.unknown
     ELSE e.res \in {"ok", "err"}       \* not an encoding of any message: only totality is demanded

\* ---- rotation ----
RotWire(p, c) == <<Item("u64", 1, 0), Item("len", p, 0)>> \o [i \in 1..p |-> Item("b", i, 0)]
                 \o <<Item("len", c, 0)>> \o [i \in 1..c |-> Item("b", 1000 + i, 0)]
JudgeRot(e) ==
  LET w == RotWire(e.plen, e.clen) r == DecodeRot(w) IN
  /\ r.ok /\ e.res = "ok"
  /\ (r.msg.confirm.present <=> e.clen > 0)
  /\ LET w2 == EncodeRot(r.msg) IN
     /\ w2 = w
     /\ e.re_len = Len(w2) + 7                \* u64 = 8 bytes, every other item one byte
     /\ e.re_plen = Len(r.msg.propose)
     /\ e.re_clen = IF r.msg.confirm.present THEN Len(r.msg.confirm.v) ELSE 0
     /\ e.content_ok

\* ---- totality ----
JudgeFamily(e) == /\ e.panics = 0 /\ e.slow = 0
                  /\ e.members = e.ok + e.err
                  /\ e.members > 0
                  /\ e.max_us < MaxDecodeUs

Step(e) ==
  CASE e.op = "nodeinfo" -> JudgeNI(e)
    [] e.op = "init" -> JudgeIM(e)
    [] e.op = "rotation" -> JudgeRot(e)
    [] e.op = "family" -> JudgeFamily(e)
    [] e.op = "member" -> FALSE              \* a decode that panicked or did not come back in time
    [] OTHER -> FALSE

TraceInit == l = 1
TraceNext == /\ l <= N /\ l' = l + 1 /\ Step(Rec[l])
TraceSpec == TraceInit /\ [][TraceNext]_l

Accepted == IF TLCGet("stats").diameter - 1 = N THEN TRUE
            ELSE Print(<<"REJECTED", TLCGet("stats").diameter, Rec[TLCGet("stats").diameter]>>, FALSE)
=============================================================================
