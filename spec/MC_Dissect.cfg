SPECIFICATION MCSpec
CONSTANTS MaxLen = 44
          Offsets = {0, 80, 160, 240}
          EtherTypes = {33024, 2048, 34525, 34984, 33025, 129, 32768, 0, 65535}
          TagControls = {0, 1, 4095, 4096, 8192, 61440, 65535, 1234, 40961}
          SweepLens = {20}
          SweepKs = {160}
          SweepEtherTypes = FALSE
INVARIANT UniverseOK
INVARIANT TotalOK
INVARIANT RejectOK
INVARIANT PositionsOK
INVARIANT HeaderOnlyOK
INVARIANT TightOK
INVARIANT TagOK
PROPERTY NestedIgnored
PROPERTY TypeIrrelevant
PROPERTY VersionRule
CHECK_DEADLOCK FALSE
