------------------------------- MODULE Nonce -------------------------------
(***************************************************************************)
(* The 96-bit send counter as a sequence of digits (radix R, length L,     *)
(* most significant first), its increment with carry, the transmitted part *)
(* (the T least significant digits; digit 1 is the half marker) and the    *)
(* receiver's reconstruction.                                              *)
(* Code: src/crypto/core.rs Nonce::increment, CryptoCore::encrypt          *)
(* (writes bytes 5..12 of the nonce), CryptoCore::decrypt (assumes the     *)
(* untransmitted bytes are zero and the first byte is the opposite half).  *)
(* TLC integers are 32 bit, so a nonce is never converted to one number    *)
(* except in the small-radix design run.                                   *)
(***************************************************************************)
EXTENDS Naturals, Sequences

CONSTANTS R, L, T      \* radix, number of digits, number of transmitted digits (T < L)

Digits == 0..(R - 1)
Nonces == [1..L -> Digits]

\* increment with carry across all digits; the all-(R-1) value wraps to zero (the code's wrapping_add on every byte)
RECURSIVE IncFrom(_, _)
IncFrom(n, i) == IF i = 0 THEN n
                 ELSE IF n[i] = R - 1 THEN IncFrom([n EXCEPT ![i] = 0], i - 1)
                 ELSE [n EXCEPT ![i] = @ + 1]
Inc(n) == IncFrom(n, L)

\* lexicographic order = numeric order for fixed-length most-significant-first sequences
Less(a, b) == \E i \in 1..L : a[i] < b[i] /\ \A j \in 1..(i - 1) : a[j] = b[j]

\* what travels: the last T digits; what the receiver assumes: its peer's half marker, zeros, then the wire digits
Wire(n) == SubSeq(n, L - T + 1, L)
Recon(w, half) == <<half>> \o [i \in 1..(L - T - 1) |-> 0] \o w
Fits(n) == \A i \in 2..(L - T) : n[i] = 0          \* still representable in the transmitted digits

\* a datagram sealed with nonce n by an end whose half marker is h opens at the peer iff the reconstruction is n
Opens(n, h) == Recon(Wire(n), h) = n

RECURSIVE Val(_, _)
Val(n, i) == IF i = 0 THEN 0 ELSE Val(n, i - 1) * R + n[i]
AllMax == [i \in 1..L |-> R - 1]

\* properties of the counter algebra (checked exhaustively for a small radix)
IncIsSucc(n) == n # AllMax => Val(Inc(n), L) = Val(n, L) + 1
IncNeverRepeats(n) == n # AllMax => Less(n, Inc(n))
OverflowUndecryptable(n) == (n[1] = n[1]) /\ (Opens(n, n[1]) <=> Fits(n))
\* once a counter has left the transmittable range it never comes back below the all-max value: no wrap onto used values
StaysOut(n) == (~Fits(n) /\ n # AllMax /\ Inc(n)[1] = n[1]) => ~Fits(Inc(n)) \/ Less(n, Inc(n))
=============================================================================
