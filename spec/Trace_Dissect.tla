---------------------------- MODULE Trace_Dissect ----------------------------
(* Trace validation for Dissect: every recorded call of the real Frame::parse / Packet::parse
   {"op","data","res","src","dst"} must not have panicked and its result must be an answer the reference
   dissector admits for exactly these input bytes: FrameOK(data, result) resp. result = PacketParse(data).
   A rejection is logged with empty addresses, which is the specification's Reject value. *)
EXTENDS Dissect, TLC, Json, IOUtils

Rec == ndJsonDeserialize(IOEnv.TRACE)
N == Len(Rec)
VARIABLE l

Logged(e) == Pair(e.src, e.dst)

Step(e) ==
  /\ e.res \in {"ok", "reject"}                  \* never a panic
  /\ IsBytes(e.data)
  /\ (e.res = "reject") <=> (Logged(e) = Reject)
  /\ CASE e.op = "frame"  -> FrameOK(e.data, Logged(e))
       [] e.op = "packet" -> PacketOK(e.data, Logged(e))
       [] OTHER -> FALSE

TraceInit == l = 1
TraceNext == /\ l <= N /\ l' = l + 1 /\ Step(Rec[l])
TraceSpec == TraceInit /\ [][TraceNext]_l

Accepted == IF TLCGet("stats").diameter - 1 = N THEN TRUE
            ELSE Print(<<"REJECTED", TLCGet("stats").diameter, Rec[TLCGet("stats").diameter]>>, FALSE)
=============================================================================
