------------------------------- MODULE Prefix -------------------------------
(***************************************************************************)
(* Prefix ranges: when does the range  base/plen  contain an address?       *)
(*                                                                         *)
(* Code: src/types.rs  Range::matches (xor + leading_zeros loop over the    *)
(*       bytes, `match_len >= prefix_len`, lengths must be equal).          *)
(*                                                                         *)
(* C11 speaks of "the claim containing that address": a range base/plen of  *)
(* a W-bit address family is the set of addresses that agree with base on   *)
(* the first plen bits.  A prefix longer than the address cannot be agreed  *)
(* with by anything (there are no such bits): it contains nothing.          *)
(* Addresses of different families (4, 6, 8, 16 bytes) never contain each   *)
(* other.                                                                   *)
(*                                                                         *)
(* Four statements of the same relation, written independently of the       *)
(* code's loop; MC_Prefix checks exhaustively (W = 8) that they agree:      *)
(*   Matches        arithmetic on W-bit numbers (division by 2^(W-plen))    *)
(*   MatchesBits    bit by bit (the reference of the quantifier)            *)
(*   InInterval     the aligned interval [lo, hi] of a prefix               *)
(*   MatchesDigits  digit by digit for numbers written in base 2^D          *)
(*                  (D = 8: byte sequences, the form of the real addresses) *)
(***************************************************************************)
EXTENDS Naturals, Sequences

P2(n) == 2 ^ n

\* W-bit numbers: agree on the first plen bits <=> equal after dropping the last W - plen bits
Matches(base, plen, addr, W) ==
  /\ plen <= W
  /\ addr \div P2(W - plen) = base \div P2(W - plen)

\* bit i (1 = most significant) of the W-bit number x
Bit(x, i, W) == (x \div P2(W - i)) % 2

\* the quantifier's bit-by-bit reference
MatchesBits(base, plen, addr, W) ==
  /\ plen <= W
  /\ \A i \in 1..plen : Bit(addr, i, W) = Bit(base, i, W)

\* a prefix is an aligned block of 2^(W-plen) addresses
Lo(base, plen, W) == (base \div P2(W - plen)) * P2(W - plen)
Hi(base, plen, W) == Lo(base, plen, W) + P2(W - plen) - 1
InInterval(base, plen, addr, W) == plen <= W /\ Lo(base, plen, W) <= addr /\ addr <= Hi(base, plen, W)

\* the matching set as a list of maximal runs <<lo, hi>> (the form in which the driver reports 256 or 65536 answers)
Runs(base, plen, W) == IF plen <= W THEN << <<Lo(base, plen, W), Hi(base, plen, W)>> >> ELSE << >>

-----------------------------------------------------------------------------
(* Numbers written as sequences of D-bit digits, most significant first (D = 8: the bytes of an address).          *)
(* Digit i carries bits D*(i-1)+1 .. D*i.  k = plen - D*(i-1) of the prefix bits reach into digit i or beyond:     *)
(* none -> the digit is free; at least D -> the digit must be equal; otherwise its first k bits must agree.        *)
DigitOK(b, plen, i, v, D) ==
  LET k == plen - D * (i - 1) IN
  IF plen <= D * (i - 1) THEN TRUE
  ELSE IF k >= D THEN v = b
  ELSE Matches(b, k, v, D)

MatchesDigits(B, plen, A, D) ==
  /\ Len(B) = Len(A)                       \* families are disjoint
  /\ plen <= D * Len(A)                    \* an over-long prefix contains nothing
  /\ \A i \in 1..Len(A) : DigitOK(B[i], plen, i, A[i], D)

MatchesBytes(B, plen, A) == MatchesDigits(B, plen, A, 8)

\* value of a digit sequence (only used by the design run to compare with the numeric form)
RECURSIVE Value(_, _)
Value(S, D) == IF S = << >> THEN 0 ELSE Value(SubSeq(S, 1, Len(S) - 1), D) * P2(D) + S[Len(S)]

\* Which values v of digit k make  A with A[k] = v  a member of B/plen ?  Only the k-th conjunct of MatchesDigits
\* depends on v, so the set is empty when another conjunct fails and otherwise the set of v with DigitOK; as runs:
RowRunsD(B, plen, A, k, D) ==
  LET others == /\ Len(B) = Len(A)
                /\ plen <= D * Len(A)
                /\ \A i \in (1..Len(A)) \ {k} : DigitOK(B[i], plen, i, A[i], D)
      q == plen - D * (k - 1) IN
  IF ~others THEN << >>
  ELSE IF plen <= D * (k - 1) THEN << <<0, P2(D) - 1>> >>
  ELSE IF q >= D THEN << <<B[k], B[k]>> >>
  ELSE Runs(B[k], q, D)
RowRuns(B, plen, A, k) == RowRunsD(B, plen, A, k, 8)
=============================================================================
