SPECIFICATION Spec
CONSTANTS Options <- VpnCloudOptions
          PairNames <- Names
INVARIANT SourcesOK
INVARIANT FileStageOK
INVARIANT ArgsStageOK
INVARIANT OperatorOK
INVARIANT RoundTripStageOK
INVARIANT NetCaseOK
ACTION_CONSTRAINT Emit
CHECK_DEADLOCK FALSE
