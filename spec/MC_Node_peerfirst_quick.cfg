SPECIFICATION Spec
CONSTANTS MAX_RETRIES = 2
          CLOSE_TIME = 1
          Dispatch = "peerfirst"
          MaxGen = 7
          MaxNet = 3
          MaxReplay = 1
          MaxData = 2
          MaxBad = 1
INVARIANT NoLoss
INVARIANT StaysConnected
INVARIANT SameSession
PROPERTY BadIsStutter
CONSTRAINT Bound
CHECK_DEADLOCK FALSE
