SPECIFICATION Spec
CONSTANTS Slots = {0, 1}
          MaxDatagrams = 5
          MaxTicks = 5
          MaxRot = 2
          MaxDepth = 10
INVARIANT WindowOK
INVARIANT NewestAccepted
INVARIANT TypeOK
PROPERTY ClosedStaysClosed
PROPERTY SealIncreases
CONSTRAINT Bound
VIEW View
ACTION_CONSTRAINT Emit
CHECK_DEADLOCK FALSE
