-------------------------------- MODULE Mesh --------------------------------
(***************************************************************************)
(* Peer discovery (C14): who is linked, who is dialling whom, which NAT    *)
(* pinholes are open.  One round = one announcement interval: every node   *)
(* tells each of its peers who its peers are, the receiver dials everyone  *)
(* it is not linked to.                                                    *)
(* Code: src/cloud.rs GenericCloud::{create_node_info, connect_to_peers,   *)
(*       update_peer_info, connect, connect_sock}; NAT = the mock socket's *)
(*       address filter (passes only after the natted node has sent to     *)
(*       that address).                                                    *)
(***************************************************************************)
EXTENDS Naturals, FiniteSets

CONSTANTS N, MaxRounds
Nodes == 1..N
Pairs == {p \in Nodes \X Nodes : p[1] # p[2]}
Und(a, b) == {a, b}

VARIABLES nat,     \* nodes behind an address-filtering NAT
          link,    \* established connections (unordered pairs)
          dial,    \* outstanding dial instructions <<from, to>> (retransmitted until they succeed)
          hole,    \* <<a, b>>: a has sent to b, so b's datagrams pass a's NAT
          round, phase
vars == <<nat, link, dial, hole, round, phase>>

RECURSIVE Reach(_, _)
Reach(S, E) == LET S2 == S \cup {y \in Nodes : \E x \in S : Und(x, y) \in E} IN IF S2 = S THEN S ELSE Reach(S2, E)
Connected(E) == Reach({1}, E) = Nodes

\* a dial a->b gets through if b is not behind a NAT, or b has an open pinhole towards a (b sent to a)
Passes(a, b, h) == b \notin nat \/ <<b, a>> \in h

\* all bootstrap configurations: directed dial instructions and a NAT set such that the edges that can be
\* established at all connect the graph
Init == /\ nat \in SUBSET Nodes
        /\ dial \in SUBSET Pairs
        /\ Connected({Und(p[1], p[2]) : p \in {q \in dial : Passes(q[1], q[2], dial)}})
        /\ link = {} /\ hole = {} /\ round = 0 /\ phase = "dial"

\* every pending dial sends pings (opening the dialler's pinhole); those that pass complete; completed pairs stop
DialPhase ==
  /\ phase = "dial"
  /\ LET h == hole \cup dial
         ok == {p \in dial : Passes(p[1], p[2], h)}
         newl == link \cup {Und(p[1], p[2]) : p \in ok} IN
       /\ hole' = h \cup {<<p[2], p[1]>> : p \in ok}
       /\ link' = newl
       /\ dial' = {p \in dial : Und(p[1], p[2]) \notin newl}
  /\ phase' = "exchange" /\ UNCHANGED <<nat, round>>

PeersOf(a, l) == {b \in Nodes : Und(a, b) \in l /\ a # b}
\* every node tells each peer its peer list; the receiver dials everyone it is not linked to (never itself)
ExchangePhase ==
  /\ phase = "exchange"
  /\ dial' = dial \cup {<<p, q>> \in Pairs : Und(p, q) \notin link /\ \E a \in PeersOf(p, link) : q \in PeersOf(a, link)}
  /\ round' = round + 1 /\ phase' = "dial" /\ UNCHANGED <<nat, link, hole>>

Next == (round < MaxRounds /\ (DialPhase \/ ExchangePhase)) \/ (round >= MaxRounds /\ UNCHANGED vars)
Spec == Init /\ [][Next]_vars

FullMesh == \A p \in Pairs : Und(p[1], p[2]) \in link
Log2Ceil(n) == IF n <= 2 THEN 1 ELSE IF n <= 4 THEN 2 ELSE IF n <= 8 THEN 3 ELSE 4
\* C14: fully meshed after ceil(log2 n) + 1 exchange rounds
FullMeshBy == (round >= Log2Ceil(N) + 1 /\ phase = "exchange") => FullMesh
\* a node never links to itself
NoSelfLink == \A e \in link : Cardinality(e) = 2
=============================================================================
