SPECIFICATION TraceSpec
POSTCONDITION Accepted
CHECK_DEADLOCK FALSE
