SPECIFICATION MCSpec
CONSTANTS Nodes <- MCNodes
          Claim <- MCClaim
          Mode = "switch"
          ST = 2
          MaxFrames = 2
          MaxNow = 3
          Tcis = {65536, 0}
          MaxDown = 1
          Macs = {1}
INVARIANT ExactlyOnce
INVARIANT NoAmplification
INVARIANT OnlySwitchLearns
INVARIANT OneHopPerAddr
INVARIANT LearnedArePeers
PROPERTY NoRelay
CONSTRAINT Bound
VIEW View
CHECK_DEADLOCK FALSE
