SPECIFICATION Spec
CONSTANTS DataPlane = "off"
          N = 3
          MaxTime = 12
          Silent = 2
          FaultKind = "silent"
          DialKind = "reconnect"
          MAX_RETRIES <- McRetries
          LINGER <- McLinger
          OWN_RESET <- McOwnReset
INVARIANT NodeInvariants
INVARIANT ClaimsAreLastAnnouncement
INVARIANT OwnNeverDialled
INVARIANT FullMeshBy
INVARIANT SilentTimedOut
PROPERTY HealthyNeverTimedOut
CHECK_DEADLOCK FALSE
