SPECIFICATION FreshSpec
CONSTANTS MaxRounds = 12
INVARIANT Fresh
INVARIANT FreshSafe
CONSTRAINT Bound
CHECK_DEADLOCK FALSE
