---------------------------- MODULE MC_RotationFresh ----------------------------
EXTENDS RotationFresh, TLC
CONSTANTS MaxRounds
Bound == round <= MaxRounds
=============================================================================
