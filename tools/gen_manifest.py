#!/usr/bin/env python3
"""Regenerates /verif/MANIFEST.json from the table below (single source of truth for the interface)."""
import json, os
ROOT = os.path.dirname(os.path.dirname(os.path.abspath(__file__)))

CHECKS = {
    "C03": dict(
        text="TLC explores every interleaving of seal/deliver-again/tamper/tick/rotate of NonceWindow.tla within small bounds and checks the "
             "history-based window rule; every transition of that graph is executed on real CryptoCore pairs (3 ciphers) and the recorded "
             "traces plus seeded random 400-step histories are validated by TLC against the same specification.",
        note="AEAD treated as perfect; bounds: 4-5 datagrams, 4-5 ticks, 2 slots at design level, all 4 slots in random histories; tick = CryptoCore::every_second",
        technique="TLA+ spec NonceWindow + TLC exhaustive; transition-cover replay on real CryptoCore; TLC trace validation",
        design_ref="DESIGN.md 3.1, 6 (C03)"),
}

PENDING = {}
for i in range(1, 21):
    pid = "C%02d" % i
    if pid not in CHECKS:
        PENDING[pid] = "check not built yet in this session (planned, see DESIGN.md section 6); not claimed until its check exists"

def main():
    checks = []
    for pid in sorted(CHECKS):
        c = CHECKS[pid]
        checks.append({
            "property_id": pid,
            "quick_cmd": "bin/check %s --tier quick" % pid,
            "thorough_cmd": "bin/check %s --tier thorough" % pid,
            "evidence_file": "/verif/evidence/%s.json" % pid,
            "replay_cmd_template": "bin/check %s --replay {path}" % pid,
            "engine": "tla-conformance",
            "level_claimed": {"category": c.get("category", "model_checking"), "text": c["text"], "design_ref": c["design_ref"]},
            "level_note": c["note"],
            "technique": c["technique"],
        })
    m = {
        "version": 1,
        "setup_cmd": "bin/setup",
        "hooks": {
            "guard": "--cfg dswd_vpncloud_verif",
            "enable": "harness/.cargo/config.toml sets rustflags = [--cfg dswd_vpncloud_verif]; the harness crate include!s /repo/src/main.rs, so every check rebuilds from /repo's working tree with the hooks compiled in",
            "baseline_off_cmd": "cd /repo && cargo test --workspace --no-fail-fast --offline",
            "source_commits": [l.split()[0] for l in os.popen("git -C /repo log --format='%h %s' | grep 'verif hooks'").read().splitlines()],
            "add_only": True,
        },
        "engines": [{
            "name": "tla-conformance",
            "path": "/verif/bin/check",
            "serves_properties": sorted(CHECKS),
            "kind_free_text": "explicit TLA+ specifications (spec/*.tla) checked by TLC; Rust harness (harness/) executes TLC-derived schedules and input families on the real code; TLC validates the recorded traces (Trace_*.tla)",
        }],
        "checks": checks,
        "notes": "All checks: bin/check <ID> --tier quick|thorough. Exit 0 held / 1 VIOLATION / 2 tool error. Known findings: known_findings.json.",
        "not_applicable": [{"property_id": p, "reason": r} for p, r in sorted(PENDING.items())],
    }
    with open(os.path.join(ROOT, "MANIFEST.json"), "w") as f:
        json.dump(m, f, indent=1)
    print("MANIFEST.json: %d checks, %d not claimed" % (len(checks), len(PENDING)))

if __name__ == "__main__":
    main()
