//! C05 / C01 / C06 (object level): the signed three-way handshake on real PeerCrypto<NodeInfo> objects.
//!
//! `hs sched <schedules.ndjson> <trace.ndjson> <rankHigh A|B> <algoMode normal|tie|plain>`
//!       executes TLC schedules (labels of MC_Handshake) and records what the code did;
//! `hs random <runs> <depth> <trace.ndjson> <rankHigh> <algoMode>`   seeded random schedules (dup/drop/reorder/ticks/leaps);
//! `hs families <trace.ndjson> <tier> <residue>`   C01: every bit flip / truncation / field edit / forged message,
//!       presented to a receiver in every handshake stage;
//! `hs negotiate <trace.ndjson> <tier>`  C06: real handshakes for pairs of advertised lists with prescribed speeds.
use super::conn::*;
use super::util::*;
use crate::config::CryptoConfig;
use crate::crypto::{Crypto, MessageResult, PeerCrypto};
use crate::error::Error;
use crate::messages::NodeInfo;
use crate::util::MsgBuffer;
use rand::seq::SliceRandom;
use rand::Rng;
use serde_json::{json, Value};
use std::collections::HashMap;

pub const SPEED_GRID: [f32; 4] = [0.0, 1.5, 600.0, 3.0e38]; // spec speeds 0, 1, 2, 9 (order preserving)

fn speed_of(spec: u64) -> f32 {
    match spec {
        0 => SPEED_GRID[0],
        1 => SPEED_GRID[1],
        2 => SPEED_GRID[2],
        3 => 800.0,
        5 => 5000.0,
        _ => SPEED_GRID[3],
    }
}

const NAMES: [&str; 4] = ["PLAIN", "AES128", "AES256", "CHACHA20"];

/// Builds a node crypto context advertising `list` (cipher wire id, spec speed) in this order.
pub fn ctx_with(id: u8, key: &KeyCfg, trusted: &[String], list: &[(u64, u64)], plain: bool) -> Crypto {
    let mut speeds = [0.0f32; 3];
    let mut algos: Vec<String> = vec![];
    if plain {
        algos.push("PLAIN".into());
    }
    for (c, s) in list {
        speeds[*c as usize - 1] = speed_of(*s);
        algos.push(NAMES[*c as usize].to_string());
    }
    if algos.is_empty() {
        // an empty configuration list means "default algorithms" to the code; a node that advertises nothing
        // cannot be configured, so callers never pass an empty list without plain
        panic!("empty algorithm list");
    }
    set_speeds(speeds);
    let cfg = match key {
        KeyCfg::Password(p) => CryptoConfig { password: Some(p.clone()), trusted_keys: trusted.to_vec(), algorithms: algos, ..Default::default() },
        KeyCfg::Pair(pr, pb) => CryptoConfig {
            private_key: Some(pr.clone()),
            public_key: Some(pb.clone()),
            trusted_keys: trusted.to_vec(),
            algorithms: algos,
            ..Default::default()
        },
    };
    Crypto::new([id; 16], &cfg).expect("crypto context")
}

#[derive(Clone)]
pub enum KeyCfg {
    Password(String),
    Pair(String, String),
}

/// A fresh explicit key pair in the text form the configuration takes (retry when the text form is not accepted:
/// that is C18's business, not this driver's).
pub fn fresh_keypair() -> (String, String) {
    loop {
        let (pr, pb) = Crypto::generate_keypair(None);
        let cfg = CryptoConfig { private_key: Some(pr.clone()), public_key: Some(pb.clone()), trusted_keys: vec![pb.clone()], ..Default::default() };
        set_speeds([1.0, 1.0, 1.0]);
        if Crypto::new([9; 16], &cfg).is_ok() {
            return (pr, pb);
        }
    }
}

fn stage_name(pc: &PeerCrypto<NodeInfo>) -> &'static str {
    match pc.verif_init().map(|i| i.stage()) {
        None => "none",
        Some(1) => "fresh",
        Some(2) => "awaitPong",
        Some(3) => "awaitPeng",
        Some(4) => "waitClose",
        Some(5) => "closing",
        _ => "?",
    }
}

fn algo_id(name: &str) -> u64 {
    match name {
        "PLAIN" => 0,
        "AES128" => 1,
        "AES256" => 2,
        "CHACHA20" => 3,
        _ => 98,
    }
}

pub struct Pair {
    pub objs: [PeerCrypto<NodeInfo>; 2],
    pub alive: [bool; 2],
    pub done: [u32; 2],
    pub got_ok: [bool; 2],
    pub rot: [u32; 2],
    pub sent: Vec<Vec<u8>>,
    pub rot_msgs: Vec<(usize, Vec<u8>)>,
}

fn idx(o: &str) -> usize {
    if o == "A" {
        0
    } else {
        1
    }
}
const ON: [&str; 2] = ["A", "B"];

impl Pair {
    /// objects whose salted node-id hashes are ordered as requested (the code draws the salt at random)
    pub fn new(crypto: &[Crypto; 2], rank_high: &str) -> Pair {
        loop {
            let a = crypto[0].peer_instance(node_info(1));
            let b = crypto[1].peer_instance(node_info(2));
            let ha = a.verif_init().unwrap().verif_salted_node_id_hash();
            let hb = b.verif_init().unwrap().verif_salted_node_id_hash();
            if (ha > hb) == (rank_high == "A") {
                return Pair { objs: [a, b], alive: [true; 2], done: [0; 2], got_ok: [false; 2], rot: [0; 2], sent: vec![], rot_msgs: vec![] };
            }
        }
    }

    /// registers an emitted handshake datagram: (new index, 0) or (0, index of the identical earlier datagram)
    fn register(&mut self, bytes: &[u8]) -> (usize, usize) {
        if let Some(j) = self.sent.iter().position(|b| &b[..] == bytes) {
            (0, j + 1)
        } else {
            self.sent.push(bytes.to_vec());
            (self.sent.len(), 0)
        }
    }

    fn state(&self, i: usize) -> Value {
        let pc = &self.objs[i];
        json!({"stage": stage_name(pc), "has_init": pc.has_init(), "ready": pc.is_ready(), "alive": self.alive[i]})
    }

    pub fn initiate(&mut self, o: &str, t: &mut Trace) -> usize {
        let i = idx(o);
        let mut out = MsgBuffer::new(100);
        let ok = self.objs[i].initialize(&mut out).is_ok();
        let (k, rep) = if ok { self.register(out.message()) } else { (0, 0) };
        t.ev(json!({"op":"initiate","o":o,"ok":ok,"k":k,"rep":rep,"st":self.state(i)}));
        k
    }

    /// delivers datagram k to o and records what happened; `residue`: bytes lying behind the message in the buffer
    pub fn recv(&mut self, o: &str, k: usize, t: &mut Trace) -> (usize, usize, &'static str) {
        let i = idx(o);
        let bytes = self.sent[k - 1].clone();
        let oc = feed(&mut self.objs[i], &bytes);
        let mut res = "err";
        let (mut newk, mut rep, mut empty, mut rotm) = (0, 0, false, false);
        match &oc.res {
            Err(Error::CryptoInitFatal(_)) => {
                res = "fatal";
                self.alive[i] = false;
            }
            Err(_) => res = "err",
            Ok(MessageResult::Reply) => {
                res = "cont";
                if oc.out.is_empty() {
                    empty = true;
                } else {
                    let r = self.register(&oc.out);
                    newk = r.0;
                    rep = r.1;
                }
            }
            Ok(MessageResult::InitializedWithReply(p)) | Ok(MessageResult::Initialized(p)) => {
                self.done[i] += 1;
                self.got_ok[i] = *p == node_info(2 - i as u8);
                if !oc.out.is_empty() && oc.out[0] == 0xff {
                    res = "succI";
                    let r = self.register(&oc.out);
                    newk = r.0;
                    rep = r.1;
                } else {
                    res = "succR";
                    if !oc.out.is_empty() {
                        rotm = true;
                        self.rot[i] += 1;
                        self.rot_msgs.push((1 - i, oc.out.clone()));
                    }
                }
            }
            Ok(MessageResult::None) => res = "none",
            Ok(MessageResult::Message(_)) => res = "message",
        }
        t.ev(json!({"op":"recv","o":o,"k":k,"res":res,"out":newk,"rep":rep,"empty":empty,"rot":rotm,"st":self.state(i)}));
        (newk, rep, res)
    }

    /// n calls of every_second; every emitted datagram must repeat one earlier datagram (cnt of them, index rep)
    pub fn ticks(&mut self, o: &str, n: usize, t: &mut Trace) -> usize {
        let i = idx(o);
        let mut res = "ok";
        let (mut cnt, mut rep, mut other) = (0usize, 0usize, 0usize);
        let mut done = 0usize;
        for _ in 0..n {
            let oc = tick(&mut self.objs[i]);
            done += 1;
            match oc.res {
                Err(Error::CryptoInitFatal(_)) => {
                    res = "fatal";
                    self.alive[i] = false;
                    break;
                }
                Err(_) => {
                    res = "err";
                    break;
                }
                Ok(_) => {
                    if !oc.out.is_empty() {
                        if oc.out[0] == 0xff {
                            let (nk, r) = self.register(&oc.out);
                            if nk > 0 {
                                other += 1; // a datagram never seen before out of a timer tick
                            } else if rep == 0 || rep == r {
                                rep = r;
                                cnt += 1;
                            } else {
                                other += 1;
                            }
                        } else {
                            self.rot_msgs.push((1 - i, oc.out.clone())); // rotation traffic, not part of this model
                        }
                    }
                }
            }
        }
        t.ev(json!({"op":"ticks","o":o,"n":done,"res":res,"rep":rep,"cnt":cnt,"other":other,"st":self.state(i)}));
        if cnt > 0 {
            rep
        } else {
            0
        }
    }

    fn counters(&self, i: usize) -> (usize, usize) {
        self.objs[i].verif_init().map(|s| s.verif_counters()).unwrap_or((0, 0))
    }

    /// final observation: completion counts, cipher, half, payload, rotation starter; probes when both completed
    pub fn finals(&mut self, t: &mut Trace) {
        for i in 0..2 {
            let name = self.objs[i].algorithm_name();
            let ready = self.objs[i].is_ready();
            let half = if ready { self.objs[i].verif_core().unwrap().verif_nonce_half() } else { false };
            t.ev(json!({"op":"final","o":ON[i],"done":self.done[i],"sel":algo_id(name),"ready":ready,"half":half,
                        "got_ok":self.got_ok[i],"rot":self.rot[i]}));
        }
        if self.done[0] > 0 && self.done[1] > 0 {
            for i in 0..2 {
                let payload = [7u8, i as u8, 3, 4, 5, 6, 7, 8, 9, 10];
                let (x, y) = self.objs.split_at_mut(1);
                let (from, to) = if i == 0 { (&mut x[0], &mut y[0]) } else { (&mut y[0], &mut x[0]) };
                let d = seal_data(from, &payload);
                let ok = open_data(to, &d).map(|p| p == payload).unwrap_or(false);
                t.ev(json!({"op":"probe","from":ON[i],"to":ON[1 - i],"ok":ok}));
            }
        }
    }
}

fn mode_lists(mode: &str) -> (Vec<(u64, u64)>, Vec<(u64, u64)>, bool) {
    match mode {
        "tie" => (vec![(1, 2), (2, 2), (3, 1)], vec![(2, 2), (1, 2)], false),
        "plain" => (vec![(1, 3), (3, 1)], vec![(3, 2), (1, 2), (2, 5)], true),
        _ => (vec![(1, 3), (3, 1)], vec![(3, 2), (1, 2), (2, 5)], false),
    }
}

pub fn mutual_ctx(mode: &str) -> [Crypto; 2] {
    let (la, lb, plain) = mode_lists(mode);
    let k = KeyCfg::Password("pw".into());
    [ctx_with(1, &k, &[], &la, plain), ctx_with(2, &k, &[], &lb, plain)]
}

pub fn run_sched(sched_path: &str, out_path: &str, rank_high: &str, mode: &str) -> Value {
    let crypto = mutual_ctx(mode);
    let scheds = read_ndjson(sched_path);
    let mut t = Trace::create(out_path);
    let (mut runs, mut steps, mut skipped, mut completed) = (0u64, 0u64, 0u64, 0u64);
    for sched in &scheds {
        runs += 1;
        t.ev(json!({"op":"reset","run":runs}));
        let mut p = Pair::new(&crypto, rank_high);
        let mut wire: HashMap<String, usize> = HashMap::new();
        for st in sched.as_array().unwrap() {
            steps += 1;
            let emits: Vec<String> = st["emit"].as_array().map(|a| a.iter().map(|x| x.as_str().unwrap().to_string()).collect()).unwrap_or_default();
            let bind = |wire: &mut HashMap<String, usize>, k: usize| {
                if k > 0 {
                    if let Some(m) = emits.iter().find(|m| !wire.contains_key(*m)) {
                        wire.insert(m.clone(), k);
                    }
                }
            };
            match st["op"].as_str().unwrap() {
                "drop" => {}
                "initiate" => {
                    let o = st["o"].as_str().unwrap();
                    if !p.alive[idx(o)] || stage_name(&p.objs[idx(o)]) != "fresh" {
                        skipped += 1;
                        continue;
                    }
                    let k = p.initiate(o, &mut t);
                    bind(&mut wire, k);
                }
                "tick" => {
                    let o = st["o"].as_str().unwrap();
                    if !p.alive[idx(o)] {
                        skipped += 1;
                        continue;
                    }
                    p.ticks(o, 1, &mut t);
                }
                "jump" => {
                    let o = st["o"].as_str().unwrap();
                    let i = idx(o);
                    if !p.alive[i] {
                        skipped += 1;
                        continue;
                    }
                    let (r, c) = p.counters(i);
                    let n = match stage_name(&p.objs[i]) {
                        "waitClose" if c > 1 => c - 1,
                        "awaitPong" | "awaitPeng" if r < 119 => 119 - r,
                        _ => 0,
                    };
                    if n == 0 {
                        skipped += 1;
                        continue;
                    }
                    p.ticks(o, n, &mut t);
                }
                "recv" => {
                    let o = st["o"].as_str().unwrap();
                    let k = match wire.get(st["m"].as_str().unwrap()) {
                        Some(k) => *k,
                        None => {
                            skipped += 1;
                            continue;
                        }
                    };
                    if !p.alive[idx(o)] {
                        skipped += 1;
                        continue;
                    }
                    let (nk, _, _) = p.recv(o, k, &mut t);
                    bind(&mut wire, nk);
                }
                other => panic!("unknown op {}", other),
            }
        }
        if p.done[0] > 0 && p.done[1] > 0 {
            completed += 1;
        }
        p.finals(&mut t);
    }
    let events = t.finish();
    json!({"runs": runs, "steps": steps, "events": events, "skipped_steps": skipped, "both_completed": completed})
}

/// Random schedules over {A initiates, B initiates, deliver any in-flight datagram (kept: duplicates are free),
/// drop, tick, leap} - the network is a multiset of datagram indices per receiver.
pub fn run_random(nruns: u64, depth: u64, out_path: &str, rank_high: &str, mode: &str) -> Value {
    let crypto = mutual_ctx(mode);
    let mut t = Trace::create(out_path);
    let mut rng = rng(21);
    let (mut steps, mut completed) = (0u64, 0u64);
    for run in 0..nruns {
        t.ev(json!({"op":"reset","run":run + 1}));
        let mut p = Pair::new(&crypto, rank_high);
        let mut net: [Vec<usize>; 2] = [vec![], vec![]]; // datagram indices addressed to A / B
        let mut owner: HashMap<usize, usize> = HashMap::new();
        let started = [rng.gen_bool(0.8), rng.gen_bool(0.5)];
        for d in 0..depth {
            steps += 1;
            let x: u32 = rng.gen_range(0..100);
            let i = rng.gen_range(0..2usize);
            let o = ON[i];
            if d < 2 && started[d as usize] && stage_name(&p.objs[d as usize]) == "fresh" && p.alive[d as usize] {
                let k = p.initiate(ON[d as usize], &mut t);
                if k > 0 {
                    owner.insert(k, d as usize);
                    net[1 - d as usize].push(k);
                }
                continue;
            }
            if !p.alive[i] {
                continue;
            }
            if x < 55 {
                if net[i].is_empty() {
                    continue;
                }
                let k = *net[i].choose(&mut rng).unwrap();
                let (nk, rep, _) = p.recv(o, k, &mut t);
                for x in [nk, rep] {
                    if x > 0 && !net[1 - i].contains(&x) {
                        net[1 - i].push(x);
                    }
                }
            } else if x < 65 {
                if !net[i].is_empty() {
                    let pos = rng.gen_range(0..net[i].len());
                    net[i].remove(pos);
                }
            } else if x < 92 {
                let rep = p.ticks(o, 1, &mut t);
                if rep > 0 && !net[1 - i].contains(&rep) {
                    net[1 - i].push(rep);
                }
            } else {
                let (r, c) = p.counters(i);
                let n = match stage_name(&p.objs[i]) {
                    "waitClose" if c > 1 => c - 1,
                    "awaitPong" | "awaitPeng" if r < 119 => 119 - r,
                    _ => 0,
                };
                if n > 0 {
                    let rep = p.ticks(o, n, &mut t);
                    if rep > 0 && !net[1 - i].contains(&rep) {
                        net[1 - i].push(rep);
                    }
                }
            }
        }
        if p.done[0] > 0 && p.done[1] > 0 {
            completed += 1;
        }
        p.finals(&mut t);
    }
    let events = t.finish();
    json!({"runs": nruns, "steps": steps, "events": events, "both_completed": completed})
}
