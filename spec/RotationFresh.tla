---------------------------- MODULE RotationFresh ----------------------------
(* C07 freshness ("each direction's sealing key is replaced at least every second rotation interval while rotation
   messages get through"): the reliable sub-specification of Rotation in which both ends cycle once per round (in
   either order - this covers every relative phase of the two 120 s counters) and every emitted message is delivered
   before the next cycle.  round counts completed rounds, changed[p] the round in which cur[p] last changed. *)
EXTENDS Rotation

VARIABLES round, turn, changed, dl
fvars == <<vars, round, turn, changed, dl>>

FreshInit == /\ Init /\ round = 0 /\ turn = {} /\ changed = [p \in Ends |-> 0] /\ dl = 0

Changed == changed' = [q \in Ends |-> IF cur'[q] # cur[q] THEN round ELSE changed[q]]

\* deliver the next not yet delivered message (dl = number of messages of sentSeq already delivered)
DeliverNext ==
  /\ dl < Len(sentSeq) /\ dl' = dl + 1
  /\ LET m == sentSeq[dl + 1] IN RecvMsg(m.to, m)
  /\ Changed
  /\ UNCHANGED <<round, turn>>

\* when everything is delivered, an end that has not cycled in this round does
CycleNext(p) ==
  /\ dl = Len(sentSeq) /\ dl' = dl
  /\ p \notin turn
  /\ Cycle(p)
  /\ turn' = IF turn \cup {p} = Ends THEN {} ELSE turn \cup {p}
  /\ round' = IF turn \cup {p} = Ends THEN round + 1 ELSE round
  /\ Changed

FreshNext == DeliverNext \/ \E p \in Ends : CycleNext(p)
FreshSpec == FreshInit /\ [][FreshNext]_fvars

\* every end's sealing key changed during the last two completed rounds
Fresh == \A p \in Ends : round - changed[p] <= 2
\* and safety holds along the way
FreshSafe == SealKeyHeldByPeer
=============================================================================
