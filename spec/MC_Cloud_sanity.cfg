SPECIFICATION Spec
CONSTANTS DataPlane = "off"
          N = 3
          MaxTime = 8
          Silent = 0
          FaultKind = "silent"
          DialKind = "connect"
          MAX_RETRIES <- McRetries
          LINGER <- McLinger
          OWN_RESET <- McOwnReset
INVARIANT NeverMeshed
CHECK_DEADLOCK FALSE
