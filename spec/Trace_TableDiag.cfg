SPECIFICATION TraceSpec
CONSTANTS Peers = {0, 1, 2}
          W = 4
          Ranges <- TraceRanges
          Addrs = {0, 1, 2, 3, 4, 5, 6, 7, 8, 9, 10, 11, 12, 13, 14, 15}
          CT = 3
          ST = 2
          AdmitStale = FALSE
          Gate = FALSE
          Relax = "none"
          Lenient = TRUE
INVARIANT CacheBounded
INVARIANT ClaimsAreLastAnnouncement
INVARIANT NextHopsArePeers
INVARIANT NoDuplicateClaims
INVARIANT LearnedHolds
INVARIANT LearnedExpires
INVARIANT TypeOK
PROPERTY LookupIsLPM
PROPERTY LookupReuses
PROPERTY AnnounceIsExact
PROPERTY LearnedIsLastWriter
POSTCONDITION Accepted
CHECK_DEADLOCK FALSE
