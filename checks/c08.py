"""C08 - no datagram from an outsider can crash a node.

Design level: Node.tla - an unverifiable datagram (InjectBad) is a stuttering step on node state in every reachable
state (BadIsStutter).  Impl -> spec: families of datagrams presented to a real mock-backed node (one reused receive
buffer, as in run()) in the receiver states {unknown sender, pending as initiator, pending as responder, established
with / without lingering handshake object, established plain} x claimed source {the peer's address, unknown}:
lengths 0..80 x structured first bytes x random bodies, every truncation and byte substitution of genuine handshake /
data / node-info / rotation datagrams, structured handshake datagrams behind a genuine key-hash prefix, random
datagrams up to the receive buffer size, sequences of up to 50.  TLC judges every family record (NodeFamOK)."""
import os
import vplib as V
from checks import cloudcommon
from checks import noderuns

PID = "C08"


def classify(e):
    if e.get("op") != "nodefam":
        return "c08|%s" % e.get("op")
    what = "panic" if e["panics"] else ("state-or-reply" if e["bad_other"] else ("genuine-blocked" if e.get("then_completes") == "no" else ("stale-tail" if e["bad_tail"] else "other")))
    return "c08|%s|%s|src=%s|%s|%s" % (e["state"], e["family"], e["src"], e["kind"] if e["kind"] != "-" else "any", what)


def run(tier, out):
    wd = V.workdir(PID)
    V.build_harness()
    d = V.tlc_design("Node.tla", "MC_Node_peerfirst_quick.cfg", PID, workers=10, timeout=900, xmx="12g")
    if d.invariant_violated or d.property_violated:
        out.violation("design|node", "Node.tla violated", {"tlc": d.out[-2000:]})
    tp = os.path.join(wd, "trace.ndjson")
    s = V.harness_json(["node", "fam", "c08", tier, tp])
    accepted = noderuns.validate_records(PID, out, tp, classify, "C08 families")
    st = "skipped (violations found)"
    if not out.violations:
        dst = os.path.join(wd, "selftest.ndjson")
        hit = V.corrupt_trace(tp, dst, lambda e: e["op"] == "nodefam" and e["state"] == "estab", lambda e: e.__setitem__("panics", 1))
        v = V.tlc_trace("Trace_NodeRuns.tla", "Trace_NodeRuns.cfg", PID, dst, s["events"], sub="selftest")
        if v.accepted or v.matched != hit - 1:
            V.selftest_fail(PID, "family record with a panic (line %d) not rejected there" % hit)
        st = "family record with one panic at line %d rejected by TLC" % hit
    evs = V.read_ndjson(tp)
    cov = {
        "states": d.distinct, "transitions": d.generated,
        "traces_validated_against_impl": accepted,
        "samples": evs[:2],
        "evaluations": s["steps"], "distinct_nontrivial": s["steps"],
        "rule": "%d datagrams in %d families over 6 receiver states x 2 claimed sources; each family member is a distinct datagram presented under catch_unwind "
                "with peers/pending sets, socket and interface queues compared before/after" % (s["steps"], s["events"]),
        "self_test": st,
        "oracle_applied_in": "harness per member (panic / reply / interface write / shape change), TLC per family record",
    }
    cloudcommon.part(PID, tier, out, cov)
    return out.finish("model_checking", cov, assumptions=[
        "the outsider holds no trusted key; verbatim replays of genuine datagrams are C09's subject, not C08's",
        "the largest datagram is 65435 bytes: the receive buffer of run() (65535 bytes with 100 bytes head room) truncates anything longer",
        "in a session negotiated as plain, datagrams from the peer's address are unauthenticated by design: only 'no panic' is required there"])
