#!/usr/bin/env python3
"""Confirms a seeded change delivered by a sub-agent in its scratch worktree /tmp/mut/<ID>/out/<X>/ and, if confirmed,
stores it under seeded/<id>-<x>/.  Confirmation = demonstration passes without the change, fails with it, and the
complete existing suite passes with the change (the timing-sensitive beacon::encode_decode_cmd is re-run alone).
Usage: tools/import_mutant.py C13 A"""
import json, os, re, shutil, subprocess, sys
ROOT = os.path.dirname(os.path.dirname(os.path.abspath(__file__)))


def sh(cmd, cwd):
    return subprocess.run(cmd, shell=True, cwd=cwd, stdout=subprocess.PIPE, stderr=subprocess.STDOUT, text=True)


def test(wt, filt=""):
    p = sh("cargo test --offline %s 2>&1" % filt, wt)
    m = re.findall(r"test result: (\w+)\. (\d+) passed; (\d+) failed", p.stdout)
    failed = re.findall(r"^test (\S+) \.\.\. FAILED", p.stdout, re.M)
    return m, failed, p.stdout


def main():
    pid, x = sys.argv[1], sys.argv[2]
    rnd = sys.argv[3] if len(sys.argv) > 3 else ""          # e.g. "2": second round, worktrees under /tmp/mut2
    wt = "/tmp/mut%s/%s" % (rnd, pid)
    src = os.path.join(wt, "out", x)
    meta = json.load(open(os.path.join(src, "meta.json")))
    sh("git checkout -- . && git clean -fdq src", wt)
    res = {}
    r = sh("git apply %s" % os.path.join(src, "demo.diff"), wt)
    if r.returncode != 0:
        print("demo does not apply", r.stdout); return 1
    demo_filter = "seeded"
    mm = re.search(r"cargo test[^\n]*?(seeded\w*)", meta.get("demo_cmd", ""))
    if mm:
        demo_filter = mm.group(1)
    m, failed, out = test(wt, demo_filter)
    res["demo_passes_without_change"] = bool(m) and not failed and sum(int(a[1]) for a in m) > 0
    r = sh("git apply %s" % os.path.join(src, "patch.diff"), wt)
    if r.returncode != 0:
        print("patch does not apply", r.stdout); sh("git checkout -- . && git clean -fdq src", wt); return 1
    m, failed, out = test(wt, demo_filter)
    res["demo_fails_with_change"] = bool(failed)
    res["demo_failures"] = failed
    # the complete suite without the demonstration
    sh("git apply -R %s" % os.path.join(src, "demo.diff"), wt)
    m, failed, out = test(wt)
    others = [f for f in failed if f != "beacon::encode_decode_cmd"]
    if "beacon::encode_decode_cmd" in failed:
        m2, f2, _ = test(wt, "beacon::encode_decode_cmd")
        if f2:
            m2, f2, _ = test(wt, "beacon::encode_decode_cmd")
        if f2:
            others.append("beacon::encode_decode_cmd (also alone)")
    res["suite_passes_with_change"] = bool(m) and not others
    res["suite_failures"] = others
    res["suite_counts"] = m
    sh("git checkout -- . && git clean -fdq src", wt)
    ok = res["demo_passes_without_change"] and res["demo_fails_with_change"] and res["suite_passes_with_change"]
    print(pid, x, "CONFIRMED" if ok else "NOT CONFIRMED", json.dumps(res))
    if ok:
        dst = os.path.join(ROOT, "seeded", "%s-%s%s" % (pid.lower(), x.lower(), rnd))
        os.makedirs(dst, exist_ok=True)
        for f in ("patch.diff", "demo.diff"):
            shutil.copy(os.path.join(src, f), dst)
        meta["confirmed_by_owner"] = res
        meta["what_i_ran"] = "tools/import_mutant.py %s %s in the scratch worktree: demo without change, demo with change, complete suite with change" % (pid, x)
        json.dump(meta, open(os.path.join(dst, "meta.json"), "w"), indent=1)
    return 0 if ok else 1


if __name__ == "__main__":
    sys.exit(main())
