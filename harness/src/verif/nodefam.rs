//! C08 / C01 (node level): families of datagrams that a party without a trusted key can fabricate, presented to a
//! full mock-backed node in every receiver state; and trust-graph runs (peers exactly when trust is mutual).
//!
//! `node fam <c08|c01> <tier> <trace>`   one record per (state, family, claimed source, residue)
//! `node trust <tier> <trace>`           one record per trust relation
use super::node::*;
use super::util::*;
use crate::config::Config;
use crate::crypto::Crypto;
use crate::payload::Frame;
use crate::types::Mode;
use rand::Rng;
use serde_json::{json, Value};
use std::net::SocketAddr;

pub const STATES: [&str; 6] = ["unknown", "pend-init", "pend-resp", "estab-linger", "estab", "estab-plain"];

pub struct Prepared {
    pub sim: Sim<Frame>,
    pub genuine: Vec<(&'static str, Vec<u8>)>, // (kind, bytes) of genuine datagrams addressed to the victim
    pub held: Option<Vec<u8>>,                 // the genuine datagram that would advance the victim's handshake
}

fn kind_of(bytes: &[u8]) -> &'static str {
    match bytes.first() {
        None => "empty",
        Some(0xff) => match bytes.get(12) {
            Some(1) => "ping",
            Some(2) => "pong",
            Some(3) => "peng",
            _ => "init",
        },
        Some(_) => "sealed",
    }
}

/// all datagrams currently due are taken out of the queue and returned (nothing is delivered)
fn take_queue(sim: &mut Sim<Frame>) -> Vec<InFlight> {
    sim.queue.drain(..).collect()
}

fn deliver(sim: &mut Sim<Frame>, m: &InFlight) {
    sim.present((m.to - 1) as usize, m.src, &m.bytes);
}

/// victim = node 0 (port 1), peer Q = node 1 (port 2)
pub fn prepare(state: &str, stream: u64) -> Prepared {
    let mut sim: Sim<Frame> = Sim::new(stream);
    let mut cfg = base_config(Mode::Switch);
    if state == "estab-plain" {
        cfg.crypto.algorithms = vec!["plain".into()];
    }
    sim.add_node(false, &cfg);
    sim.add_node(false, &cfg);
    let (v, q) = (0usize, 1usize);
    let (va, qa) = (sim.nodes[v].addr, sim.nodes[q].addr);
    let mut held = None;
    match state {
        "unknown" => {
            // Q dials the victim, the ping is captured and not delivered
            sim.connect(q, va);
            let ms = take_queue(&mut sim);
            held = ms.first().map(|m| m.bytes.clone());
        }
        "pend-init" => {
            sim.connect(v, qa);
            for m in take_queue(&mut sim) {
                deliver(&mut sim, &m); // ping reaches Q
            }
            let ms = take_queue(&mut sim); // Q's pong is held back
            held = ms.iter().find(|m| m.to == 1).map(|m| m.bytes.clone());
        }
        "pend-resp" => {
            sim.connect(q, va);
            for m in take_queue(&mut sim) {
                deliver(&mut sim, &m); // ping reaches the victim
            }
            for m in take_queue(&mut sim) {
                deliver(&mut sim, &m); // pong reaches Q
            }
            let ms = take_queue(&mut sim); // Q's peng is held back
            held = ms.iter().find(|m| m.to == 1 && kind_of(&m.bytes) == "peng").map(|m| m.bytes.clone());
        }
        _ => {
            sim.connect(v, qa);
            sim.deliver_due();
            let secs = if state == "estab-linger" { 3 } else { 130 };
            let mut n = 0u64;
            for _ in 0..secs {
                sim.tick();
                for (i, j) in [(v, q), (q, v)] {
                    n += 1;
                    let mut payload = vec![0u8; 20];
                    payload[..8].copy_from_slice(&n.to_be_bytes());
                    sim.iface(i, &eth_frame(mac(10 + j as u8), mac(10 + i as u8), None, &payload));
                }
                sim.deliver_due();
            }
        }
    }
    // genuine datagrams that were addressed to the victim in this run, one per (kind, length)
    let mut genuine: Vec<(&'static str, Vec<u8>)> = vec![];
    for d in sim.wire.iter() {
        if d.to == va && !genuine.iter().any(|(k, b)| *k == kind_of(&d.bytes) && b.len() == d.bytes.len()) {
            genuine.push((kind_of(&d.bytes), d.bytes.clone()));
        }
    }
    sim.capture = false;
    Prepared { sim, genuine, held }
}

#[derive(Default)]
struct Tally {
    members: u64,
    panics: u64,
    replies: u64,
    iface: u64,
    shape_changes: u64,
    first_bad: Option<Value>,
    /// members that had an effect although they cannot verify, split by explanation: `bad_tail` = the bytes lying
    /// behind the datagram in the receive buffer complete it to the genuine datagram (the code parses beyond the
    /// end of the datagram), `bad_other` = anything else
    bad_tail: u64,
    bad_other: u64,
    first_tail: Option<Value>,
    /// when set: the genuine datagram the members are derived from and the residue used
    genuine: Option<(Vec<u8>, Vec<u8>)>,
}

fn present_member(p: &mut Prepared, t: &mut Tally, src: SocketAddr, bytes: &[u8], residue: Option<&[u8]>, what: &str) {
    let before = p.sim.shape(0);
    let r = match residue {
        Some(res) => p.sim.present_with_residue(0, src, bytes, res),
        None => p.sim.present(0, src, bytes),
    };
    let after = p.sim.shape(0);
    t.members += 1;
    let changed = before != after;
    if r.panicked {
        t.panics += 1;
    }
    t.replies += r.sent.len() as u64;
    t.iface += r.iface.len() as u64;
    if changed {
        t.shape_changes += 1;
    }
    if r.panicked || !r.sent.is_empty() || !r.iface.is_empty() || changed {
        let desc = json!({"what": what, "len": bytes.len(), "head": hex(&bytes[..bytes.len().min(16)]), "panicked": r.panicked,
                          "replies": r.sent.len(), "iface": r.iface.len(), "shape_changed": changed});
        let by_tail = match (&t.genuine, residue) {
            (Some((g, _)), Some(res)) => {
                bytes.len() < g.len() && g[..bytes.len()] == bytes[..] && res.len() >= g.len() && g[bytes.len()..] == res[bytes.len()..g.len()]
            }
            _ => false,
        };
        if by_tail && !r.panicked {
            t.bad_tail += 1;
            if t.first_tail.is_none() {
                t.first_tail = Some(desc);
            }
        } else {
            t.bad_other += 1;
            if t.first_bad.is_none() {
                t.first_bad = Some(desc);
            }
        }
    }
    if r.panicked {
        // a node that panicked may be left in any state: rebuild the scenario state is too expensive, keep going
    }
}

fn record(state: &str, family: &str, src: &str, residue: &str, kind: &str, t: Tally, then_completes: Option<bool>) -> Value {
    let mode = if family.starts_with("foreign-genuine") { "nopanic" } else { "strict" };
    json!({"op":"nodefam","mode":mode,"state":state,"family":family,"src":src,"residue":residue,"kind":kind,"members":t.members,"panics":t.panics,
           "replies":t.replies,"iface":t.iface,"shape_changes":t.shape_changes,"first_bad":t.first_bad.unwrap_or(json!("none")),
           "bad_tail":t.bad_tail,"bad_other":t.bad_other,"first_tail":t.first_tail.unwrap_or(json!("none")),
           "then_completes": match then_completes { Some(true) => "yes", Some(false) => "no", None => "n/a" }})
}

const ZERO: [u8; 2048] = [0u8; 2048];

/// C08 families for one (state, source)
fn c08_job(state: &str, src_kind: &str, tier: &str, stream: u64) -> Vec<Value> {
    let quick = tier == "quick";
    let mut out = vec![];
    let mut p = prepare(state, stream);
    let mut rng = rng(stream + 5000);
    let src: SocketAddr = if src_kind == "peer" { p.sim.nodes[1].addr } else { addr_of(77) };
    // F1: every length 0..=80 x structured first byte x random bodies
    let firsts: Vec<u8> = vec![0xff, 0, 1, 2, 3, 4, 5, 6, 7, 0x10, 0xfe, 0x80, 0x40];
    let bodies = if quick { 3 } else { 16 };
    let mut t = Tally::default();
    for len in 0..=80usize {
        for fb in &firsts {
            for _ in 0..bodies {
                let mut b = vec![0u8; len];
                rng.fill(&mut b[..]);
                if len > 0 {
                    b[0] = *fb;
                }
                present_member(&mut p, &mut t, src, &b, Some(&ZERO), "short");
            }
        }
    }
    out.push(record(state, "short-structured", src_kind, "zero", "-", t, None));
    // F2/F3: every truncation and every single-byte substitution of genuine datagrams, replayed by the outsider
    let genuine = p.genuine.clone();
    for (kind, g) in &genuine {
        let mut t = Tally::default();
        t.genuine = Some((g.clone(), ZERO[..g.len().min(2048)].to_vec()));
        for len in 0..g.len() {
            present_member(&mut p, &mut t, src, &g[..len], Some(&ZERO), "truncation");
        }
        out.push(record(state, "truncation", src_kind, "zero", kind, t, None));
        let mut t = Tally::default();
        let step = if quick && g.len() > 200 { 3 } else { 1 };
        for pos in (0..g.len()).step_by(step) {
            for v in [0x00u8, 0xff, g[pos] ^ 0x55, g[pos].wrapping_add(1)] {
                if v != g[pos] {
                    let mut b = g.clone();
                    b[pos] = v;
                    present_member(&mut p, &mut t, src, &b, Some(&ZERO), "substitution");
                }
            }
        }
        out.push(record(state, "substitution", src_kind, "zero", kind, t, None));
    }
    // F4: structured handshake datagrams behind a genuine marker + salt + key-hash prefix
    if let Some((_, g)) = genuine.iter().find(|(k, _)| *k == "ping" || *k == "pong" || *k == "peng") {
        let mut t = Tally::default();
        let n = if quick { 3000 } else { 60000 };
        for _ in 0..n {
            let mut b = g[..9].to_vec();
            let parts = rng.gen_range(0..6);
            for _ in 0..parts {
                let tag: u8 = if rng.gen_bool(0.8) { rng.gen_range(0..7) } else { rng.gen() };
                b.push(tag);
                if tag == 0 {
                    break;
                }
                let claimed: u16 = match rng.gen_range(0..4) {
                    0 => rng.gen_range(0..8),
                    1 => rng.gen_range(0..64),
                    2 => 0xffff,
                    _ => rng.gen(),
                };
                b.extend_from_slice(&claimed.to_be_bytes());
                let actual = rng.gen_range(0..40usize);
                for _ in 0..actual {
                    b.push(rng.gen());
                }
            }
            if rng.gen_bool(0.5) {
                b.push(0);
                b.push(rng.gen_range(0..80));
                for _ in 0..rng.gen_range(0..70) {
                    b.push(rng.gen());
                }
            }
            present_member(&mut p, &mut t, src, &b, Some(&ZERO), "structured-init");
        }
        out.push(record(state, "structured-init", src_kind, "zero", "-", t, None));
    }
    // F5: random datagrams up to 65535 bytes
    let mut t = Tally::default();
    for i in 0..(if quick { 12 } else { 200 }) {
        let len = match i % 4 {
            0 => 65435, // the largest datagram the receive buffer of run() can take (65535 - 100 bytes head room)
            1 => rng.gen_range(81..2048),
            2 => rng.gen_range(2048..65435),
            _ => rng.gen_range(1..400),
        };
        let mut b = vec![0u8; len];
        rng.fill(&mut b[..]);
        if i % 3 == 0 {
            b[0] = 0xff;
        }
        present_member(&mut p, &mut t, src, &b, None, "random-large");
    }
    out.push(record(state, "random-large", src_kind, "stale", "-", t, None));
    // F6: sequences of up to 50 datagrams into the reused receive buffer (stale bytes of earlier datagrams stay behind)
    let mut t = Tally::default();
    for _ in 0..(if quick { 40 } else { 400 }) {
        let n = rng.gen_range(1..=50);
        for _ in 0..n {
            let len = rng.gen_range(0..120usize);
            let mut b = vec![0u8; len];
            rng.fill(&mut b[..]);
            if len > 0 && rng.gen_bool(0.5) {
                b[0] = *[0xffu8, 0, 1, 2, 3].iter().nth(rng.gen_range(0..5)).unwrap();
            }
            present_member(&mut p, &mut t, src, &b, None, "sequence");
        }
    }
    out.push(record(state, "sequences", src_kind, "stale", "-", t, None));
    // F7: genuine handshake datagrams of a DIFFERENT handshake (two other nodes with the same trusted key), replayed
    // verbatim, several times each: they verify, so they may start a handshake attempt - but nothing may panic
    let foreign = foreign_handshake(stream + 17);
    let mut t = Tally::default();
    for round in 0..3 {
        for (_, g) in &foreign {
            present_member(&mut p, &mut t, src, g, None, "foreign-genuine");
            if round == 1 {
                p.sim.run_for(1);
            }
        }
    }
    out.push(record(state, "foreign-genuine-x3", src_kind, "stale", "handshake", t, None));
    // after everything the outsider sent: the genuine peer's payload still gets through (nothing was left behind)
    if state == "estab" || state == "estab-linger" {
        p.sim.run_for(3);
        let mark = p.sim.delivered.len();
        let f = eth_frame(mac(10), mac(11), None, &[9u8; 16]);
        p.sim.iface(1, &f);
        p.sim.deliver_due();
        let ok = p.sim.delivered[mark..].iter().any(|(_, port, b)| *port == 1 && *b == f);
        let mut t = Tally::default();
        t.members = 1;
        out.push(record(state, "genuine-after", src_kind, "stale", "data", t, Some(ok)));
    }
    out
}

/// ping, pong and peng of a complete handshake between two other nodes that use the same password
fn foreign_handshake(stream: u64) -> Vec<(&'static str, Vec<u8>)> {
    let mut sim: Sim<Frame> = Sim::new(stream);
    let cfg = base_config(Mode::Switch);
    sim.add_node(false, &cfg);
    sim.add_node(false, &cfg);
    let a = sim.nodes[1].addr;
    sim.connect(0, a);
    sim.deliver_due();
    sim.wire.iter().filter(|d| d.bytes.first() == Some(&0xff)).map(|d| (kind_of(&d.bytes), d.bytes.clone())).collect()
}

/// C02 / C01 at node level: an address with an OPEN handshake and no established peer (the peer was timed out and is
/// being re-dialled) receives datagrams that are not handshake messages: datagrams sealed for the previous connection
/// and forged unsealed payload / control messages.  Nothing may reach the interface, no state may change.
fn pending_after_estab_job(prop: &str, stream: u64) -> Vec<Value> {
    let mut out = vec![];
    let mut sim: Sim<Frame> = Sim::new(stream);
    let mut cfg = base_config(Mode::Switch);
    cfg.peer_timeout = 130;
    sim.add_node(false, &cfg);
    sim.add_node(false, &cfg);
    let (va, qa) = (sim.nodes[0].addr, sim.nodes[1].addr);
    sim.connect(0, qa);
    sim.deliver_due();
    let mut sealed: Vec<Vec<u8>> = vec![];
    for k in 0..5u8 {
        sim.tick();
        let f = eth_frame(mac(10), mac(11), None, &[k; 20]);
        let r = sim.iface(1, &f);
        for d in &r.sent {
            if d.to == va {
                sealed.push(d.bytes.clone());
            }
        }
        sim.deliver_due();
    }
    // Q falls silent; V times it out and re-dials: V now holds an open handshake for Q's address and no peer
    sim.faults.silent.insert(2);
    for _ in 0..140 {
        sim.tick();
        let (peers, pend) = sim.shape(0);
        if !peers.contains(&2) && pend.contains(&2) {
            break;
        }
    }
    let (peers, pend) = sim.shape(0);
    let state = if !peers.contains(&2) && pend.contains(&2) { "pend-after-estab" } else { "unexpected" };
    let mut p = Prepared { sim, genuine: vec![], held: None };
    let mut t = Tally::default();
    for g in &sealed {
        present_member(&mut p, &mut t, qa, g, Some(&ZERO), "sealed-for-previous-connection");
    }
    let mut r = record(state, "old-sealed", "peer", "zero", "sealed", t, None);
    r["prop"] = json!(prop);
    out.push(r);
    let mut t = Tally::default();
    let frame = eth_frame(mac(10), mac(11), None, &[7u8; 24]);
    for ty in [0u8, 1, 2, 3, 0x10, 0xfe] {
        let mut b = vec![ty];
        b.extend_from_slice(&frame);
        present_member(&mut p, &mut t, qa, &b, Some(&ZERO), "forged-unsealed");
        present_member(&mut p, &mut t, addr_of(77), &b, Some(&ZERO), "forged-unsealed");
    }
    let mut r = record(state, "forged-unsealed", "peer", "zero", "plain", t, None);
    r["prop"] = json!(prop);
    out.push(r);
    out
}

/// C01 families: every single-bit flip, every truncation, field edits of the genuine handshake datagrams, and
/// well-formed messages signed with an untrusted key, for one (state, residue)
fn c01_job(state: &str, residue_kind: &str, tier: &str, stream: u64) -> Vec<Value> {
    let quick = tier == "quick";
    let mut out = vec![];
    let mut p = prepare(state, stream);
    let mut rng = rng(stream + 7000);
    let qa = p.sim.nodes[1].addr;
    let mut inits: Vec<(&'static str, Vec<u8>)> = p.genuine.iter().filter(|(k, _)| ["ping", "pong", "peng"].contains(k)).cloned().collect();
    if let Some(h) = &p.held {
        if !inits.iter().any(|(_, b)| b == h) {
            inits.push((kind_of(h), h.clone()));
        }
    }
    for (kind, g) in &inits {
        let residue: Vec<u8> = match residue_kind {
            "zero" => vec![0u8; g.len() + 64],
            "genuine" => g.clone(),
            _ => {
                let mut r = vec![0u8; g.len() + 64];
                rng.fill(&mut r[..]);
                r
            }
        };
        for (srck, src) in [("peer", qa), ("unknown", addr_of(77))] {
            if quick && srck == "unknown" && residue_kind != "zero" {
                continue;
            }
            let mut t = Tally::default();
            for bit in 0..g.len() * 8 {
                let mut b = g.clone();
                b[bit / 8] ^= 1 << (bit % 8);
                present_member(&mut p, &mut t, src, &b, Some(&residue), "bitflip");
            }
            out.push(record(state, "bitflip", srck, residue_kind, kind, t, None));
            let mut t = Tally::default();
            t.genuine = Some((g.clone(), residue.clone()));
            for len in 0..g.len() {
                present_member(&mut p, &mut t, src, &g[..len], Some(&residue), "truncation");
            }
            out.push(record(state, "truncation", srck, residue_kind, kind, t, None));
            // field edits: stage byte, lengths and tags of every part, signature length
            let mut t = Tally::default();
            for pos in 0..g.len() {
                for v in [0u8, 1, 2, 3, 4, 5, 0x40, 0xff] {
                    if v != g[pos] {
                        let mut b = g.clone();
                        b[pos] = v;
                        present_member(&mut p, &mut t, src, &b, Some(&residue), "field-edit");
                    }
                }
                if quick && pos > 60 && pos + 70 < g.len() {
                    continue;
                }
            }
            out.push(record(state, "field-edit", srck, residue_kind, kind, t, None));
            // signature forgeries that need no key: the genuine content under other salts, a key hash that matches no
            // trusted key (or the genuine one), and a signature made of small-order curve points and trivial scalars -
            // what a verifier accepts when it falls back to a degenerate (all-zero, identity, low-order) public key
            if residue_kind == "zero" {
                let mut t = Tally::default();
                let n = g.len();
                if n > 80 && g[n - 65] == 64 {
                    let small_r: [[u8; 32]; 5] = [
                        { let mut r = [0u8; 32]; r[0] = 1; r },                       // identity
                        [0u8; 32],                                                    // order 4
                        { let mut r = [0xffu8; 32]; r[0] = 0xec; r[31] = 0x7f; r },  // order 2
                        { let mut r = [0u8; 32]; r[31] = 0x80; r },                  // order 4 (sign bit)
                        { let mut r = [0u8; 32]; r[0] = 1; r[31] = 0x80; r },        // non-canonical identity
                    ];
                    let scalars: [[u8; 32]; 2] = [[0u8; 32], { let mut x = [0u8; 32]; x[0] = 1; x }];
                    for salt in 0..(if quick { 24u8 } else { 128 }) {
                        for keep_hash in [false, true] {
                            for r in &small_r {
                                for sc in &scalars {
                                    let mut b = g.clone();
                                    // bytes 1..5 salt, 5..9 key hash prefix (both inside the signed content)
                                    b[1] = salt;
                                    b[2] = salt.wrapping_mul(37);
                                    if !keep_hash {
                                        b[5] ^= 0x5a;
                                        b[6] = salt;
                                    }
                                    b[n - 64..n - 32].copy_from_slice(r);
                                    b[n - 32..].copy_from_slice(sc);
                                    present_member(&mut p, &mut t, src, &b, Some(&residue), "degenerate-signature");
                                }
                            }
                        }
                    }
                    out.push(record(state, "degenerate-signature", srck, residue_kind, kind, t, None));
                }
            }
        }
    }
    // random datagrams carrying the handshake marker
    let mut t = Tally::default();
    for _ in 0..(if quick { 500 } else { 5000 }) {
        let len = rng.gen_range(1..300usize);
        let mut b = vec![0u8; len];
        rng.fill(&mut b[..]);
        b[0] = 0xff;
        present_member(&mut p, &mut t, qa, &b, Some(&ZERO), "random-marker");
    }
    out.push(record(state, "random-marker", "peer", "zero", "-", t, None));
    // datagrams that are not handshake messages from a party that has proved nothing (yet): unsealed payload / control
    // messages of every type; they must not reach the interface nor change anything while no session exists
    if state != "estab" && state != "estab-linger" {
        let mut t = Tally::default();
        let frame = eth_frame(mac(10), mac(11), None, &[5u8; 24]);
        for ty in [0u8, 1, 2, 3, 0x10, 0xfe] {
            for src in [qa, addr_of(77)] {
                let mut b = vec![ty];
                b.extend_from_slice(&frame);
                present_member(&mut p, &mut t, src, &b, Some(&ZERO), "non-handshake");
            }
        }
        out.push(record(state, "non-handshake", "any", "zero", "plain", t, None));
    }
    // functional "unchanged": the genuine datagram that was held back still advances the handshake
    if let Some(h) = p.held.clone() {
        let r = p.sim.present(0, qa, &h);
        p.sim.deliver_due();
        p.sim.run_for(2);
        let ok = match state {
            "unknown" | "pend-init" | "pend-resp" => p.sim.connected(0, 1),
            _ => true,
        };
        let mut t = Tally::default();
        t.members = 1;
        t.panics = r.panicked as u64;
        out.push(record(state, "genuine-after", "peer", residue_kind, kind_of(&h), t, Some(ok)));
    }
    out
}

/// a well-formed handshake message signed with a key the victim does not trust
fn c01_untrusted(tier: &str, stream: u64) -> Vec<Value> {
    let _ = tier;
    let mut out = vec![];
    for state in ["unknown", "pend-init", "estab"] {
        let mut p = prepare(state, stream);
        let va = p.sim.nodes[0].addr;
        // W: another password, but W trusts the victim's key (so that it also answers the victim's ping)
        let (_, vpub) = Crypto::generate_keypair(Some("test123"));
        let (_, wpub) = Crypto::generate_keypair(Some("outsider"));
        let mut wcfg = base_config(Mode::Switch);
        wcfg.crypto.password = Some("outsider".into());
        wcfg.crypto.trusted_keys = vec![vpub, wpub];
        let w = p.sim.add_node(false, &wcfg);
        let wa = p.sim.nodes[w].addr;
        p.sim.capture = true;
        let before_wire = p.sim.wire.len();
        p.sim.connect(w, va); // W's genuine ping, signed with a key the victim does not trust
        let ms: Vec<InFlight> = p.sim.queue.drain(..).collect();
        let mut t = Tally::default();
        for m in ms.iter().filter(|m| m.to == 1) {
            for src in [wa, p.sim.nodes[1].addr, addr_of(77)] {
                present_member(&mut p, &mut t, src, &m.bytes, Some(&ZERO), "untrusted-ping");
            }
        }
        out.push(record(state, "untrusted-signer", "any", "zero", "ping", t, None));
        if state == "unknown" {
            // the victim dials W: W answers with a pong signed by its (untrusted) key
            p.sim.connect(0, wa);
            p.sim.deliver_due(); // ping -> W, pong -> victim (rejected), ...
            p.sim.run_for(3);
            let mut t = Tally::default();
            t.members = (p.sim.wire.len() - before_wire) as u64;
            t.shape_changes = p.sim.connected(0, w) as u64;
            out.push(record(state, "untrusted-pong", "w", "zero", "pong", t, None));
        }
    }
    out
}

pub fn run_fam(which: &str, tier: &str, out_path: &str) -> Value {
    let mut jobs: Vec<(String, String)> = vec![];
    if which == "c02" {
        jobs.push(("-".into(), "pending-after-estab".into()));
    } else if which == "c08" {
        for s in STATES {
            for src in ["peer", "unknown"] {
                jobs.push((s.to_string(), src.to_string()));
            }
        }
    } else {
        for s in STATES.iter().filter(|s| **s != "estab-plain") {
            for res in ["zero", "genuine", "random"] {
                jobs.push((s.to_string(), res.to_string()));
            }
        }
        jobs.push(("-".into(), "untrusted".into()));
        jobs.push(("-".into(), "pending-after-estab".into()));
    }
    let results = parallel_map(&jobs, |i, (a, b)| {
        if b == "pending-after-estab" {
            pending_after_estab_job(which, 500 + i as u64)
        } else if which == "c08" {
            c08_job(a, b, tier, 100 + i as u64)
        } else if b == "untrusted" {
            c01_untrusted(tier, 300)
        } else {
            c01_job(a, b, tier, 200 + i as u64)
        }
    });
    let mut t = Trace::create(out_path);
    let mut members = 0u64;
    for rs in &results {
        for r in rs {
            members += r["members"].as_u64().unwrap_or(0);
            let mut r = r.clone();
            r["prop"] = json!(which);
            t.ev(r);
        }
    }
    let events = t.finish();
    json!({"runs": events, "steps": members, "events": events})
}

/// C01: two nodes become peers exactly when each trusts the other's key.  All trust relations among 3 keys (each
/// node's trusted set any subset; the empty set means "own key only", as documented), sampled relations among 4.
pub fn run_trust(tier: &str, out_path: &str) -> Value {
    let quick = tier == "quick";
    let names = ["alpha", "beta", "gamma", "delta"];
    let pubs: Vec<String> = names.iter().map(|n| Crypto::generate_keypair(Some(n)).1).collect();
    let mut plans: Vec<(usize, Vec<u32>, bool)> = vec![];
    for a in 0..8u32 {
        for b in 0..8u32 {
            for c in 0..8u32 {
                plans.push((3, vec![a, b, c], false));
            }
        }
    }
    let mut rng = rng(44);
    for _ in 0..(if quick { 60 } else { 3000 }) {
        plans.push((4, (0..4).map(|_| rng.gen_range(0..16u32)).collect(), rng.gen_bool(0.3)));
    }
    let results = parallel_map(&plans, |i, (n, masks, explicit)| {
        let mut sim: Sim<Frame> = Sim::new(400 + i as u64);
        sim.trace_sample(i as u64, 3, 20_000);
        for k in 0..*n {
            let mut cfg = base_config(Mode::Switch);
            cfg.crypto.password = Some(names[k].into());
            if *explicit {
                // the same key given as explicit key pair instead of a password
                let (pr, pb) = Crypto::generate_keypair(Some(names[k]));
                cfg.crypto.password = None;
                cfg.crypto.private_key = Some(pr);
                cfg.crypto.public_key = Some(pb);
            }
            cfg.crypto.trusted_keys = (0..*n).filter(|j| masks[k] >> j & 1 == 1).map(|j| pubs[j].clone()).collect();
            sim.add_node(false, &cfg);
        }
        for a in 0..*n {
            for b in 0..*n {
                if a != b {
                    let to = sim.nodes[b].addr;
                    sim.connect(a, to);
                }
            }
        }
        sim.deliver_due();
        sim.run_for(5);
        let conn: Vec<Vec<bool>> = (0..*n).map(|a| (0..*n).map(|b| a != b && sim.connected(a, b)).collect()).collect();
        // effective trust: the empty configured set means "own key only"
        let trust: Vec<Vec<bool>> =
            (0..*n).map(|a| (0..*n).map(|b| if masks[a] & ((1 << *n) - 1) == 0 { a == b } else { masks[a] >> b & 1 == 1 }).collect()).collect();
        json!({"op":"trustrun","n":n,"masks":masks,"explicit":explicit,"trust":trust,"conn":conn,"panics":sim.total_panics()})
    });
    let mut t = Trace::create(out_path);
    for r in &results {
        t.ev(r.clone());
    }
    let events = t.finish();
    let cloud = write_cloud_blocks(&format!("{}.cloud", out_path));
    json!({"runs": plans.len(), "steps": plans.len(), "events": events, "cloud_events": cloud})
}
